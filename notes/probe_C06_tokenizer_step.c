#include "../../repo/hwloc/topology-xml-nolibxml.c"
unsigned nondet_unsigned(void); int nondet_int(void); char nondet_char(void);
int hwloc__xml_verbose(void) { return 0; }
#ifndef N
#define N 16
#endif
static char *buf;
static int inbuf(const char *p) { return p >= buf && p <= buf + N - 1; }
void harness(void) {
  buf = malloc(N); __CPROVER_assume(buf);
  for (unsigned i = 0; i < N-1; i++) buf[i] = nondet_char();
  buf[N-1] = 0;
  struct hwloc_xml_backend_data_s g; memset(&g, 0, sizeof g);
  struct hwloc__xml_import_state_s st, child;
  hwloc__nolibxml_import_state_data_t n0 = (void*) st.data, n1 = (void*) child.data;
  st.parent = 0; st.global = &g;
  unsigned o1 = nondet_unsigned(), o2 = nondet_unsigned(); __CPROVER_assume(o1 < N && o2 < N);
  n0->closed = nondet_int() ? 1 : 0; n0->tagbuffer = buf + o1; n0->tagname = "object";
  n0->attrbuffer = nondet_int() ? buf + o2 : 0;
  char *a = 0, *b = 0, *tag = 0; const char *c = 0;
#if OP == 0
  int r = hwloc__nolibxml_import_find_child(&st, &child, &tag);
  if (r == 1) { assert(inbuf(tag)); assert(inbuf(n1->tagbuffer)); assert(!n1->attrbuffer || inbuf(n1->attrbuffer)); assert(inbuf(n1->tagname)); }
  assert(buf[N-1] == 0);
#elif OP == 1
  int r = hwloc__nolibxml_import_next_attr(&st, &a, &b);
  if (r == 0) { assert(inbuf(a) && inbuf(b)); assert(inbuf(n0->attrbuffer)); }
  assert(buf[N-1] == 0);
#elif OP == 2
  int r = hwloc__nolibxml_import_close_tag(&st);
  assert(inbuf(n0->tagbuffer)); assert(buf[N-1] == 0);
#else
  size_t el = nondet_unsigned(); __CPROVER_assume(el < 2*N);
  int r = hwloc__nolibxml_import_get_content(&st, &c, el);
  if (r == 1) { assert(inbuf(c)); assert(inbuf(n0->tagbuffer)); hwloc__nolibxml_import_close_content(&st); }
  assert(buf[N-1] == 0);
#endif
#ifdef WITNESS
  assert(r != 1 && r != 0);
#endif
}
