#include "private/autogen/config.h"
#include "hwloc.h"
#include "private/private.h"
#include <assert.h>
#include "../../repo/hwloc/bitmap.c"
unsigned nondet_unsigned(void); unsigned long nondet_ulong(void); int nondet_int(void); size_t nondet_size_t(void); char nondet_char(void); unsigned char nondet_uchar(void);
extern unsigned char vp_r[16]; extern unsigned vp_call;
#ifndef NW
#define NW 2
#endif
#define CAP 128
static unsigned long W0[8];
static char full[CAP], buf[CAP], canary[CAP];
void harness(void) {
  struct hwloc_bitmap_s a;
  unsigned cnt = nondet_unsigned(); __CPROVER_assume(cnt >= 1 && cnt <= NW);
  a.ulongs = W0; a.ulongs_allocated = 8; a.ulongs_count = cnt; for (unsigned i = 0; i < NW; i++) W0[i] = nondet_ulong(); a.infinite = nondet_int() ? 1 : 0;
  for (unsigned i = 0; i < 16; i++) { vp_r[i] = nondet_uchar(); __CPROVER_assume(vp_r[i] <= 20); }
  size_t len = nondet_size_t(); __CPROVER_assume(len <= CAP);
  for (unsigned i = 0; i < CAP; i++) { canary[i] = nondet_char(); buf[i] = canary[i]; }
  vp_call = 0;
#if FMT == 0
  int n = hwloc_bitmap_snprintf(full, CAP, &a);
  vp_call = 0;
  int m = hwloc_bitmap_snprintf(len ? buf : NULL, len, &a);
#elif FMT == 1
  int n = hwloc_bitmap_taskset_snprintf(full, CAP, &a);
  vp_call = 0;
  int m = hwloc_bitmap_taskset_snprintf(len ? buf : NULL, len, &a);
#else
  int n = hwloc_bitmap_list_snprintf(full, CAP, &a);
  vp_call = 0;
  int m = hwloc_bitmap_list_snprintf(len ? buf : NULL, len, &a);
#endif
  __CPROVER_assume(n < CAP);
  assert(n >= 0);
  assert(m == n);
  for (unsigned i = 0; i < CAP; i++) if (i >= len) assert(buf[i] == canary[i]);
  if (len) { size_t e = (size_t)n < len-1 ? (size_t)n : len-1; assert(buf[e] == 0); for (unsigned i = 0; i < CAP; i++) if (i < e) assert(buf[i] == full[i]); }
#ifdef WITNESS
  assert(!(len > 1 && len < (size_t)n && n > 30));
#endif
}
