#include "private/autogen/config.h"
#include "hwloc.h"
#include "private/private.h"
#include <assert.h>
/* include real implementation to access the struct */
#include "../../repo/hwloc/bitmap.c"

unsigned nondet_unsigned(void);
unsigned long nondet_ulong(void);
int nondet_int(void);

#ifndef NW
#define NW 3
#endif

static struct hwloc_bitmap_s *mk(void) {
  struct hwloc_bitmap_s *s = malloc(sizeof(*s));
  __CPROVER_assume(s != 0);
  unsigned cnt = nondet_unsigned();
  __CPROVER_assume(cnt >= 1 && cnt <= NW);
  unsigned alloc = nondet_unsigned();
  __CPROVER_assume(alloc >= cnt && alloc <= 8);
  s->ulongs = malloc(alloc * sizeof(unsigned long));
  __CPROVER_assume(s->ulongs != 0);
  for (unsigned i = 0; i < cnt; i++) s->ulongs[i] = nondet_ulong();
  s->ulongs_count = cnt;
  s->ulongs_allocated = alloc;
  s->infinite = nondet_int();
  __CPROVER_assume(s->infinite == 0 || s->infinite == 1);
  return s;
}

#define W (NW+1)
static unsigned long word(const struct hwloc_bitmap_s *s, unsigned i) {
  return i < s->ulongs_count ? s->ulongs[i] : (s->infinite ? ~0UL : 0UL);
}

void harness_or(void) {
  struct hwloc_bitmap_s *a = mk(), *b = mk(), *r;
  int alias = nondet_int();
  unsigned long wa[W], wb[W]; int ia = a->infinite, ib = b->infinite;
  for (unsigned i = 0; i < W; i++) { wa[i] = word(a,i); wb[i] = word(b,i); }
  if (alias == 1) r = a; else if (alias == 2) r = b; else r = mk();
  int err = hwloc_bitmap_or(r, a, b);
  if (err == 0) {
    for (unsigned i = 0; i < W; i++) assert(word(r,i) == (wa[i] | wb[i]));
    assert(r->infinite == (ia | ib));
    assert(r->ulongs_count >= 1 && r->ulongs_count <= r->ulongs_allocated);
  }
#ifdef WITNESS
  assert(0);
#endif
}

void harness_cmpfirst(void) {
  struct hwloc_bitmap_s *a = mk(), *b = mk();
  int r = hwloc_bitmap_compare_first(a, b);
  int fa = hwloc_bitmap_first(a), fb = hwloc_bitmap_first(b);
  /* spec: empty is higher than anything */
  int exp;
  if (fa == -1 && fb == -1) exp = 0;
  else if (fa == -1) exp = 1;
  else if (fb == -1) exp = -1;
  else exp = fa < fb ? -1 : fa > fb ? 1 : 0;
  assert((r < 0) == (exp < 0) && (r > 0) == (exp > 0));
}
