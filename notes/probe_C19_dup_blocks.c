#include "../../repo/hwloc/topology.c"

unsigned nondet_unsigned(void);
unsigned long nondet_ulong(void);
int nondet_int(void);

char *getenv(const char *n) { return 0; }
char *my_getenv(const char *n) { return 0; }
void hwloc_pci_discovery_prepare(struct hwloc_topology *t) {}
void hwloc_pci_discovery_exit(struct hwloc_topology *t) {}
void hwloc_pci_discovery_init(struct hwloc_topology *t) {}
char *hwloc_progname(struct hwloc_topology *t) { return 0; }

static hwloc_bitmap_t bm(unsigned long m) { hwloc_bitmap_t b = hwloc_bitmap_alloc(); hwloc_bitmap_from_ulong(b, m); return b; }

static struct hwloc_topology T;
static unsigned nlv[16]; static struct hwloc_obj **lv[16];
static struct hwloc_topology_discovery_support sd; 
static struct hwloc_topology_cpubind_support sc; static struct hwloc_topology_membind_support sm; static struct hwloc_topology_misc_support sx;

static void ins(struct hwloc_topology *t, int ty, unsigned idx, unsigned long m) {
    hwloc_obj_t o = hwloc_alloc_setup_object(t, ty, idx);
    o->cpuset = bm(m);
    if (ty == HWLOC_OBJ_NUMANODE) { o->nodeset = bm(1UL<<idx); o->attr->numanode.local_memory = 1024*(idx+1); }
    hwloc__insert_object_by_cpuset(t, NULL, o, NULL);
}

static size_t vp_tma_total; static unsigned vp_tma_calls;
static void *vp_tma_malloc(struct hwloc_tma *tma, size_t len) { void *p = malloc(len); __CPROVER_assume(p); vp_tma_total += (len + 7) & ~7UL; vp_tma_calls++; return p; }
void hwloc_components_init(void) {}
void hwloc_topology_components_init(struct hwloc_topology *t) {}
static int fake_discover(struct hwloc_backend *b, struct hwloc_disc_status *d) {
  struct hwloc_topology *t = b->topology;
  for (unsigned i = 0; i < 4; i++) ins(t, HWLOC_OBJ_PU, i, 1UL<<i);
  ins(t, HWLOC_OBJ_PACKAGE, 0, 0x3);
  ins(t, HWLOC_OBJ_PACKAGE, 1, 0xc);
  ins(t, HWLOC_OBJ_NUMANODE, 0, 0x3);
  ins(t, HWLOC_OBJ_NUMANODE, 1, 0xc);
  return 0;
}
void harness(void) {
  struct hwloc_topology *t = &T;
  memset(t, 0, sizeof(*t));
  t->nb_levels_allocated = 16; t->levels = lv; t->level_nbobjects = nlv;
  t->support.discovery=&sd; t->support.cpubind=&sc; t->support.membind=&sm; t->support.misc=&sx;
  hwloc__topology_filter_init(t);
  hwloc_topology_setup_defaults(t);
  t->state = HWLOC_TOPOLOGY_STATE_IS_LOADING;
  t->flags = 0;
  hwloc_obj_t root = t->levels[0][0];
  hwloc_alloc_root_sets(root);
  static struct hwloc_backend be; static struct hwloc_disc_component comp;
  comp.name = "symbolic"; be.component = &comp; be.topology = t; be.phases = HWLOC_DISC_PHASE_GLOBAL; be.discover = fake_discover;
  t->backends = &be; t->backend_phases = HWLOC_DISC_PHASE_GLOBAL;
  struct hwloc_disc_status ds; memset(&ds, 0, sizeof ds);
  int err = hwloc_discover(t, &ds);
  assert(err == 0);
  t->state = HWLOC_TOPOLOGY_STATE_IS_LOADED; { extern int vp_symbolic_phase; vp_symbolic_phase = 1; }
  { extern int vp_symbolic_phase; vp_symbolic_phase = 0; }
  /* symbolic name length on one object */
  hwloc_obj_t pu0 = t->levels[2][0];
  static char nm[10]; unsigned L = nondet_unsigned(); __CPROVER_assume(L <= 9);
  for (unsigned i = 0; i < 9; i++) nm[i] = i < L ? 'a' : 0; nm[9] = 0;
  pu0->name = nm;
  struct hwloc_tma tma; tma.malloc = vp_tma_malloc; tma.dontfree = 1; tma.data = 0;
  hwloc_topology_t new = 0;
  int r = hwloc__topology_dup(&new, t, &tma);
  assert(r == 0);
  assert(new->levels[2][0]->name != nm);
  assert(new->levels[2][0]->name[L] == 0);
  assert(vp_tma_total > 0);
#ifdef WITNESS
  assert(L != 9);
#endif
}
