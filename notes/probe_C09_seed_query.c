#include "../../repo/hwloc/topology.c"

unsigned nondet_unsigned(void);
unsigned long nondet_ulong(void);
int nondet_int(void);

char *getenv(const char *n) { return 0; }
char *my_getenv(const char *n) { return 0; }
void hwloc_pci_discovery_prepare(struct hwloc_topology *t) {}
void hwloc_pci_discovery_exit(struct hwloc_topology *t) {}
void hwloc_pci_discovery_init(struct hwloc_topology *t) {}
char *hwloc_progname(struct hwloc_topology *t) { return 0; }
void hwloc_internal_distances_invalidate_cached_objs(hwloc_topology_t t) {}
void hwloc_internal_memattrs_need_refresh(hwloc_topology_t t) {}
void hwloc_internal_cpukinds_restrict(hwloc_topology_t t) {}

static hwloc_bitmap_t bm(unsigned long m) { hwloc_bitmap_t b = hwloc_bitmap_alloc(); hwloc_bitmap_from_ulong(b, m); return b; }

static struct hwloc_topology T;
static unsigned nlv[16]; static struct hwloc_obj **lv[16];
static struct hwloc_topology_discovery_support sd; 
static struct hwloc_topology_cpubind_support sc; static struct hwloc_topology_membind_support sm; static struct hwloc_topology_misc_support sx;

static void ins(struct hwloc_topology *t, int ty, unsigned idx, unsigned long m) {
    hwloc_obj_t o = hwloc_alloc_setup_object(t, ty, idx);
    o->cpuset = bm(m);
    if (ty == HWLOC_OBJ_NUMANODE) { o->nodeset = bm(1UL<<idx); o->attr->numanode.local_memory = 1024*(idx+1); }
    hwloc__insert_object_by_cpuset(t, NULL, o, NULL);
}

static int fake_discover(struct hwloc_backend *b, struct hwloc_disc_status *d) {
  struct hwloc_topology *t = b->topology;
  for (unsigned i = 0; i < 4; i++) ins(t, HWLOC_OBJ_PU, i, 1UL<<i);
  ins(t, HWLOC_OBJ_PACKAGE, 0, 0x3);
  ins(t, HWLOC_OBJ_PACKAGE, 1, 0xc);
  ins(t, HWLOC_OBJ_NUMANODE, 0, 0x3);
  ins(t, HWLOC_OBJ_NUMANODE, 1, 0xc);
  return 0;
}
void harness(void) {
  struct hwloc_topology *t = &T;
  memset(t, 0, sizeof(*t));
  t->nb_levels_allocated = 16; t->levels = lv; t->level_nbobjects = nlv;
  t->support.discovery=&sd; t->support.cpubind=&sc; t->support.membind=&sm; t->support.misc=&sx;
  hwloc__topology_filter_init(t);
  hwloc_topology_setup_defaults(t);
  t->state = HWLOC_TOPOLOGY_STATE_IS_LOADING;
  t->flags = 0;
  hwloc_obj_t root = t->levels[0][0];
  hwloc_alloc_root_sets(root);
  static struct hwloc_backend be; static struct hwloc_disc_component comp;
  comp.name = "symbolic"; be.component = &comp; be.topology = t; be.phases = HWLOC_DISC_PHASE_GLOBAL; be.discover = fake_discover;
  t->backends = &be; t->backend_phases = HWLOC_DISC_PHASE_GLOBAL;
  struct hwloc_disc_status ds; memset(&ds, 0, sizeof ds);
  int err = hwloc_discover(t, &ds);
  assert(err == 0);
  t->state = HWLOC_TOPOLOGY_STATE_IS_LOADED; { extern int vp_symbolic_phase; vp_symbolic_phase = 1; }
  { extern int vp_symbolic_phase; vp_symbolic_phase = 1; }
  unsigned long q = nondet_ulong(); __CPROVER_assume(q < 32);
  hwloc_bitmap_t set = bm(q);
#if Q == 0
  hwloc_obj_t o = hwloc_get_obj_covering_cpuset(t, set);
  /* brute force: deepest object whose cpuset includes q */
  if (q == 0 || (q & ~0xfUL)) assert(o == NULL);
  else {
    assert(o != NULL);
    unsigned long w = hwloc_bitmap_to_ulong(o->cpuset);
    assert((q & ~w) == 0);
    for (unsigned d = 0; d < t->nb_levels; d++) for (unsigned k = 0; k < t->level_nbobjects[d]; k++) {
      hwloc_obj_t c = t->levels[d][k]; unsigned long cw = hwloc_bitmap_to_ulong(c->cpuset);
      if ((q & ~cw) == 0) assert(c->depth <= o->depth);
    }
  }
#else
  hwloc_obj_t objs[6]; int max = nondet_int(); __CPROVER_assume(max >= -1 && max <= 6);
  int r = hwloc_get_largest_objs_inside_cpuset(t, set, objs, max);
  if (q & ~0xfUL) assert(r == -1);
  else if (max <= 0) assert(r == 0);
  else { assert(r >= 0 && r <= max); unsigned long u = 0;
    for (int k = 0; k < r; k++) { unsigned long w = hwloc_bitmap_to_ulong(objs[k]->cpuset); assert(w && !(w & u) && !(w & ~q)); u |= w;
      if (objs[k]->parent) assert(hwloc_bitmap_to_ulong(objs[k]->parent->cpuset) & ~q); }
    if (max >= 4) assert(u == q); }
#endif
#ifdef WITNESS
  assert(0);
#endif
}
