#include <stdarg.h>
#include <stddef.h>
unsigned char vp_r[16]; unsigned vp_call;
int vsnprintf(char *buf, size_t size, const char *fmt, va_list ap) {
  unsigned k = vp_call++; __CPROVER_assert(k < 16, "too many pieces"); unsigned r = vp_r[k < 16 ? k : 0];
  for (unsigned j = 0; j < 20; j++) if (j < r && size > 0 && j < size - 1) buf[j] = (char)('A' + k);
  if (size > 0) buf[r < size - 1 ? r : size - 1] = 0;
  return (int) r;
}
