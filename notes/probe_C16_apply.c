#include "../../repo/hwloc/topology.c"
#include "hwloc/diff.h"

unsigned nondet_unsigned(void);
unsigned long nondet_ulong(void);
int nondet_int(void);

char *getenv(const char *n) { return 0; }
char *my_getenv(const char *n) { return 0; }
void hwloc_pci_discovery_prepare(struct hwloc_topology *t) {}
void hwloc_pci_discovery_exit(struct hwloc_topology *t) {}
void hwloc_pci_discovery_init(struct hwloc_topology *t) {}
char *hwloc_progname(struct hwloc_topology *t) { return 0; }
void hwloc_internal_distances_invalidate_cached_objs(hwloc_topology_t t) {}
void hwloc_internal_memattrs_need_refresh(hwloc_topology_t t) {}
void hwloc_internal_cpukinds_restrict(hwloc_topology_t t) {}

static hwloc_bitmap_t bm(unsigned long m) { hwloc_bitmap_t b = hwloc_bitmap_alloc(); hwloc_bitmap_from_ulong(b, m); return b; }

static struct hwloc_topology T;
static unsigned nlv[16]; static struct hwloc_obj **lv[16];
static struct hwloc_topology_discovery_support sd; 
static struct hwloc_topology_cpubind_support sc; static struct hwloc_topology_membind_support sm; static struct hwloc_topology_misc_support sx;

static void ins(struct hwloc_topology *t, int ty, unsigned idx, unsigned long m) {
    hwloc_obj_t o = hwloc_alloc_setup_object(t, ty, idx);
    o->cpuset = bm(m);
    if (ty == HWLOC_OBJ_NUMANODE) { o->nodeset = bm(1UL<<idx); o->attr->numanode.local_memory = 1024*(idx+1); }
    hwloc__insert_object_by_cpuset(t, NULL, o, NULL);
}

static int fake_discover(struct hwloc_backend *b, struct hwloc_disc_status *d) {
  struct hwloc_topology *t = b->topology;
  for (unsigned i = 0; i < 4; i++) ins(t, HWLOC_OBJ_PU, i, 1UL<<i);
  ins(t, HWLOC_OBJ_PACKAGE, 0, 0x3);
  ins(t, HWLOC_OBJ_PACKAGE, 1, 0xc);
  ins(t, HWLOC_OBJ_NUMANODE, 0, 0x3);
  ins(t, HWLOC_OBJ_NUMANODE, 1, 0xc);
  return 0;
}
void harness(void) {
  struct hwloc_topology *t = &T;
  memset(t, 0, sizeof(*t));
  t->nb_levels_allocated = 16; t->levels = lv; t->level_nbobjects = nlv;
  t->support.discovery=&sd; t->support.cpubind=&sc; t->support.membind=&sm; t->support.misc=&sx;
  hwloc__topology_filter_init(t);
  hwloc_topology_setup_defaults(t);
  t->state = HWLOC_TOPOLOGY_STATE_IS_LOADING;
  t->flags = 0;
  hwloc_obj_t root = t->levels[0][0];
  hwloc_alloc_root_sets(root);
  static struct hwloc_backend be; static struct hwloc_disc_component comp;
  comp.name = "symbolic"; be.component = &comp; be.topology = t; be.phases = HWLOC_DISC_PHASE_GLOBAL; be.discover = fake_discover;
  t->backends = &be; t->backend_phases = HWLOC_DISC_PHASE_GLOBAL;
  struct hwloc_disc_status ds; memset(&ds, 0, sizeof ds);
  int err = hwloc_discover(t, &ds);
  assert(err == 0);
  t->state = HWLOC_TOPOLOGY_STATE_IS_LOADED; { extern int vp_symbolic_phase; vp_symbolic_phase = 1; }
  hwloc_obj_t pu0 = t->levels[2][0];
  { extern int vp_symbolic_phase; vp_symbolic_phase = 0; } hwloc__add_info(&pu0->infos, "k", "a");
  { extern int vp_symbolic_phase; vp_symbolic_phase = 1; }
  static const char *pool[3] = {"a","b","c"};
  static union hwloc_topology_diff_u d[3];
  for (unsigned i = 0; i < 3; i++) {
    d[i].obj_attr.type = HWLOC_TOPOLOGY_DIFF_OBJ_ATTR;
    d[i].obj_attr.next = i < 2 ? &d[i+1] : NULL;
    d[i].obj_attr.obj_depth = nondet_int() ? 2 : 9;
    d[i].obj_attr.obj_index = nondet_int() ? 0 : 7;
    d[i].obj_attr.diff.string.type = HWLOC_TOPOLOGY_DIFF_OBJ_ATTR_INFO;
    d[i].obj_attr.diff.string.name = (char*)"k";
    unsigned a = nondet_unsigned(), b = nondet_unsigned(); __CPROVER_assume(a < 3 && b < 3);
    d[i].obj_attr.diff.string.oldvalue = (char*)pool[a];
    d[i].obj_attr.diff.string.newvalue = (char*)pool[b];
  }
  int r = hwloc_topology_diff_apply(t, d, 0);
  assert(r == 0 || (r <= -1 && r >= -3));
  if (r < 0) assert(pu0->infos.array[0].value[0] == 'a');
#ifdef WITNESS
  assert(r != -3);
#endif
}
