#include "private/autogen/config.h"
#include "hwloc.h"
#include "private/private.h"
#include <assert.h>
char nondet_char(void);
#ifndef L
#define L 6
#endif
void harness(void) {
  char *s = malloc(L+1); __CPROVER_assume(s);
  for (unsigned i = 0; i < L; i++) s[i] = nondet_char();
  s[L] = 0;
  hwloc_obj_type_t t = (hwloc_obj_type_t) -1; union hwloc_obj_attr_u a;
  int r = hwloc_type_sscanf(s, &t, &a, sizeof a);
  if (r == 0) { assert((unsigned) t < HWLOC_OBJ_TYPE_MAX);
    if (hwloc__obj_type_is_cache(t)) assert(a.cache.depth >= 1 && a.cache.depth <= 5); }
#ifdef WITNESS
  assert(r != 0 || t != HWLOC_OBJ_L2ICACHE);
#endif
}
