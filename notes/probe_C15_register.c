#include "../../repo/hwloc/cpukinds.c"
unsigned nondet_unsigned(void); unsigned long nondet_ulong(void); int nondet_int(void);
char *getenv(const char *n) { return 0; }
int hwloc__add_info(struct hwloc_infos_s *infos, const char *name, const char *value) { return 0; }
void hwloc__free_infos(struct hwloc_infos_s *infos) { }
#ifndef NK
#define NK 3
#endif
#define UNIV 0x3fUL
static hwloc_bitmap_t bm(unsigned long m) { hwloc_bitmap_t b = hwloc_bitmap_alloc(); __CPROVER_assume(b); hwloc_bitmap_from_ulong(b, m); return b; }
static struct hwloc_topology T;
void harness(void) {
  struct hwloc_topology *t = &T;
  unsigned n = nondet_unsigned(); __CPROVER_assume(n <= NK);
  unsigned alloc = 16;
  unsigned long old[NK]; unsigned long uni = 0;
  static struct hwloc_internal_cpukind_s KK[16]; t->cpukinds = KK;
  for (unsigned i = 0; i < n; i++) { unsigned long m = nondet_ulong(); __CPROVER_assume(m && !(m & ~UNIV) && !(m & uni)); uni |= m; old[i] = m;
    t->cpukinds[i].cpuset = bm(m); t->cpukinds[i].forced_efficiency = nondet_int(); t->cpukinds[i].efficiency = -1; }
  t->nr_cpukinds = n; t->nr_cpukinds_allocated = alloc;
  unsigned long m = nondet_ulong(); __CPROVER_assume(!(m & ~UNIV));
  hwloc_bitmap_t set = bm(m);
  int r = hwloc_internal_cpukinds_register(t, set, nondet_int(), NULL, 0);
  if (m == 0) assert(r == -1);
  else {
    assert(r == 0);
    assert(t->nr_cpukinds <= t->nr_cpukinds_allocated);
    unsigned long u2 = 0;
    for (unsigned i = 0; i < t->nr_cpukinds; i++) { unsigned long w = hwloc_bitmap_to_ulong(t->cpukinds[i].cpuset);
      assert(w != 0); assert(!(w & u2)); u2 |= w;
      /* each new kind is either inside or outside m, and inside exactly one old kind or none */
      assert((w & m) == w || (w & m) == 0);
    }
    assert(u2 == (uni | m));
  }
#ifdef WITNESS
  assert(t->nr_cpukinds != 2*NK+1);
#endif
}
