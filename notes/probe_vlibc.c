/* minimal libc environment model for CBMC harnesses (probe version) */
#include <stdarg.h>
#include <stddef.h>
#include <string.h>
#include <limits.h>
#include <errno.h>

static void put(char *buf, size_t size, size_t *pos, char c) {
  if (buf && *pos + 1 < size) buf[*pos] = c;
  (*pos)++;
}
static void put_unsigned(char *buf, size_t size, size_t *pos, unsigned long long v, unsigned base, int width, int zero, int upper) {
  /* fixed-trip-count digit emission: no data-dependent loop exits */
  if (base == 16) {
    int nd = 1;
    for (int k = 1; k < 16; k++) if (v >> (4*k)) nd = k+1;
    for (int k = 15; k >= 0; k--) {
      if (k < nd) { unsigned d = (v >> (4*k)) & 15; put(buf, size, pos, d < 10 ? '0'+d : (upper?'A':'a')+d-10); }
      else if (k < width) put(buf, size, pos, zero ? '0' : ' ');
    }
  } else {
    /* decimal: digits by repeated comparison with powers of ten, most significant first */
    static const unsigned long long p10[20] = {1ULL,10ULL,100ULL,1000ULL,10000ULL,100000ULL,1000000ULL,10000000ULL,100000000ULL,1000000000ULL,
      10000000000ULL,100000000000ULL,1000000000000ULL,10000000000000ULL,100000000000000ULL,1000000000000000ULL,10000000000000000ULL,100000000000000000ULL,1000000000000000000ULL,10000000000000000000ULL};
    int nd = 1;
    for (int k = 1; k < 20; k++) if (v >= p10[k]) nd = k+1;
    for (int k = 19; k >= 0; k--) {
      if (k < nd) { unsigned d = 0; for (int j = 0; j < 9; j++) if (v >= p10[k]) { v -= p10[k]; d++; } put(buf, size, pos, '0'+d); }
      else if (k < width) put(buf, size, pos, zero ? '0' : ' ');
    }
  }
}
int vsnprintf(char *buf, size_t size, const char *fmt, va_list ap) {
  size_t pos = 0;
  for (; *fmt; fmt++) {
    if (*fmt != '%') { put(buf, size, &pos, *fmt); continue; }
    fmt++;
    int zero = 0, width = 0, lng = 0;
    if (*fmt == '0') { zero = 1; fmt++; }
    while (*fmt >= '0' && *fmt <= '9') { width = width*10 + (*fmt - '0'); fmt++; }
    while (*fmt == 'l') { lng++; fmt++; }
    switch (*fmt) {
    case '%': put(buf, size, &pos, '%'); break;
    case 'c': put(buf, size, &pos, (char)va_arg(ap, int)); break;
    case 's': { const char *s = va_arg(ap, const char *); if (!s) s = "(null)"; while (*s) put(buf, size, &pos, *s++); break; }
    case 'd': { long long v = lng >= 2 ? va_arg(ap, long long) : lng ? va_arg(ap, long) : va_arg(ap, int);
                if (v < 0) { put(buf, size, &pos, '-'); put_unsigned(buf, size, &pos, -(unsigned long long)v, 10, width ? width-1 : 0, zero, 0); }
                else put_unsigned(buf, size, &pos, v, 10, width, zero, 0); break; }
    case 'u': { unsigned long long v = lng >= 2 ? va_arg(ap, unsigned long long) : lng ? va_arg(ap, unsigned long) : va_arg(ap, unsigned);
                put_unsigned(buf, size, &pos, v, 10, width, zero, 0); break; }
    case 'x': { unsigned long long v = lng >= 2 ? va_arg(ap, unsigned long long) : lng ? va_arg(ap, unsigned long) : va_arg(ap, unsigned);
                put_unsigned(buf, size, &pos, v, 16, width, zero, 0); break; }
    default: __CPROVER_assert(0, "vsnprintf model: unsupported conversion"); 
    }
  }
  if (buf && size > 0) buf[pos < size ? pos : size - 1] = '\0';
  return (int)pos;
}
int snprintf(char *buf, size_t size, const char *fmt, ...) { va_list ap; va_start(ap, fmt); int r = vsnprintf(buf, size, fmt, ap); va_end(ap); return r; }

static int digitval(int c) { if (c >= '0' && c <= '9') return c - '0'; if (c >= 'a' && c <= 'z') return c - 'a' + 10; if (c >= 'A' && c <= 'Z') return c - 'A' + 10; return 99; }
unsigned long long strtoull(const char *nptr, char **endptr, int base) {
  const char *s = nptr; int neg = 0, any = 0; unsigned long long acc = 0; int ovf = 0;
  while (*s == ' ' || (*s >= '\t' && *s <= '\r')) s++;
  if (*s == '-') { neg = 1; s++; } else if (*s == '+') s++;
  if ((base == 0 || base == 16) && s[0] == '0' && (s[1] == 'x' || s[1] == 'X') && digitval(s[2]) < 16) { s += 2; base = 16; }
  else if (base == 0) base = s[0] == '0' ? 8 : 10;
  for (;; s++) { int d = digitval(*s); if (d >= base) break; any = 1;
    if (acc > (ULLONG_MAX - d) / base) ovf = 1; else acc = acc * base + d; }
  if (endptr) *endptr = (char *)(any ? s : nptr);
  if (ovf) { errno = ERANGE; return ULLONG_MAX; }
  return neg ? -acc : acc;
}
unsigned long strtoul(const char *nptr, char **endptr, int base) { return (unsigned long) strtoull(nptr, endptr, base); }
size_t strspn(const char *s, const char *accept) {
  size_t n = 0;
  for (;; n++) { char c = s[n]; if (!c) return n; int ok = 0; for (const char *a = accept; *a; a++) if (*a == c) ok = 1; if (!ok) return n; }
}
size_t strcspn(const char *s, const char *reject) {
  size_t n = 0;
  for (;; n++) { char c = s[n]; if (!c) return n; for (const char *a = reject; *a; a++) if (*a == c) return n; }
}
long strtol(const char *nptr, char **endptr, int base) { return (long) strtoull(nptr, endptr, base); }
int atoi(const char *s) { return (int) strtoull(s, 0, 10); }
int sprintf(char *buf, const char *fmt, ...) { va_list ap; va_start(ap, fmt); int r = vsnprintf(buf, 255, fmt, ap); va_end(ap); return r; }
