#include "../../repo/hwloc/topology.c"

unsigned nondet_unsigned(void);
unsigned long nondet_ulong(void);
int nondet_int(void);

char *getenv(const char *n) { return 0; }
char *my_getenv(const char *n) { return 0; }
void hwloc_pci_discovery_prepare(struct hwloc_topology *t) {}
void hwloc_pci_discovery_exit(struct hwloc_topology *t) {}
void hwloc_pci_discovery_init(struct hwloc_topology *t) {}
char *hwloc_progname(struct hwloc_topology *t) { return 0; }
void hwloc_internal_distances_invalidate_cached_objs(hwloc_topology_t t) {}
void hwloc_internal_memattrs_need_refresh(hwloc_topology_t t) {}
void hwloc_internal_cpukinds_restrict(hwloc_topology_t t) {}

static hwloc_bitmap_t bm(unsigned long m) { hwloc_bitmap_t b = hwloc_bitmap_alloc(); hwloc_bitmap_from_ulong(b, m); return b; }

static struct hwloc_topology T;
static unsigned nlv[16]; static struct hwloc_obj **lv[16];
static struct hwloc_topology_discovery_support sd; 
static struct hwloc_topology_cpubind_support sc; static struct hwloc_topology_membind_support sm; static struct hwloc_topology_misc_support sx;

static void ins(struct hwloc_topology *t, int ty, unsigned idx, unsigned long m) {
    hwloc_obj_t o = hwloc_alloc_setup_object(t, ty, idx);
    o->cpuset = bm(m);
    if (ty == HWLOC_OBJ_NUMANODE) { o->nodeset = bm(1UL<<idx); o->attr->numanode.local_memory = 1024*(idx+1); }
    hwloc__insert_object_by_cpuset(t, NULL, o, NULL);
}

static int fake_discover(struct hwloc_backend *b, struct hwloc_disc_status *d) {
  struct hwloc_topology *t = b->topology;
  for (unsigned i = 0; i < 4; i++) ins(t, HWLOC_OBJ_PU, i, 1UL<<i);
  ins(t, HWLOC_OBJ_PACKAGE, 0, 0x3);
  ins(t, HWLOC_OBJ_PACKAGE, 1, 0xc);
  ins(t, HWLOC_OBJ_NUMANODE, 0, 0x3);
  ins(t, HWLOC_OBJ_NUMANODE, 1, 0xc);
  return 0;
}
void harness(void) {
  struct hwloc_topology *t = &T;
  memset(t, 0, sizeof(*t));
  t->nb_levels_allocated = 16; t->levels = lv; t->level_nbobjects = nlv;
  t->support.discovery=&sd; t->support.cpubind=&sc; t->support.membind=&sm; t->support.misc=&sx;
  hwloc__topology_filter_init(t);
  hwloc_topology_setup_defaults(t);
  t->state = HWLOC_TOPOLOGY_STATE_IS_LOADING;
  t->flags = 0;
  hwloc_obj_t root = t->levels[0][0];
  hwloc_alloc_root_sets(root);
  static struct hwloc_backend be; static struct hwloc_disc_component comp;
  comp.name = "symbolic"; be.component = &comp; be.topology = t; be.phases = HWLOC_DISC_PHASE_GLOBAL; be.discover = fake_discover;
  t->backends = &be; t->backend_phases = HWLOC_DISC_PHASE_GLOBAL;
  struct hwloc_disc_status ds; memset(&ds, 0, sizeof ds);
  int err = hwloc_discover(t, &ds);
  assert(err == 0);
  t->state = HWLOC_TOPOLOGY_STATE_IS_LOADED; { extern int vp_symbolic_phase; vp_symbolic_phase = 1; }
  { extern int vp_symbolic_phase; vp_symbolic_phase = 1; }
  unsigned long d = nondet_ulong(); __CPROVER_assume(d < 4);   /* drop any subset of PU0,PU1 */
  unsigned long fl = nondet_ulong(); __CPROVER_assume(fl < 8);
  hwloc_bitmap_t dropped = bm(d);
  root = t->levels[0][0]; hwloc_obj_t pkg0 = root->first_child, pkg1 = pkg0->next_sibling;
  hwloc_obj_t pu0 = pkg0->first_child, pu1 = pu0->next_sibling, numa0 = pkg0->memory_first_child;
  restrict_object_by_cpuset(t, fl, &pkg0->first_child, dropped, NULL);
  if (d & 1) { assert(pkg0->first_child == pu1); assert(pu1->next_sibling == NULL); }
  else { assert(pkg0->first_child == pu0 && pu0->next_sibling == pu1); assert(hwloc_bitmap_to_ulong(pu0->cpuset) == 1); }
#ifdef WITNESS
  assert(!(d & 1));
#endif
}
