#include "../../repo/hwloc/topology.c"

unsigned nondet_unsigned(void);
unsigned long nondet_ulong(void);
int nondet_int(void);

char *getenv(const char *n) { return 0; }
char *my_getenv(const char *n) { return 0; }
void hwloc_pci_discovery_prepare(struct hwloc_topology *t) {}
void hwloc_pci_discovery_exit(struct hwloc_topology *t) {}
void hwloc_pci_discovery_init(struct hwloc_topology *t) {}
char *hwloc_progname(struct hwloc_topology *t) { return 0; }
void hwloc_internal_distances_invalidate_cached_objs(hwloc_topology_t t) {}
void hwloc_internal_memattrs_need_refresh(hwloc_topology_t t) {}
void hwloc_internal_cpukinds_restrict(hwloc_topology_t t) {}

static hwloc_bitmap_t bm(unsigned long m) { hwloc_bitmap_t b = hwloc_bitmap_alloc(); hwloc_bitmap_from_ulong(b, m); return b; }

static struct hwloc_topology T;
static unsigned nlv[16]; static struct hwloc_obj **lv[16];
static struct hwloc_topology_discovery_support sd; 
static struct hwloc_topology_cpubind_support sc; static struct hwloc_topology_membind_support sm; static struct hwloc_topology_misc_support sx;

static void ins(struct hwloc_topology *t, int ty, unsigned idx, unsigned long m) {
    hwloc_obj_t o = hwloc_alloc_setup_object(t, ty, idx);
    o->cpuset = bm(m);
    if (ty == HWLOC_OBJ_NUMANODE) { o->nodeset = bm(1UL<<idx); o->attr->numanode.local_memory = 1024*(idx+1); }
    hwloc__insert_object_by_cpuset(t, NULL, o, NULL);
}

void harness(void) {
  struct hwloc_topology *t = &T;
  memset(t, 0, sizeof(*t));
  t->nb_levels_allocated = 16; t->levels = lv; t->level_nbobjects = nlv;
  t->support.discovery=&sd; t->support.cpubind=&sc; t->support.membind=&sm; t->support.misc=&sx;
  hwloc__topology_filter_init(t);
  hwloc_topology_setup_defaults(t);
  t->state = HWLOC_TOPOLOGY_STATE_IS_LOADING;
  hwloc_obj_t root = t->levels[0][0];
  hwloc_alloc_root_sets(root);
  for (unsigned i = 0; i < 3; i++) ins(t, HWLOC_OBJ_PU, i, 1UL<<i);
  hwloc_obj_t pu0 = root->first_child, pu1 = pu0->next_sibling, pu2 = pu1->next_sibling;
  { extern int vp_symbolic_phase; vp_symbolic_phase = 1; }
  int ty = nondet_int(); __CPROVER_assume(ty == HWLOC_OBJ_PACKAGE || ty == HWLOC_OBJ_CORE || ty == HWLOC_OBJ_GROUP);
  unsigned long m = nondet_ulong(); __CPROVER_assume(m >= 1 && m <= 7);
  hwloc_obj_t o = hwloc_alloc_setup_object(t, ty, 0);
  o->cpuset = bm(m);
  hwloc_obj_t r = hwloc___insert_object_by_cpuset(t, root, o, NULL);
  /* invariant: root children pairwise disjoint, ordered by first bit, union == 7 */
  unsigned long u = 0; int prevfirst = -1; unsigned n = 0;
  for (hwloc_obj_t c = root->first_child; c && n < 5; c = c->next_sibling, n++) {
    unsigned long w = hwloc_bitmap_to_ulong(c->cpuset); assert(w && !(w & u)); u |= w;
    int f = hwloc_bitmap_first(c->cpuset); assert(f > prevfirst); prevfirst = f; assert(c->parent == root);
  }
  assert(n <= 3); assert(u == 7);
  if (r == o && m != 7 && (m & (m-1))) { /* strict container of >=2 PUs was inserted */
    unsigned long cu = 0; for (hwloc_obj_t c = o->first_child; c; c = c->next_sibling) { cu |= hwloc_bitmap_to_ulong(c->cpuset); assert(c->parent == o); }
    assert(cu == m); }
#ifdef WITNESS
  assert(!(r == o && m == 5));
#endif
}
