#include <stddef.h>
#include <stdlib.h>
#include <string.h>
int vp_symbolic_phase = 0;
void *realloc(void *p, size_t n) {
  if (vp_symbolic_phase) { __CPROVER_assert(0, "realloc reached in symbolic phase: growth path outside harness bound"); __CPROVER_assume(0); return 0; }
  void *q = malloc(n); __CPROVER_assume(q != 0);
  if (p) { size_t o = __CPROVER_OBJECT_SIZE(p); memcpy(q, p, o < n ? o : n); free(p); }
  return q;
}
