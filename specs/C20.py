"""C20 — hwloc-calc location evaluator vs set algebra (DESIGN §5 C20)."""
import os, sys
sys.path.insert(0, os.path.dirname(__file__))
from _seed import seed_uw
SRC = "C20_calc.c"
COMMON = dict(src=SRC, env=["vp_alloc.c", "vp_libc.c"], units=["hwloc/bitmap.c", "hwloc/traversal.c", "hwloc/topology.c"], unwind=8, checks="safety", object_bits=13, timeout=1700,
              unwindset=dict({"vp_mini_build_at.%d" % k: 24 for k in range(12)}, **{"strlen.0": 24, "strcpy.0": 24, "level_table.0": 6, "one.0": 12, "one.1": 12, "one.2": 12, "one.3": 12, "one.4": 12, "one.5": 12, "one.6": 12, "one.7": 12, "one.8": 12, "strcmp.0": 8, "strncmp.0": 8, "strcasecmp.0": 8, "hwloc__type_match.0": 24, "strchr.0": 34, "strcspn.0": 34, "strcspn.1": 6, "vp_strto.0": 4, "vp_strto.1": 8, "strncasecmp.0": 8, "vsnprintf.0": 34}),
              stubs=["hwloc_bitmap_asprintf (diagnostics inside hwloc_calc_append_set): empty", "fprintf/printf diagnostics: verbose = -1", "topology: the hand-linked 9-object topology of vp_mini.h (accepted by hwloc_topology_check natively)", "strtol/strcspn/snprintf: env/vp_libc.c models"],
              assumptions=["allocation never fails", "topology: Machine, 2 Packages, PUs with os_index 0,1,2,5, one NUMA node per package"])
EVAL = ["hwloc_calc_process_location_as_set", "hwloc_calc_process_location", "hwloc_calc_append_object_range", "hwloc_calc_parse_range", "hwloc_calc_parse_level", "hwloc_calc_parse_level_size", "hwloc_calc_get_nbobjs_inside_sets_by_depth", "hwloc_calc_get_obj_inside_sets_by_depth", "hwloc_calc_append_set", "hwloc_calc_process_location_set_cb", "hwloc_type_sscanf"]
TN = ["pu", "pack", "numa"]
TP = ["index", "range", "openrange", "wraprange", "keyword", "nested_pu", "nested_numa", "all_root"]
HARNESSES = [dict(COMMON, name="range_bytes", entry="h_range", encoded=["hwloc_calc_parse_range"], checks="safety+", tiers={"quick": {"defines": {"L": 4}}, "thorough": {"defines": {"L": 6}}}, unwind=10,
                  unwindset={"strchr.0": 10, "strlen.0": 10, "strncmp.0": 6, "vp_strto.0": 8, "vp_strto.1": 8}, units=[], bounds="every NUL-terminated string of L arbitrary bytes (4 quick, 6 thorough)")]
QUICK = {(0, 0, 0), (0, 1, 0), (0, 2, 0), (0, 3, 0), (0, 4, 0), (1, 0, 1), (2, 4, 1), (2, 2, 0)}
for ty in range(3):
    for tp in range(5):
        for op in (0, 1):
            tiers = {"thorough": {}}
            if (ty, tp, op) in QUICK: tiers["quick"] = {"defines": {"DN": 4, "DVALS": "{0,1,3,5}"}, "bounds_note": "digits from {0,1,3,5}"} if tp in (1, 3) else {}
            HARNESSES.append(dict(COMMON, name="loc_%s_%s%s" % (TN[ty], TP[tp], "_op" if op else ""), entry="h_location", defines={"TYPE": ty, "TPL": tp, "OPP": op}, encoded=EVAL, tiers=tiers,
                                  bounds="location '%s%s:<%s>' with digits 0..5 (quick tier: {0,1,3,5} for two-digit templates) / keyword chosen symbolically among concretely built texts, logical or physical indexing symbolic, arbitrary previous accumulator sets" % ("<~|x|^>" if op else "", TN[ty], TP[tp]), cost=30))
for tp in (5, 6, 7):
    for op in (0, 1):
        tiers = {"thorough": {}}
        if op == 0 or tp in (6, 7): tiers["quick"] = {"defines": {"DN": 4, "DVALS": "{0,1,3,5}"}} if tp == 5 else {}
        HARNESSES.append(dict(COMMON, name="loc_%s%s" % (TP[tp], "_op" if op else ""), entry="h_location", defines={"TYPE": 0, "TPL": tp, "OPP": op}, encoded=EVAL, tiers=tiers,
                              bounds="location template %s with symbolic digits, logical/physical symbolic, arbitrary accumulators" % TP[tp], cost=30))
# the nested NUMA template once more on seed S2 (real core; a CPU-less NUMA node outside package 0)
import sys as _sys
_sys.path.insert(0, os.path.dirname(__file__))
from _seed import seed_uw as _seed_uw
HARNESSES.append(dict(COMMON, name="loc_nested_numa_s2", entry="h_location", defines={"TYPE": 0, "TPL": 6, "OPP": 0, "FIX_S2": 1}, units=["hwloc/bitmap.c", "hwloc/traversal.c"], unwind=14,
                      unwindset=_seed_uw(**dict(COMMON["unwindset"])), encoded=EVAL, tiers={"quick": {}, "thorough": {}},
                      bounds="location pack:<d>.numa:all on seed S2 (packages {0,1,2} and {5}, NUMA#0 inside package 0, a CPU-less NUMA#2 attached to the machine), digits 0..5, logical/physical symbolic, arbitrary accumulators", cost=60))
HARNESSES.append(dict(COMMON, name="loc_nested_numa_s10", entry="h_location", defines={"TYPE": 0, "TPL": 6, "OPP": 0, "FIX_SEED": 10}, units=["hwloc/bitmap.c", "hwloc/traversal.c"], unwind=14,
                      unwindset=_seed_uw(**dict(COMMON["unwindset"])), encoded=EVAL, tiers={"quick": {}, "thorough": {}},
                      bounds="location pack:<d>.numa:all on seed S10 (one NUMA node attached to the machine: it intersects every package and is inside none), digits 0..5, logical/physical symbolic, arbitrary accumulators", cost=60))
OUT_UW = dict(COMMON["unwindset"], **{"h_number_intersect.%d" % k: 98 for k in range(8)}); OUT_UW.update({"largest_case.0": 98, "h_largest.0": 17, "h_largest.1": 17, "h_largest.2": 17, "strlen.0": 40, "strcpy.0": 40, "vsnprintf.0": 40, "strchr.0": 40, "strcspn.0": 40, "strcspn.1": 12, "strspn.0": 40, "strspn.1": 12})
OUTF = ["hwloc_calc_output", "hwloc_calc_get_next_obj_covering_set_by_depth", "hwloc_calc_intersects_set", "hwloc_calc_check_object_filtered", "hwloc_obj_type_snprintf", "hwloc_get_first_largest_obj_inside_cpuset"]
for ot, nm in ((0, "pu"), (1, "package"), (2, "numa")):
    HARNESSES.append(dict(COMMON, src="C20_output.c", name="out_number_intersect_%s" % nm, entry="h_number_intersect", defines={"OTYPE": ot}, encoded=OUTF, unwind=12, unwindset=OUT_UW, tiers={"quick": {}, "thorough": {}}, cost=40,
                          stubs=COMMON["stubs"] + ["stdout: printf redirected to a capture buffer; main() of hwloc-calc.c renamed, its option variables set by the harness"],
                          bounds="hwloc_calc_output in -N and -I mode for the %s level: ANY cpuset over 8 bits and nodeset over 4 bits, logical or physical output indexes, with or without the type prefix: -N = number of indexes -I lists = objects of the level intersecting the set" % nm))
for k in range(5):
    HARNESSES.append(dict(COMMON, src="C20_output.c", name="out_largest_%d" % k, entry="h_largest", defines={"NSLICE": 5, "SLICE": k}, encoded=OUTF + EVAL, unwind=12, unwindset=OUT_UW, tiers={"quick": {}, "thorough": {}}, cost=60,
                          stubs=COMMON["stubs"] + ["stdout: printf redirected to a capture buffer"],
                          bounds="hwloc_calc_output in --largest mode for every non-empty subset of the PUs {0,1,2,5}, logical and physical output: the printed objects are accepted by the location evaluator, pairwise disjoint, and their union is the set (concrete runs selected by symbolic inputs, slice %d of 5)" % k))
# hwloc-diff | hwloc-patch are thin wrappers around diff_build / diff_apply: the library-side harnesses that decide "the diff reproduces the
# second topology" (incl. what must be reported as too complex) are shared with C16 (same source, same queries)
import importlib.util as _iu
_s16 = _iu.spec_from_file_location("spec_C16", os.path.join(os.path.dirname(__file__), "C16.py")); _m16 = _iu.module_from_spec(_s16); _s16.loader.exec_module(_m16)
for _h in _m16.HARNESSES:
    if _h["name"] in ("build_distances", "build_e1", "build_e8", "apply_s1"): _h2 = dict(_h); _h2["name"] = "C16_" + _h["name"]; HARNESSES.append(_h2)
OUTSIDE = ["process-level behaviour of the tools: exit statuses, option parsing in main(), -H, --single and the set formats of the default output mode", "lstopo exports = library exports, hwloc-diff | hwloc-patch pipeline (library side: C16)", "hwloc-distrib (arithmetic: C09 distrib)",
           "I/O, Misc and filter ([...]) locations, raw cpuset strings (C04 parsers)"]
