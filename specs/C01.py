"""C01 — a loaded topology is well formed: configuration invariant, insertion step, set propagation, seeds through the real pipeline (DESIGN §5 C01)."""
import os, sys
sys.path.insert(0, os.path.dirname(__file__))
from _seed import seed_uw
SRC = "C01_wellformed.c"
COMMON = dict(src=SRC, env=["vp_alloc.c", "vp_libc.c"], units=["hwloc/bitmap.c", "hwloc/traversal.c"], unwind=14, checks="safety", object_bits=11, timeout=1700,
              unwindset=seed_uw(**{"strcmp.0": 2, "filter_inv.0": 24, "h_config.0": 24, "h_config.1": 24, "h_config.2": 24, "h_config.3": 24, "hwloc_topology_set_all_types_filter.0": 24, "hwloc_topology_set_cache_types_filter.0": 12}),
              stubs=["seed environment stubs of vp_seed.h"], assumptions=["allocation never fails", "1-word sets"])
HARNESSES = [
  dict(COMMON, name="config", entry="h_config", encoded=["hwloc_topology_set_type_filter", "hwloc__topology_set_type_filter", "hwloc_topology_set_all_types_filter", "hwloc_topology_set_cache_types_filter", "hwloc_topology_set_icache_types_filter", "hwloc_topology_set_io_types_filter", "hwloc_topology_set_flags"],
       tiers={"quick": {}, "thorough": {}}, bounds="ANY filter table satisfying the invariant; any setter with any type (int), filter (0..3) and 64-bit flag word; init or loaded state"),
  dict(COMMON, name="insert_flat", entry="h_insert", encoded=["hwloc__insert_object_by_cpuset", "hwloc___insert_object_by_cpuset", "hwloc_obj_cmp_sets", "hwloc_type_cmp", "hwloc__insert_try_merge_group", "merge_insert_equal", "hwloc__object_cpusets_compare_first"],
       remove_bodies=["hwloc_free_unlinked_object"], goto_instrument=[["--generate-function-body", "hwloc_free_unlinked_object"]],
       tiers={"quick": {}, "thorough": {}}, bounds="Machine with 3 PU children (pre-connect); new object of type Package/Core/Group(dont_merge symbolic)/L2 with any cpuset over 4 bits", cost=60),
]
for seed in (1, 2):
    HARNESSES.append(dict(COMMON, name="sets_s%d" % seed, entry="h_sets", defines={"SEED": seed}, encoded=["propagate_nodeset", "fixup_sets", "remove_unused_sets"], tiers={"quick": {}, "thorough": {}} if seed == 1 else {"thorough": {}},
                          bounds="seed S%d tree shape; the CONTENTS of all four sets of every object, the allowed sets and INCLUDE_DISALLOWED symbolic (assuming only what insertion guarantees)" % seed, cost=80))
for seed in (1, 2, 3, 4):
    HARNESSES.append(dict(COMMON, name="seed_wf_s%d" % seed, entry="h_seed_wf", defines={"SEED": seed}, encoded=["hwloc_discover", "hwloc__insert_object_by_cpuset", "hwloc_insert_object_by_parent", "propagate_nodeset", "fixup_sets", "remove_unused_sets", "hwloc__reconnect", "hwloc_connect_children", "hwloc_connect_levels", "hwloc_connect_special_levels", "hwloc_filter_levels_keep_structure", "propagate_total_memory", "hwloc_propagate_symmetric_subtree"],
                          tiers={"quick": {}, "thorough": {}}, bounds="seed S%d through the complete real discovery pipeline (concrete), every C01 clause re-checked by an independent checker" % seed, cost=30))
OUTSIDE = ["hwloc_topology_load from symbolic sources (XML, synthetic strings, sysfs, cpuid): front ends are C06/C07/C18", "hwloc_connect_children/levels on symbolic shapes", "the full filter x flag product on real inputs", "level merging decisions on symbolic shapes"]
