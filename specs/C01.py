"""C01 — a loaded topology is well formed: configuration invariant, insertion step, set propagation, seeds through the real pipeline (DESIGN §5 C01)."""
import os, sys
sys.path.insert(0, os.path.dirname(__file__))
from _seed import seed_uw
SRC = "C01_wellformed.c"
COMMON = dict(src=SRC, env=["vp_alloc.c", "vp_libc.c"], units=["hwloc/bitmap.c", "hwloc/traversal.c"], unwind=14, checks="safety", object_bits=11, timeout=1700,
              unwindset=seed_uw(**{"strcmp.0": 2, "filter_inv.0": 24, "h_config.0": 24, "h_config.1": 24, "h_config.2": 24, "h_config.3": 24, "hwloc_topology_set_all_types_filter.0": 24, "hwloc_topology_set_cache_types_filter.0": 12}),
              stubs=["seed environment stubs of vp_seed.h"], assumptions=["allocation never fails", "1-word sets"])
HARNESSES = [
  dict(COMMON, name="config", entry="h_config", encoded=["hwloc_topology_set_type_filter", "hwloc__topology_set_type_filter", "hwloc_topology_set_all_types_filter", "hwloc_topology_set_cache_types_filter", "hwloc_topology_set_icache_types_filter", "hwloc_topology_set_io_types_filter", "hwloc_topology_set_flags"],
       tiers={"quick": {}, "thorough": {}}, bounds="ANY filter table satisfying the invariant; any setter with any type (int), filter (0..3) and 64-bit flag word; init or loaded state"),
  dict(COMMON, name="insert_flat", entry="h_insert", encoded=["hwloc__insert_object_by_cpuset", "hwloc___insert_object_by_cpuset", "hwloc_obj_cmp_sets", "hwloc_type_cmp", "hwloc__insert_try_merge_group", "merge_insert_equal", "hwloc__object_cpusets_compare_first"],
       tiers={"quick": {"defines": {"NTYPES": 2}}, "thorough": {}}, object_bits=13, unwindset=seed_uw(**{"h_insert.0": 4, "h_insert.1": 17, "h_insert.2": 6, "insert_case.0": 18, "insert_case.1": 6, "insert_case.2": 8, "insert_case.3": 8}), bounds="Machine with 3 PU children (pre-connect); new object of type Group(dont_merge 0/1)/Package (quick) + Core/L2 (thorough) with any of the 15 cpusets over 4 bits: the 75 cases are executed as concrete runs selected by symbolic inputs", cost=60),
  dict(COMMON, name="insert_nested", entry="h_insert", encoded=["hwloc__insert_object_by_cpuset", "hwloc___insert_object_by_cpuset", "hwloc_obj_cmp_sets", "hwloc_type_cmp", "hwloc__insert_try_merge_group", "merge_insert_equal", "hwloc__object_cpusets_compare_first"],
       defines={"PRE": 1}, tiers={"quick": {"defines": {"NTYPES": 2}}, "thorough": {}}, object_bits=13, unwindset=seed_uw(**{"h_insert.0": 4, "h_insert.1": 17, "h_insert.2": 6, "insert_case.0": 18, "insert_case.1": 6, "insert_case.2": 8, "insert_case.3": 8}), bounds="Machine with a Core{PU0,PU1} and PU2 (pre-connect); new object of type Group(dont_merge 0/1)/Package (quick) + Core/L2 (thorough) with any of the 15 cpusets over 4 bits: the 75 cases are executed as concrete runs selected by symbolic inputs", cost=60),
  dict(COMMON, name="insert_nested2", entry="h_insert", encoded=["hwloc__insert_object_by_cpuset", "hwloc___insert_object_by_cpuset", "hwloc_obj_cmp_sets", "hwloc_type_cmp", "hwloc__insert_try_merge_group", "merge_insert_equal", "hwloc__object_cpusets_compare_first"],
       defines={"PRE": 2}, tiers={"quick": {"defines": {"NTYPES": 2}}, "thorough": {}}, object_bits=13, unwindset=seed_uw(**{"h_insert.0": 4, "h_insert.1": 17, "h_insert.2": 6, "insert_case.0": 18, "insert_case.1": 6, "insert_case.2": 8, "insert_case.3": 8}), bounds="Machine with PU0 and a Core{PU1,PU2} (pre-connect); new object of type Group(dont_merge 0/1)/Package (quick) + Core/L2 (thorough) with any of the 15 cpusets over 4 bits: the 75 cases are executed as concrete runs selected by symbolic inputs", cost=60),
  dict(COMMON, name="insert_nested3", entry="h_insert", encoded=["hwloc__insert_object_by_cpuset", "hwloc___insert_object_by_cpuset (incl. the put-back of a refused insertion with holes)", "hwloc_obj_cmp_sets", "hwloc__insert_try_merge_group"],
       defines={"PRE": 3, "NTYPES": 1}, tiers={"quick": {}, "thorough": {}}, object_bits=13, unwindset=seed_uw(**{"h_insert.0": 4, "h_insert.1": 33, "h_insert.2": 6, "insert_case.0": 18, "insert_case.1": 8, "insert_case.2": 10, "insert_case.3": 10, "insert_case.4": 10, "insert_case.5": 10, "insert_case.6": 10, "insert_case.7": 10, "insert_case.8": 10}), bounds="Machine with PU0, PU1, PU2 and a Core{PU3,PU4} (pre-connect); a new Group (dont_merge 0/1) with any of the 31 cpusets over 5 bits: 62 concrete runs selected by symbolic inputs; refused insertions that already took non-adjacent children (PU0 and PU2, not PU1) must put them back in place", cost=60),
]
for seed in (1, 2, 5):
    HARNESSES.append(dict(COMMON, name="sets_s%d" % seed, entry="h_sets", defines={"SEED": seed}, encoded=["propagate_nodeset", "fixup_sets", "remove_unused_sets"], tiers={"quick": {}, "thorough": {}} if seed in (1, 5) else {"thorough": {}},
                          bounds="seed S%d tree shape; the CONTENTS of all four sets of every object, the allowed sets and INCLUDE_DISALLOWED symbolic (assuming only what insertion guarantees)" % seed, cost=80))
for seed in (1, 2, 3, 4, 5, 6, 7, 8, 14):
    HARNESSES.append(dict(COMMON, name="seed_wf_s%d" % seed, entry="h_seed_wf", defines={"SEED": seed}, encoded=["hwloc_discover", "hwloc__insert_object_by_cpuset", "hwloc_insert_object_by_parent", "propagate_nodeset", "fixup_sets", "remove_unused_sets", "hwloc__reconnect", "hwloc_connect_children", "hwloc_connect_levels", "hwloc_connect_special_levels", "hwloc_filter_levels_keep_structure", "propagate_total_memory", "hwloc_propagate_symmetric_subtree"],
                          tiers={"quick": {}, "thorough": {}}, bounds="seed S%d through the complete real discovery pipeline (concrete), every C01 clause re-checked by an independent checker" % seed, cost=30))
# sibling-list surgery (used when levels are merged) is shared with C02
import importlib.util as _iu
_s = _iu.spec_from_file_location("spec_C02", os.path.join(os.path.dirname(__file__), "C02.py"))
if not globals().get("_C01_LOADING"):
    import builtins
    if not getattr(builtins, "_vp_c01_loading", False):
        builtins._vp_c01_loading = True
        try:
            _m = _iu.module_from_spec(_s); _s.loader.exec_module(_m)
            for _h in _m.HARNESSES:
                if _h["name"].startswith("siblings_"): _h2 = dict(_h); _h2["name"] = "C02_" + _h["name"]; HARNESSES.append(_h2)
        finally:
            builtins._vp_c01_loading = False
OUTSIDE = ["hwloc_topology_load from symbolic sources (XML, synthetic strings, sysfs, cpuid): front ends are C06/C07/C18", "hwloc_connect_children/levels on symbolic shapes", "the full filter x flag product on real inputs", "level merging decisions on symbolic shapes"]
