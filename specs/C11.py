"""C11 — type strings parse back; snprintf length contract; compare_types algebra (DESIGN §5 C11)."""
SRC = "C11_types.c"
COMMON = dict(src=SRC, env=["vp_alloc.c", "vp_libc.c"], units=["hwloc/misc.c"], checks="safety", object_bits=12, timeout=1500,
              stubs=["vsnprintf/strtol: env/vp_libc.c models (differentially tested against glibc each run)", "realloc unreachable"],
              assumptions=["allocation never fails"])
HARNESSES = []
def add(name, entry, encoded, tiers, **kw):
    h = dict(COMMON); h.update(name=name, entry=entry, encoded=encoded, tiers=tiers); h.update(kw); HARNESSES.append(h)
SS = ["hwloc_type_sscanf", "hwloc__type_match", "hwloc__osdev_type_sscanf", "hwloc__osdev_types_sscanf", "hwloc_strncasecmp", "strtol (model)"]
PR = ["hwloc_obj_type_snprintf", "hwloc__osdev_type_snprintf_normal", "hwloc__osdev_type_snprintf_short", "hwloc_obj_type_string", "hwloc_obj_cache_type_letter", "hwloc_snprintf", "vsnprintf (model)"]
def sst(l): return {"defines": {"L": l}, "unwind": l + 3, "unwindset": {"vp_strto.0": l + 2, "vp_strto.1": l + 2}, "bounds": "every NUL-terminated string of %d arbitrary bytes in an exactly sized heap object; attrp NULL or not; attrsize 0..sizeof" % l}
add("sscanf_safe", "h_sscanf_safe", SS, {"quick": sst(5), "thorough": sst(7)}, checks="safety+")
PU = {"unwind": 24, "unwindset": {"hwloc_snprintf.0": 2, "hwloc__type_match.0": 30, "strchr.0": 90, "vp_strto.0": 4, "vp_strto.1": 12}}
KN = ["plain", "cache", "group", "bridge", "osdev"]
TN = ["Machine", "Package", "Die", "Core", "PU", "L1Cache", "L2Cache", "L3Cache", "L4Cache", "L5Cache", "L1iCache", "L2iCache", "L3iCache", "Group", "NUMANode", "MemCache", "Bridge", "PCIDev", "OSDev", "Misc"]
QUICK_TYPES = (1, 6, 11, 13, 14, 16)
def rt(t, extra, bounds):
    # longest text of the type: plain/cache names <= 8 chars ("L3iCache", "NUMANode", "MemCache"), Group + 10 digits, "HostBridge", OS devices up to 62
    txt = 62 if t == 18 else 16 if t == 13 else 11
    d = {"TYPE": t, "BUFSZ": txt + 2}; d.update(extra)
    return {"defines": d, "unwind": 24, "unwindset": {"hwloc_snprintf.0": 2, "hwloc__type_match.0": txt + 3, "strchr.0": txt + 3, "vp_strto.0": 4, "vp_strto.1": 12, "strncasecmp.0": 8}, "bounds": bounds}
for t in range(20):
    if t == 18: continue
    tiers = {"thorough": rt(t, {"GROUPMAX": 4294967294}, "type %s with any group depth" % TN[t])}
    if t in QUICK_TYPES:
        tiers["quick"] = rt(t, {"GROUPMAX": 999}, "type %s (thorough tier: exhaustive split over all 20 types); attributes symbolic: cache type, group depth <= 999 or -1, bridge upstream type; every flag word without SHORT_NAMES" % TN[t])
    add("roundtrip_%02d_%s" % (t, TN[t]), "h_roundtrip", PR + SS, tiers, cost=5)
add("roundtrip_18_OSDev_3bits", "h_roundtrip", PR + SS, {"quick": rt(18, {"OSDEVMASK": "0x7UL", "BUFSZ": 40}, "OS devices with any subset of the first 3 type bits; every flag word without SHORT_NAMES"),
                                                         "thorough": rt(18, {"OSDEVMASK": "0x7UL", "BUFSZ": 40}, "as quick")}, cost=40)
add("roundtrip_18_OSDev_7bits", "h_roundtrip", PR + SS, {"thorough": rt(18, {}, "OS devices with any subset of the 7 type bits")}, core=False, cost=60, timeout=1700)
for k in range(5):
    dq = {"KIND": k}
    if k == 4: dq["OSDEVMASK"] = "0x7UL"
    add("type_cursor_" + KN[k], "h_type_cursor", PR, {"quick": dict(PU, defines=dq, unwind=52, bounds="kind %s%s; buffer size 0..48; symbolic canary byte" % (KN[k], " (first 3 type bits)" if k == 4 else "")), "thorough": dict(PU, defines=dq, unwind=52)}, cost=20)
add("type_cursor_osdev_7bits", "h_type_cursor", PR, {"thorough": dict(PU, defines={"KIND": 4}, unwind=52, bounds="OS devices with any of the 7 type bits whose text fits 47 characters; buffer size 0..48")}, core=False, cost=60)
add("osdev_print_terminates", "h_osdev_print_terminates", PR, {"quick": dict(PU, bounds="any 64-bit OS-device type word, any flag word"), "thorough": dict(PU)}, termination=True)
add("types", "h_types", ["hwloc_compare_types", "hwloc_obj_type_is_normal", "hwloc_obj_type_is_memory", "hwloc_obj_type_is_io", "hwloc_obj_type_is_cache", "hwloc_obj_type_is_dcache", "hwloc_obj_type_is_icache"],
    {"quick": {"unwind": 2, "bounds": "all triples of object types"}, "thorough": {"unwind": 2}}, units=["hwloc/misc.c", "hwloc/topology.c"])
OUTSIDE = ["hwloc_obj_attr_snprintf with floating-point link speed", "strings longer than L bytes for the arbitrary-byte parser harness", "'all objects of one level print the same text' (needs a loaded topology: follows from C01 attribute consistency)"]
