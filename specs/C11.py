"""C11 — type strings parse back; snprintf length contract; compare_types algebra (DESIGN §5 C11)."""
SRC = "C11_types.c"
COMMON = dict(src=SRC, env=["vp_alloc.c", "vp_libc.c"], units=["hwloc/misc.c"], checks="safety", object_bits=12, timeout=1500,
              stubs=["vsnprintf/strtol: env/vp_libc.c models (differentially tested against glibc each run)", "realloc unreachable"],
              assumptions=["allocation never fails"])
HARNESSES = []
def add(name, entry, encoded, tiers, **kw):
    h = dict(COMMON); h.update(name=name, entry=entry, encoded=encoded, tiers=tiers); h.update(kw); HARNESSES.append(h)
SS = ["hwloc_type_sscanf", "hwloc__type_match", "hwloc__osdev_type_sscanf", "hwloc__osdev_types_sscanf", "hwloc_strncasecmp", "strtol (model)"]
PR = ["hwloc_obj_type_snprintf", "hwloc__osdev_type_snprintf_normal", "hwloc__osdev_type_snprintf_short", "hwloc_obj_type_string", "hwloc_obj_cache_type_letter", "hwloc_snprintf", "vsnprintf (model)"]
def sst(l): return {"defines": {"L": l}, "unwind": l + 3, "unwindset": {"vp_strto.0": l + 2, "vp_strto.1": l + 2}, "bounds": "every NUL-terminated string of %d arbitrary bytes in an exactly sized heap object; attrp NULL or not; attrsize 0..sizeof" % l}
add("sscanf_safe", "h_sscanf_safe", SS, {"quick": sst(5), "thorough": sst(7)}, checks="safety+")
PU = {"unwind": 24, "unwindset": {"hwloc_snprintf.0": 2, "hwloc__type_match.0": 30, "strchr.0": 90, "vp_strto.0": 4, "vp_strto.1": 12}}
KN = ["plain", "cache", "group", "bridge", "osdev"]
for k in range(5):
    add("roundtrip_" + KN[k], "h_roundtrip", PR + SS, {"quick": dict(PU, defines={"GROUPMAX": 999, "KIND": k}, bounds="kind %s: every type of the kind, attributes symbolic (cache attrs consistent with the type, group depth <= 999 or -1, both bridge upstream types, every subset of the 7 OS-device type bits), every flag word without SHORT_NAMES" % KN[k]),
                                                      "thorough": dict(PU, defines={"GROUPMAX": 4294967294, "KIND": k}, bounds="as quick with any group depth")})
    add("type_cursor_" + KN[k], "h_type_cursor", PR, {"quick": dict(PU, defines={"KIND": k}, unwind=52, bounds="kind %s; buffer size 0..48; symbolic canary byte" % KN[k]), "thorough": dict(PU, defines={"KIND": k}, unwind=52)})
add("osdev_print_terminates", "h_osdev_print_terminates", PR, {"quick": dict(PU, bounds="any 64-bit OS-device type word, any flag word"), "thorough": dict(PU)}, termination=True)
add("types", "h_types", ["hwloc_compare_types", "hwloc_obj_type_is_normal", "hwloc_obj_type_is_memory", "hwloc_obj_type_is_io", "hwloc_obj_type_is_cache", "hwloc_obj_type_is_dcache", "hwloc_obj_type_is_icache"],
    {"quick": {"unwind": 2, "bounds": "all triples of object types"}, "thorough": {"unwind": 2}}, units=["hwloc/misc.c", "hwloc/topology.c"])
OUTSIDE = ["hwloc_obj_attr_snprintf with floating-point link speed", "strings longer than L bytes for the arbitrary-byte parser harness", "'all objects of one level print the same text' (needs a loaded topology: follows from C01 attribute consistency)"]
