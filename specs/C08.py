"""C08 — restrict removes exactly what the set excludes, or nothing (DESIGN §5 C08)."""
import os, sys
sys.path.insert(0, os.path.dirname(__file__))
from _seed import seed_uw
SRC = "C08_restrict.c"
COMMON = dict(src=SRC, env=["vp_alloc.c", "vp_libc.c"], units=["hwloc/bitmap.c", "hwloc/traversal.c"], unwind=14, checks="safety", object_bits=11, timeout=1500,
              unwindset=seed_uw(**{"strcmp.0": 2}),
              stubs=["seed environment stubs of vp_seed.h"], assumptions=["allocation never fails", "1-word sets"])
FRONT_CUT = ["restrict_object_by_cpuset", "restrict_object_by_nodeset"]
FREE_CUT = ["hwloc_free_unlinked_object", "hwloc_free_object_siblings_and_children"]
HARNESSES = [
  dict(COMMON, name="front", entry="h_front", defines={"SEED": 1}, encoded=["hwloc_topology_restrict (argument/flag validation, dropped-set computation, allowed-set update)", "hwloc_bitmap_not", "hwloc_bitmap_intersects", "hwloc_bitmap_isincluded"],
       remove_bodies=FRONT_CUT, goto_instrument=[["--generate-function-body", "|".join(FRONT_CUT)]], tiers={"quick": {}, "thorough": {}},
       stubs=["bodies of restrict_object_by_cpuset/_by_nodeset cut on the goto binary (the tree step is the leaf harnesses' business); the dropped sets are observed through the allowed sets"],
       bounds="seed S1 with symbolic PU nodesets (any subset of 2 nodes), symbolic NUMA cpusets, symbolic allowed sets; S: any subset of 8 bits +/- tail; flags: any 64-bit word; loaded/adopted state symbolic", cost=40),
]
LEAVES = [(1, 0, "pu_s1"), (2, 0, "pu_s2"), (2, 1, "pu_with_misc_s2"), (1, 2, "numa_s1"), (2, 3, "cpuless_numa_s2")]
for seed, leaf, nm in LEAVES:
    for byn in (0, 1):
        HARNESSES.append(dict(COMMON, name="leaf_%s_%s" % (nm, "bynodeset" if byn else "bycpuset"), entry="h_leaf", defines={"SEED": seed, "LEAF": leaf, "BYNODE": byn},
                              encoded=["restrict_object_by_nodeset" if byn else "restrict_object_by_cpuset", "unlink_and_free_single_object", "append_siblings_list", "insert_siblings_list"],
                              remove_bodies=FREE_CUT, goto_instrument=[["--generate-function-body", "|".join(FREE_CUT)]],
                              stubs=["object free bodies cut on the goto binary (memory reclamation is outside this harness)"],
                              tiers={"quick": {}, "thorough": {}}, bounds="one leaf of seed S%d; its four sets, the dropped cpuset/nodeset (optional second set) and the 5 flags symbolic" % seed))
RE_ENC = ["hwloc_topology_restrict", "restrict_object_by_cpuset", "restrict_object_by_nodeset", "unlink_and_free_single_object", "hwloc__reorder_children", "hwloc__reconnect", "hwloc_connect_children", "hwloc_connect_levels", "hwloc_filter_levels_keep_structure", "hwloc_propagate_symmetric_subtree", "propagate_total_memory", "hwloc_free_unlinked_object"]
for seed, nsl, nsl_t in ((2, 14, 26), (1, 7, 13), (4, 7, 13), (11, 7, 13), (13, 7, 13)):
    for k in range(nsl_t):
        tiers = {"thorough": {"defines": {"SEED": seed, "NSLICE": nsl_t, "SLICE": k, "NFL": 4}}}
        if k < nsl: tiers["quick"] = {"defines": {"SEED": seed, "NSLICE": nsl, "SLICE": k, "NFL": 2}}
        HARNESSES.append(dict(COMMON, name="restrict_enum_s%d_%02d" % (seed, k), entry="h_restrict_enum", encoded=RE_ENC, unwind=20, tiers=tiers, cost=90, object_bits=13,
                              bounds="the WHOLE real restrict on seed S%d (S4 here: loaded WITHOUT INCLUDE_DISALLOWED, so that PU1 and NUMA1 only remain in the complete_ sets; S11: S1 with Misc objects below a package, its NUMA node and a PU; S13: two Groups of two Cores with memory and Misc children: a restrict that leaves one Core per Group merges the Group level away): every non-empty subset of the PUs {0,1,2,5} and two sets reaching outside, by cpuset with {no flag, REMOVE_CPULESS|ADAPT_MISC|ADAPT_IO} (thorough: + each alone), and 4 node sets by nodeset with {BYNODESET, +REMOVE_MEMLESS+ADAPT} (thorough: + REMOVE_MEMLESS alone); concrete runs selected by symbolic inputs, dealt to slices; every C08 clause + the independent C01 checker" % seed))
OUTSIDE = ["topologies other than the seeds; restrict sets and flag words other than the enumerated ones on whole trees (the leaf step and the front end are decided for ALL sets and flags)", "level merging after restrict (the seeds have no mergeable level)", "distances / memattrs / cpukinds hooks (C13, C14, C15)"]
