"""C14 — memory attributes (DESIGN §5 C14)."""
SRC = "C14_memattrs.c"
COMMON = dict(src=SRC, env=["vp_alloc.c", "vp_libc.c"], units=["hwloc/bitmap.c"], unwind=8, checks="safety", object_bits=10, timeout=1500,
              unwindset={"strcmp.0": 10, "strlen.0": 10, "strdup.0": 10, "setup.0": 24, "hwloc__imtg_destroy.0": 4},
              stubs=["attribute table built directly in its representation (what register/set_value produce); targets are two fake NUMA node records",
                     "hwloc_get_obj_by_type_and_gp_index: symbolic exists-table; hwloc_get_obj_by_depth/type_depth: a hand-linked 2-node NUMA level", "realloc: concrete model (table/initiator growth with concrete sizes)"],
              assumptions=["allocation never fails", "stored initiators: NUMA0:{PU0}, NUMA0:{PU1,PU2}, NUMA2:{PU0} with arbitrary 64-bit values; attribute direction symbolic"])
HARNESSES = [
  dict(COMMON, name="register", entry="h_register", encoded=["hwloc_memattr_register", "hwloc_memattr_get_by_name", "hwloc_memattr_get_name", "hwloc_memattr_get_flags", "hwloc__setup_memattr"], tiers={"quick": {}, "thorough": {}},
       bounds="flags: any 64-bit word; name: NULL, existing custom, existing standard, new"),
] + [dict(COMMON, name="value_numa%d_%s" % (0 if t == 0 else 2, ["cpuset", "object", "null"][k]), entry="h_value", defines={"TGT": t, "KIND": k, "VP_KEEP_CBMC_REALLOC": 1},
         encoded=["hwloc_memattr_set_value", "hwloc__internal_memattr_set_value", "hwloc_memattr_get_value", "hwloc__memattr_get_target", "hwloc__memattr_target_get_initiator", "match_internal_location", "to_internal_location", "from_internal_location", "hwloc_memattr_get_initiators"],
         # CBMC 6.11's expression simplifier mis-evaluates `u.member->field` when member is not the first union member
         # (location->location.object->gp_index in to_internal_location): the object-kind queries do not assert on get_value's identity match
         tiers={"quick": {}, "thorough": {}},
         bounds="target NUMA%d; initiator kind %s (exhaustive split over targets x kinds); any cpuset over 6 bits, any value, any flags" % (0 if t == 0 else 2, ["cpuset", "object", "NULL"][k]))
     for t in (0, 1) for k in (0, 1, 2)] + [
  dict(COMMON, name="convenience", entry="h_convenience", encoded=["hwloc__memattr_get_convenience_value", "hwloc_memattr_get_value", "hwloc_memattr_set_value", "hwloc_memattr_get_best_target"], tiers={"quick": {}, "thorough": {}}, bounds="Capacity/Locality on both NUMA nodes, arbitrary local memory"),
  dict(COMMON, name="enum_best", entry="h_enum_best", encoded=["hwloc_memattr_get_targets", "hwloc_memattr_get_initiators", "hwloc_memattr_get_best_target", "hwloc_memattr_get_best_initiator", "hwloc__update_best_target", "hwloc__update_best_initiator"],
       tiers={"quick": {}, "thorough": {}}, bounds="query cpuset: any subset of 6 bits; caller arrays of 0..3 slots"),
  dict(COMMON, name="local", entry="h_local", encoded=["hwloc_get_local_numanode_objs", "match_local_obj_cpuset"], tiers={"quick": {}, "thorough": {}}, bounds="location: any cpuset over 6 bits, an object or NULL; any flag word; arrays of 0..3 slots"),
  dict(COMMON, name="refresh", entry="h_refresh", encoded=["hwloc_internal_memattrs_refresh", "hwloc__imattr_refresh", "hwloc__imtg_refresh", "hwloc__imi_refresh", "hwloc__imi_destroy", "hwloc__imtg_destroy", "hwloc_internal_memattrs_need_refresh"],
       tiers={"quick": {}, "thorough": {}}, bounds="root cpuset shrunk to any subset of 6 bits; any subset of the referenced objects gone; cache valid or not"),
]
HARNESSES.append(dict(COMMON, name="default_nodeset", entry="h_default_nodeset", encoded=["hwloc_topology_get_default_nodeset", "compare_nodes_by_os_index", "qsort (model)"], unwindset=dict(COMMON["unwindset"], **{"qsort.0": 6, "qsort.1": 6, "strcmp.0": 4}),
                      tiers={"quick": {"defines": {"DN": 3}}, "thorough": {"defines": {"DN": 4}}}, unwind=10, bounds="a NUMA level of 3 (thorough: 4) nodes, 8 dense and sparse os_index numberings in different level orders (concrete runs selected by a symbolic input), ANY cpusets inside any 6-bit root cpuset (nested, overlapping, empty), subtypes none/A/B; any flag word"))
for e in (0, 1):
    HARNESSES.append(dict(COMMON, name="dup" if e == 0 else "dup_emptied", entry="h_dup", defines={"EMPT": e}, encoded=["hwloc_internal_memattrs_dup", "hwloc_bitmap_tma_dup", "hwloc_tma_strdup"], tiers={"quick": {}, "thorough": {}},
                          bounds="the table with cpuset and object initiators, arbitrary values" + ("; after a refresh removed every target of the custom attribute (array still allocated)" if e else "")))
OUTSIDE = ["memory-tier guessing (string heuristics)", "attributes without NEED_INITIATOR beyond Capacity/Locality", "XML round trip of the table (import on crafted elements: C06; the export -> import round trip is a stretch harness of C05 that ends without verdict: CBMC 6.11 loses the cpuset member of the initiator union, which is not its first member)", "more than 2 targets x 2 initiators"]
