"""C14 — memory attributes (DESIGN §5 C14)."""
import os, sys
sys.path.insert(0, os.path.dirname(__file__))
from _seed import seed_uw
SRC = "C14_memattrs.c"
COMMON = dict(src=SRC, env=["vp_alloc.c", "vp_libc.c"], units=["hwloc/bitmap.c", "hwloc/traversal.c"], unwind=14, checks="safety", object_bits=11, timeout=1700,
              unwindset=seed_uw(**{"strcmp.0": 24, "strlen.0": 24, "strdup.0": 24, "realloc.0": 200}),
              stubs=["seed environment stubs of vp_seed.h", "realloc: concrete word-copy model (table growth happens with concrete sizes)"],
              assumptions=["allocation never fails", "seed S2: NUMA0 local to Package0 {PU0,PU1,PU2}, CPU-less NUMA2", "stored initiators: NUMA0:{PU0}, NUMA0:{PU1,PU2}, NUMA2:{PU0} with arbitrary 64-bit values"])
HARNESSES = [
  dict(COMMON, name="register", entry="h_register", encoded=["hwloc_memattr_register", "hwloc_memattr_get_by_name", "hwloc_memattr_get_name", "hwloc_memattr_get_flags", "hwloc_internal_memattrs_prepare"], tiers={"quick": {}, "thorough": {}},
       bounds="flags: any 64-bit word; name: NULL, existing custom, existing standard, new"),
  dict(COMMON, name="value_numa0", entry="h_value", defines={"TGT": 0}, encoded=["hwloc_memattr_set_value", "hwloc__internal_memattr_set_value", "hwloc_memattr_get_value", "hwloc__memattr_get_target", "hwloc__memattr_target_get_initiator", "match_internal_location", "to_internal_location", "from_internal_location", "hwloc_memattr_get_initiators"],
       tiers={"quick": {}, "thorough": {}}, bounds="target NUMA0; initiator: any cpuset over 6 bits, an object, or NULL; any value, any flags", cost=40),
  dict(COMMON, name="value_numa2", entry="h_value", defines={"TGT": 1}, encoded=["hwloc_memattr_set_value", "hwloc_memattr_get_value"], tiers={"quick": {}, "thorough": {}}, bounds="target NUMA2 (CPU-less); as value_numa0", cost=40),
  dict(COMMON, name="convenience", entry="h_convenience", encoded=["hwloc__memattr_get_convenience_value", "hwloc_memattr_get_value", "hwloc_memattr_set_value"], tiers={"quick": {}, "thorough": {}}, bounds="Capacity/Locality on both NUMA nodes, arbitrary local memory"),
  dict(COMMON, name="enum_best", entry="h_enum_best", encoded=["hwloc_memattr_get_targets", "hwloc_memattr_get_initiators", "hwloc_memattr_get_best_target", "hwloc_memattr_get_best_initiator", "hwloc__update_best_target", "hwloc__update_best_initiator"],
       tiers={"quick": {}, "thorough": {}}, bounds="query cpuset: any subset of 6 bits; caller arrays of 0..3 slots; attribute direction symbolic", cost=40),
  dict(COMMON, name="local", entry="h_local", encoded=["hwloc_get_local_numanode_objs", "match_local_obj_cpuset", "hwloc_topology_get_default_nodeset"], tiers={"quick": {}, "thorough": {}},
       bounds="location: any cpuset over 6 bits, an object or NULL; any flag word; arrays of 0..3 slots", unwindset=seed_uw(**{"strcmp.0": 24, "strlen.0": 24, "strdup.0": 24, "realloc.0": 200, "qsort.0": 20, "qsort.1": 4, "qsort.2": 4})),
  dict(COMMON, name="refresh", entry="h_refresh", encoded=["hwloc_internal_memattrs_refresh", "hwloc__imattr_refresh", "hwloc__imtg_refresh", "hwloc__imi_refresh", "hwloc__imi_destroy", "hwloc__imtg_destroy", "hwloc_internal_memattrs_need_refresh"],
       tiers={"quick": {}, "thorough": {}}, bounds="root cpuset shrunk to any subset of 6 bits", cost=40),
]
OUTSIDE = ["memory-tier guessing (string heuristics)", "attributes without NEED_INITIATOR beyond Capacity/Locality", "XML/dup persistence (C05/C12)", "more than 2 targets x 2 initiators"]
