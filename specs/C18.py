"""C18 — Linux discovery: leaf kernels on arbitrary inputs (file-system traversal of snapshots cannot be encoded: see OUTSIDE)."""
SRC = "C18_linux_units.c"
COMMON = dict(src=SRC, env=["vp_alloc.c", "vp_libc.c"], units=["hwloc/bitmap.c"], unwind=8, checks="safety+", object_bits=10, timeout=1500,
              unwindset={"strchr.0": 10, "vp_strto.0": 8, "vp_strto.1": 12, "read.0": 10, "strlen.0": 10, "kernel_cpulist.0": 8, "kernel_cpulist.1": 8, "kernel_cpulist.2": 66, "kernel_cpulist.3": 66},
              stubs=["open/openat succeed, read delivers L symbolic bytes then EOF, close counted, page size 16 (the read buffer is a small exactly sized object)", "strtoul: env/vp_libc.c model"],
              assumptions=["allocation never fails"])
HARNESSES = [
  dict(COMMON, name="cpulist_bytes", entry="h_cpulist_bytes", encoded=["hwloc__read_path_as_cpulist", "hwloc__read_fd", "hwloc_open"], tiers={"thorough": {"defines": {"L": 3}, "timeout": 3000}}, core=False, mem_gb=8, unwindset=dict(COMMON["unwindset"], **{"hwloc_bitmap_realloc_by_ulongs.0": 18, "hwloc_bitmap_reset_by_ulongs.0": 18, "hwloc_bitmap_enlarge_by_ulongs.0": 18, "hwloc_bitmap_set.0": 18, "hwloc_bitmap_zero.0": 18, "hwloc_bitmap_fill.0": 18, "hwloc_bitmap_clr_range.0": 18, "hwloc_bitmap_clr_range.1": 18, "hwloc_bitmap_weight.0": 18, "hwloc_bitmap_first.0": 18, "hwloc_bitmap_last.0": 18, "hwloc_bitmap_isfull.0": 18, "hwloc_bitmap_alloc.0": 18}),
       bounds="every kernel-format cpulist (ascending decimal numbers/ranges below 64, commas, optional final newline) of up to 2 (3) bytes; contents the kernel never writes are outside the property's quantifier and outside this harness", cost=40),
  dict(COMMON, name="cpuless_locality_i0", entry="h_cpuless_locality", encoded=["fixup_cpuless_node_locality_from_distances"], tiers={"quick": {"defines": {"NB": 3, "IDX": 0}}, "thorough": {"defines": {"NB": 4, "IDX": 0}}}, checks="safety", unwind=18,
       bounds="3 (4) NUMA nodes, node 0 examined, any subset of the others missing, any 64-bit distance matrix, 8-bit cpusets", cost=30),
  dict(COMMON, name="cpuless_locality_i1", entry="h_cpuless_locality", encoded=["fixup_cpuless_node_locality_from_distances"], tiers={"quick": {"defines": {"NB": 3, "IDX": 1}}, "thorough": {"defines": {"NB": 4, "IDX": 1}}}, checks="safety", unwind=18,
       bounds="3 (4) NUMA nodes, node 1 examined, any subset of the others missing, any 64-bit distance matrix, 8-bit cpusets", cost=30),
  dict(COMMON, name="cpuless_locality_i2", entry="h_cpuless_locality", encoded=["fixup_cpuless_node_locality_from_distances"], tiers={"quick": {"defines": {"NB": 3, "IDX": 2}}, "thorough": {"defines": {"NB": 4, "IDX": 2}}}, checks="safety", unwind=18,
       bounds="3 (4) NUMA nodes, node 2 examined, any subset of the others missing, any 64-bit distance matrix, 8-bit cpusets", cost=30),
  dict(COMMON, name="adjust_maxfreqs", entry="h_adjust_maxfreqs", encoded=["hwloc_linux_cpukinds_adjust_maxfreqs"], tiers={"quick": {"defines": {"NP": 3}}, "thorough": {"defines": {"NP": 4}, "timeout": 6000}},
       bounds="3 (4) PUs, max frequencies 0..2^24 (0 = missing cpufreq file), 4 base frequencies, adjust threshold 0..100 %; floating point is bit-precise in CBMC", cost=60),
]
for l, tiers in ((1, {"quick": {}, "thorough": {}}), (2, {"quick": {}, "thorough": {}}), (3, {"quick": {}, "thorough": {}}), (4, {"thorough": {"timeout": 3000}}), (5, {"thorough": {"timeout": 4000}}), (6, {"thorough": {"timeout": 6000}})):
    HARNESSES.append(dict(src="C18_components.c", env=["vp_alloc.c", "vp_libc.c"], units=[], name="components_env_l%d" % l, entry="h_components_env", defines={"L": l}, checks="safety+", object_bits=10, timeout=1500, unwind=l + 6, core=(l <= 3),
                      unwindset={"strcspn.0": l + 4, "strcspn.1": 6, "strlen.0": 10, "strdup.0": l + 4, "strcpy.0": 10, "strchr.0": l + 4, "strcmp.0": 10, "strncmp.0": 10, "strcasecmp.0": 10, "vp_strto.0": 8, "vp_strto.1": 10, "realloc.0": 40},
                      encoded=["hwloc_disc_components_enable_others", "hwloc_disc_component_blacklist_one", "hwloc_disc_component_find", "hwloc_phases_from_string", "hwloc_disc_component_try_enable", "hwloc_backend_alloc", "hwloc_backend_enable", "hwloc_backend_disable"],
                      tiers=tiers, typed_realloc=True,
                      stubs=["getenv: HWLOC_COMPONENTS is the harness string (or unset), every other variable unset", "component registry: two fake discovery components (\"lx\": CPU|MEMORY, \"x\": CPU) whose instantiation may fail", "strlen/strdup: concrete length for the variable's value (one harness instance per length)"], assumptions=["allocation never fails"],
                      bounds="EVERY value of HWLOC_COMPONENTS of exactly %d non-NUL bytes in an exactly sized object (or unset): memory safety, termination, the variable itself unmodified, enabled backends = registered components at most once each, none with a blacklisted phase" % l, cost=60))
OUTSIDE = ["loading whole sysfs/procfs snapshots and CPUID dumps (openat/readdir/read over hundreds of files, 8000 lines of discovery code): not encodable; determinism, INCLUDE_DISALLOWED views and XML equality of whole loads with it",
           "removal of arbitrary files: only through 'a file holds arbitrary bytes / a node is missing / a frequency is 0' in the encoded kernels", "x86 CPUID backend", "component selection"]
