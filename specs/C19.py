"""C19 — shared-memory topologies (DESIGN §5 C19); h_dup_blocks also serves C12."""
import os, sys
sys.path.insert(0, os.path.dirname(__file__))
from _seed import seed_uw
SRC = "C19_shmem.c"
UNITS = ["hwloc/bitmap.c", "hwloc/traversal.c", "hwloc/distances.c", "hwloc/memattrs.c", "hwloc/cpukinds.c", "hwloc/diff.c"]
COMMON = dict(src=SRC, env=["vp_alloc.c", "vp_libc.c"], units=UNITS, unwind=14, checks="safety", object_bits=12, timeout=1700,
              unwindset=seed_uw(**{"strcmp.0": 24, "strlen.0": 24, "strdup.0": 24, "realloc.0": 200, "write.0": 25, "read.0": 25}),
              stubs=["lseek/read/write/ftruncate/mmap/munmap/sysconf: harness fault/address model (page size 8)", "component registry, backends, binding hooks installation: empty", "seed environment stubs of vp_seed.h"],
              assumptions=["allocation never fails", "the mapping handed out by mmap is an object of exactly the announced length"])
DUP = ["hwloc__topology_dup", "hwloc__topology_init", "hwloc__duplicate_object", "hwloc_bitmap_tma_dup", "hwloc__tma_dup_infos", "hwloc_tma_strdup", "hwloc_tma_calloc", "hwloc_internal_distances_dup", "hwloc_internal_memattrs_dup", "hwloc_internal_cpukinds_dup"]
HARNESSES = [
  dict(COMMON, name="alloc", entry="h_alloc", encoded=["tma_shmem_malloc", "tma_get_length_malloc (arithmetic)"], tiers={"quick": {}, "thorough": {}}, units=[], unwind=8,
       bounds="6 requests of any size below 2^32"),
  dict(COMMON, name="write_adopt_s3", entry="h_write_adopt", defines={"SEED": 3}, encoded=["hwloc_shmem_topology_get_length", "hwloc_shmem_topology_write", "hwloc_shmem_topology_adopt", "hwloc__topology_disadopt", "hwloc_topology_destroy"] + DUP,
       tiers={"quick": {}, "thorough": {}}, bounds="seed S3 (+ a name, a topology info, the standard memory attributes); mapping = heap object of exactly get_length() bytes; page size 8", cost=60),
  dict(COMMON, name="write_adopt_allow_s4", entry="h_write_adopt", defines={"SEED": 4}, encoded=["hwloc_shmem_topology_write", "hwloc_shmem_topology_adopt", "hwloc_topology_allow"] + DUP,
       tiers={"quick": {}, "thorough": {}}, bounds="seed S4 loaded with INCLUDE_DISALLOWED (a disallowed PU and node); allow(ALL) on the adopted copy", cost=80),
  dict(COMMON, name="header", entry="h_header", encoded=["hwloc_shmem_topology_adopt", "hwloc_topology_abi_check"], tiers={"quick": {}, "thorough": {}},
       bounds="header fields, flags, address/length arguments, ABI word and the kernel's placement (requested address / elsewhere / failure) symbolic"),
  dict(COMMON, name="guards", entry="h_guards", encoded=["hwloc_topology_restrict", "hwloc_topology_alloc_group_object", "hwloc_topology_insert_group_object", "hwloc_topology_insert_misc_object", "hwloc_distances_add_create", "hwloc_distances_remove", "hwloc_distances_remove_by_depth", "hwloc_topology_diff_apply", "hwloc_topology_free_group_object"],
       tiers={"quick": {}, "thorough": {}}, bounds="seed S1 marked as adopted; which of the 9 entry points and its arguments symbolic"),
  dict(COMMON, name="dup_blocks_s2", entry="h_dup_blocks", defines={"SEED": 2}, encoded=DUP, tiers={"quick": {}, "thorough": {}},
       bounds="seed S2 with a name of symbolic length 0..5 and content, a half-full info array; every tma request served by a heap object of exactly the requested size", cost=60),
  ]
PIPE_UW = dict({"vp_mini_build_at.%d" % k: 24 for k in range(12)}, **{"strlen.0": 8, "strcpy.0": 8, "strcmp.0": 8, "write.0": 25, "read.0": 25, "hwloc__topology_dup.0": 24, "hwloc__topology_dup.1": 24, "hwloc__topology_dup.2": 24,
               "hwloc__topology_init.0": 24, "hwloc__topology_filter_init.0": 24, "hwloc_reset_normal_type_depths.0": 24, "hwloc_topology_clear.0": 24,
               "hwloc_connect_levels.0": 24, "hwloc_connect_levels.1": 24, "hwloc_connect_levels.2": 24, "hwloc_connect_levels.3": 24, "hwloc_connect_levels.4": 24, "hwloc_connect_levels.5": 24,
               "hwloc_connect_special_levels.0": 24, "hwloc_connect_special_levels.1": 24})
for incl in (0, 1):
  HARNESSES.append(dict(src="C19_pipeline.c", env=["vp_alloc.c", "vp_libc.c"], units=["hwloc/bitmap.c", "hwloc/traversal.c", "hwloc/topology.c", "hwloc/distances.c", "hwloc/memattrs.c", "hwloc/cpukinds.c"],
       name="pipeline_allow" if incl else "pipeline", entry="h_pipeline", defines={"INCL": incl}, unwind=10, unwindset=PIPE_UW, checks="safety", object_bits=12, fs_array=256, timeout=1700,
       encoded=["hwloc_shmem_topology_get_length", "hwloc_shmem_topology_write", "hwloc_shmem_topology_adopt", "hwloc__topology_disadopt", "hwloc_topology_destroy", "tma_shmem_malloc", "tma_get_length_malloc"] + DUP + (["hwloc_topology_allow"] if incl else []),
       tiers={"quick": {}, "thorough": {}}, stubs=COMMON["stubs"][:2] + ["topology: the hand-linked 9-object topology of vp_mini.h + a name and a topology info"], assumptions=COMMON["assumptions"],
       bounds="one concrete topology (9 objects, a name, an info pair%s); the mapping is a heap object of exactly get_length() bytes; page size 8; the run is concrete: CBMC acts as a bounds-checking interpreter of the whole pipeline" % ("; INCLUDE_DISALLOWED with a disallowed PU and node, allow(ALL) on the adopted copy" if incl else ""), cost=100))
OUTSIDE = ["real mmap protection faults, cross-process address availability", "page sizes other than the stub's", "topologies other than the seeds"]
