"""C19 — shared-memory topologies (DESIGN §5 C19); h_dup_blocks also serves C12."""
import os, sys
sys.path.insert(0, os.path.dirname(__file__))
from _seed import seed_uw
SRC = "C19_shmem.c"
UNITS = ["hwloc/bitmap.c", "hwloc/traversal.c", "hwloc/distances.c", "hwloc/memattrs.c", "hwloc/cpukinds.c", "hwloc/diff.c"]
COMMON = dict(src=SRC, env=["vp_alloc.c", "vp_libc.c"], units=UNITS, unwind=14, checks="safety", object_bits=12, timeout=1700,
              unwindset=seed_uw(**{"strcmp.0": 24, "strlen.0": 24, "strdup.0": 24, "realloc.0": 200, "write.0": 25, "read.0": 25}),
              stubs=["lseek/read/write/ftruncate/mmap/munmap/sysconf: harness fault/address model (page size 8)", "component registry, backends, binding hooks installation: empty", "seed environment stubs of vp_seed.h"],
              assumptions=["allocation never fails", "the mapping handed out by mmap is an object of exactly the announced length"])
DUP = ["hwloc__topology_dup", "hwloc__topology_init", "hwloc__duplicate_object", "hwloc_bitmap_tma_dup", "hwloc__tma_dup_infos", "hwloc_tma_strdup", "hwloc_tma_calloc", "hwloc_internal_distances_dup", "hwloc_internal_memattrs_dup", "hwloc_internal_cpukinds_dup"]
HARNESSES = [
  dict(COMMON, name="alloc", entry="h_alloc", encoded=["tma_shmem_malloc", "tma_get_length_malloc (arithmetic)"], tiers={"quick": {}, "thorough": {}}, units=[], unwind=8, checks="functional",
       bounds="6 requests of any size below 2^32"),
  dict(COMMON, name="guards", entry="h_guards", encoded=["hwloc_topology_restrict", "hwloc_topology_alloc_group_object", "hwloc_topology_insert_group_object", "hwloc_topology_insert_misc_object", "hwloc_distances_add_create", "hwloc_distances_remove", "hwloc_distances_remove_by_depth", "hwloc_topology_diff_apply", "hwloc_topology_free_group_object"],
       tiers={"quick": {}, "thorough": {}}, bounds="seed S1 marked as adopted; which of the 9 entry points and its arguments symbolic"),
  ]
IO = dict(src="C19_io.c", env=["vp_alloc.c", "vp_libc.c"], units=["hwloc/bitmap.c", "hwloc/traversal.c", "hwloc/topology.c"], unwind=8, checks="safety", object_bits=11, timeout=1500,
          unwindset=dict({"vp_mini_build_at.%d" % k: 24 for k in range(12)}, **{"hwloc_topology_abi_check.0": 24}),
          stubs=["hwloc__topology_dup: contract model performing 1..4 allocator requests of symbolic sizes (<= 4096) through the tma it is given; what the real dup requests is decided by dup_blocks",
                 "lseek/read/write/ftruncate/mmap/munmap/sysconf: fault and placement model (page size 8)", "distances/memattrs refresh, components init/fini: recorders"],
          assumptions=["allocation never fails", "the mapping handed out by mmap is an object of exactly the announced length"])
import importlib.util as _iu
_s = _iu.spec_from_file_location("spec_C12", os.path.join(os.path.dirname(__file__), "C12.py")); _m = _iu.module_from_spec(_s); _s.loader.exec_module(_m)
for _h in _m.HARNESSES:
    if _h["name"].startswith("dup_blocks_mini"): HARNESSES.append(dict(_h))      # same query serves C12 and C19
HARNESSES.append(dict(IO, name="write_any_requests", entry="h_write", encoded=["hwloc_shmem_topology_get_length", "hwloc_shmem_topology_write", "tma_get_length_malloc", "tma_shmem_malloc"], tiers={"quick": {}, "thorough": {"defines": {"NREQ": 6}}},
       bounds="1..4 (thorough: 6) allocator requests of any size <= 4096 bytes; file offsets 0..4 pages; flags 0/1; every OS call may fail; the kernel may place the mapping elsewhere", cost=40))
HARNESSES.append(dict(IO, name="adopt_validation", entry="h_adopt", defines={"VALID": 0}, encoded=["hwloc_shmem_topology_adopt", "hwloc_topology_abi_check"], tiers={"quick": {}, "thorough": {}},
       bounds="header fields, ABI word, length argument, flags 0/1 and the kernel's placement (requested address / elsewhere / failure) symbolic; stored topology = the hand-linked 9-object topology", cost=40))
HARNESSES.append(dict(IO, name="adopt_allow_destroy", entry="h_adopt", defines={"VALID": 1}, encoded=["hwloc_shmem_topology_adopt", "hwloc__topology_disadopt", "hwloc_topology_allow", "hwloc_topology_destroy", "hwloc__tma_dup_infos"], tiers={"quick": {}, "thorough": {}},
       bounds="a matching header and a cooperative kernel (concrete); the stored copy was loaded with INCLUDE_DISALLOWED and carries ANY non-empty allowed cpuset/nodeset inside the topology; allow(ALL) then destroy on the adopted copy", cost=40))
OUTSIDE = ["real mmap protection faults, cross-process address availability", "page sizes other than the stub's", "topologies other than the seeds"]
