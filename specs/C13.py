"""C13 — distances (DESIGN §5 C13)."""
SRC = "C13_distances.c"
COMMON = dict(src=SRC, env=["vp_alloc.c", "vp_libc.c"], units=[], checks="safety", object_bits=10, timeout=1500, unwind=18,
              unwindset={"strcmp.0": 10, "strlen.0": 4, "strdup.0": 4},
              stubs=["hwloc_get_obj_by_type_and_gp_index: symbolic 'exists' table over the fake objects", "hwloc_get_depth_type: symbolic return", "hwloc__reconnect: call counter",
                     "objects: static fake hwloc_obj records (only type, gp_index, os_index, subtype are read)"],
              assumptions=["allocation never fails", "grouping at commit disabled (floating point + tree insertion are outside the claim)", "matrix values < 2^20 in the transform harness"])
HARNESSES = []
def add(name, entry, encoded, tiers, **kw):
    h = dict(COMMON); h.update(name=name, entry=entry, encoded=encoded, tiers=tiers); h.update(kw); HARNESSES.append(h)
def nb(n, **d): 
    dd = {"NB": n}; dd.update(d); return {"defines": dd, "bounds": "matrices of exactly %d objects; values, kinds, flags, NULL/removed objects, types, names, filters symbolic" % n}
add("submatrix", "h_submatrix", ["hwloc_internal_distances_restrict"], {"quick": nb(3), "thorough": nb(4)})
for het in (0, 1):
    for ex in range(8):
        add("refresh_h%d_x%d" % (het, ex), "h_refresh", ["hwloc_internal_distances_refresh", "hwloc_internal_distances_refresh_one", "hwloc_internal_distances_restrict", "hwloc_internal_distances_free"],
            {"quick": nb(3, HET=het, EX=ex), "thorough": nb(3, HET=het, EX=ex)}, cost=3)
add("get", "h_get", ["hwloc__distances_get", "hwloc_distances_get_one", "hwloc_distances_get_name", "hwloc__internal_distances_from_public", "hwloc_internal_distances_refresh"], {"quick": nb(2), "thorough": nb(3)})
for na in (0, 1, 2, 3):
    add("add_n%d" % na, "h_add", ["hwloc_distances_add_create", "hwloc_distances_add_values", "hwloc_distances_add_commit", "hwloc_backend_distances_add_create", "hwloc_backend_distances_add_values", "hwloc_backend_distances_add_commit", "hwloc_backend_distances_add__cancel"],
        {"quick": nb(3, NADD=na), "thorough": nb(3, NADD=na)})
for na in (2, 3):
    add("add_os_n%d" % na, "h_add", ["hwloc_distances_add_create", "hwloc_distances_add_values", "hwloc_distances_add_commit", "hwloc_backend_distances_add_values"],
        {"quick": nb(3, NADD=na, POOL_OS=1), "thorough": nb(3, NADD=na, POOL_OS=1)})
add("remove", "h_remove", ["hwloc_distances_remove_by_depth", "hwloc_distances_release_remove", "hwloc_distances_release", "hwloc_internal_distances_free"], {"quick": nb(2), "thorough": nb(3)})
TRN = ["remove_null", "links", "merge_switch_ports", "transitive_closure", "invalid"]
for t in range(5):
    n = 2 if t == 1 else 3
    d = {"TR": t}
    if t == 1: d["VMAX"] = 64
    add("transform_" + TRN[t], "h_transform", ["hwloc_distances_transform", "hwloc__distances_transform_" + TRN[t] if t < 4 else "hwloc_distances_transform", "hwloc_internal_distances_restrict", "is_nvswitch"],
        {"quick": nb(n, **d), "thorough": nb(n + 1 if t != 1 else 2, **d)})
add("dup", "h_dup", ["hwloc_internal_distances_dup", "hwloc_internal_distances_dup_one", "hwloc_tma_malloc", "hwloc_tma_strdup"], {"quick": nb(2), "thorough": nb(3)}, units=["hwloc/topology.c", "hwloc/bitmap.c"])
# the XML round trip is decided by the element-tree harness of C05 (same source, same query)
import importlib.util as _iu, os as _os
_s = _iu.spec_from_file_location("spec_C05", _os.path.join(_os.path.dirname(__file__), "C05.py")); _m5 = _iu.module_from_spec(_s); _s.loader.exec_module(_m5)
for _h in _m5.HARNESSES:
    if _h["name"] in ['xml_roundtrip_distances']: _h2 = dict(_h); _h2["name"] = "C05_" + _h["name"]; HARNESSES.append(_h2)
OUTSIDE = ["hwloc__groups_by_distances (floating-point accuracies, Group insertion)", "PU/NUMA os_index based lookup during refresh (needs a level array; the gp_index path is encoded)", "matrices larger than 4x4", "XML / shmem persistence (C05, C19)"]

# the restrict side of "after restrict every returned structure holds the surviving objects": the invalidation request of hwloc_topology_restrict
import importlib.util as _iu13, os as _os13
_s8 = _iu13.spec_from_file_location("spec_C08", _os13.path.join(_os13.path.dirname(__file__), "C08.py")); _m8 = _iu13.module_from_spec(_s8); _s8.loader.exec_module(_m8)
_b8 = [h for h in _m8.HARNESSES if h["name"] == "restrict_enum_s1_00"][0]
_h = dict(_b8); _h.update(name="restrict_invalidates", entry="h_restrict_flags", defines={"SEED": 1}, tiers={"quick": {}, "thorough": {}}, cost=30,
          encoded=["hwloc_topology_restrict (post-processing: invalidation of the distances' cached objects)"],
          bounds="seed S1 restricted to Package0, the topology flags NO_DISTANCES / NO_MEMATTRS / NO_CPUKINDS symbolic (8 combinations); asserted: hwloc_internal_distances_invalidate_cached_objs is called (the refresh that follows is decided by refresh_*)")
HARNESSES.append(_h)
