"""C10 — binding entry points: validation, set fixing, hook dispatch, dummy hooks (DESIGN §5 C10)."""
import os, sys
sys.path.insert(0, os.path.dirname(__file__))
from _seed import seed_uw
SRC = "C10_bind.c"
COMMON = dict(src=SRC, env=["vp_alloc.c", "vp_libc.c"], units=["hwloc/bitmap.c", "hwloc/traversal.c"], unwind=14, checks="safety", object_bits=11, timeout=1500,
              unwindset=seed_uw(**{"strcmp.0": 2}),
              stubs=["binding hooks: recorders returning a symbolic result (0/-1, ENOSYS/EPERM)", "hwloc_set_linuxfs_hooks and other native hook installers: empty (native hooks are not part of the claim)", "seed environment stubs of vp_seed.h"],
              assumptions=["allocation never fails", "seed S4 without INCLUDE_DISALLOWED: topology cpuset 0x25 inside complete cpuset 0x27, nodeset 0x1 inside complete nodeset 0x3"])
SETC = ["hwloc_fix_cpubind", "hwloc_topology_get_topology_cpuset", "hwloc_topology_get_complete_cpuset", "hwloc_bitmap_isincluded", "hwloc_bitmap_iszero"]
HARNESSES = []
for ep, n in enumerate(["set_cpubind", "set_proc_cpubind", "set_thread_cpubind"]):
    HARNESSES.append(dict(COMMON, name=n, entry="h_set_cpubind", defines={"EP": ep}, encoded=["hwloc_" + n] + SETC, tiers={"quick": {}, "thorough": {}},
                          bounds="set: any subset of bits 0..7 with or without the infinite tail; flags: any int; hooks present or not; hook results symbolic"))
HARNESSES.append(dict(COMMON, name="get_cpubind", entry="h_get_cpubind", encoded=["hwloc_get_cpubind"], tiers={"quick": {}, "thorough": {}}, bounds="flags: any int; hooks present or not"))
for ep, n in enumerate(["set_membind", "set_area_membind"]):
    HARNESSES.append(dict(COMMON, name=n, entry="h_set_membind", defines={"EP": ep}, encoded=["hwloc_" + n, "hwloc_set_membind_by_nodeset" if ep == 0 else "hwloc_set_area_membind_by_nodeset", "hwloc_fix_membind", "hwloc_fix_membind_cpuset", "hwloc__check_membind_policy", "hwloc_cpuset_to_nodeset"],
                          tiers={"quick": {}, "thorough": {}}, bounds="set as above (cpuset or nodeset by flag); flags, policy: any int"))
HARNESSES.append(dict(COMMON, name="dummy_hooks", entry="h_dummy", encoded=["hwloc_set_binding_hooks", "hwloc_set_dummy_hooks", "dontset_*/dontget_* hooks", "hwloc_set_cpubind", "hwloc_get_cpubind", "hwloc_get_last_cpu_location", "hwloc_get_membind"],
                      tiers={"quick": {}, "thorough": {}}, bounds="topology without IS_THISSYSTEM; any valid set and flags"))
LINUX = dict(src="C10_linux.c", env=["vp_alloc.c", "vp_libc.c"], units=["hwloc/bitmap.c"], unwind=6, checks="safety", object_bits=11, timeout=1500,
             unwindset={"hwloc_linux_get_tid_cpubind.0": 130, "hwloc_linux_set_tid_cpubind.0": 130, "hwloc_linux_set_tid_cpubind.1": 130, "hwloc_linux_get_tid_cpubind.1": 130, "hwloc_linux_find_kernel_nr_cpus.0": 4, "sched_getaffinity.0": 4, "sched_setaffinity.0": 4, "sched_setaffinity.1": 4},
             stubs=["kernel model: one affinity mask of 128 bits; sched_getaffinity fails with EINVAL on a buffer shorter than the kernel mask, sched_setaffinity stores the mask (EINVAL if empty)",
                    "open/openat fail (no /sys): the size-probing loop of hwloc_linux_find_kernel_nr_cpus runs for real", "glibc __sched_cpualloc/__sched_cpufree: malloc/free of CPU_ALLOC_SIZE"],
             assumptions=["allocation never fails", "CPU numbers below 128", "a topology whose only consulted field is the root's complete_cpuset (symbolic, or absent)"])
HARNESSES.append(dict(LINUX, name="linux_get_tid", entry="h_linux_get", encoded=["hwloc_linux_get_tid_cpubind", "hwloc_linux_find_kernel_nr_cpus"], tiers={"quick": {}, "thorough": {}},
                      bounds="kernel mask: any 128 bits; complete cpuset: any 128 bits or absent; previous content of the output bitmap: any 192 bits with or without an infinite tail", cost=60))
for ncpu, tiers in ((2, {"quick": {}, "thorough": {}}), (3, {"thorough": {"timeout": 4000}}), (5, {"thorough": {"timeout": 8000}})):
    uw = dict(LINUX["unwindset"]); uw.update({"hwloc_linux_set_tid_cpubind.0": ncpu + 2, "hwloc_linux_set_tid_cpubind.1": ncpu + 2, "h_linux_roundtrip.0": ncpu + 1})
    HARNESSES.append(dict(LINUX, core=(ncpu <= 3), name="linux_roundtrip_%d" % ncpu, entry="h_linux_roundtrip", defines={"NCPU": ncpu}, unwindset=uw, encoded=["hwloc_linux_set_tid_cpubind", "hwloc_linux_get_tid_cpubind", "hwloc_linux_find_kernel_nr_cpus"], tiers=tiers,
                          bounds="any set of 1..%d CPUs below 128 inside any 128-bit complete cpuset; any previous kernel mask" % ncpu, cost=60))
HARNESSES.append(dict(src="C10_x86.c", env=["vp_alloc.c", "vp_libc.c"], units=["hwloc/bitmap.c"], name="x86_binding_restored", entry="h_x86_binding_restored", unwind=6, checks="safety", object_bits=10, timeout=900,
                      encoded=["look_procs (body copied from the working tree)"], gen=[("x86procs.inc", "hwloc/topology-x86.c", ["look_procs"], "__vp")], tiers={"quick": {}, "thorough": {"defines": {"NP": 4}, "unwind": 7}},
                      stubs=["look_proc / summarize (CPUID decoding): empty stand-ins", "get_cpubind / set_cpubind: recording stubs, every call may fail"], assumptions=["allocation never fails"],
                      bounds="1..3 (4) processors, any original binding over 8 bits, any subset of failing binding calls, with or without a restrict set: the last binding call restores the original set; strict single-processor bindings in between", cost=20))
OUTSIDE = ["the live round trip on the running system (bind -> get, last_cpu_location inside the binding, load restores the binding): real syscalls cannot be encoded",
           "the other native hooks (process-wide binding over /proc/<pid>/task, memory binding syscalls, non-Linux ports)", "get_*membind / alloc_membind entry points"]
