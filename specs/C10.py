"""C10 — binding entry points: validation, set fixing, hook dispatch, dummy hooks (DESIGN §5 C10)."""
import os, sys
sys.path.insert(0, os.path.dirname(__file__))
from _seed import seed_uw
SRC = "C10_bind.c"
COMMON = dict(src=SRC, env=["vp_alloc.c", "vp_libc.c"], units=["hwloc/bitmap.c", "hwloc/traversal.c"], unwind=14, checks="safety", object_bits=11, timeout=1500,
              unwindset=seed_uw(**{"strcmp.0": 2}),
              stubs=["binding hooks: recorders returning a symbolic result (0/-1, ENOSYS/EPERM)", "hwloc_set_linuxfs_hooks and other native hook installers: empty (native hooks are not part of the claim)", "seed environment stubs of vp_seed.h"],
              assumptions=["allocation never fails", "seed S4 without INCLUDE_DISALLOWED: topology cpuset 0x25 inside complete cpuset 0x27, nodeset 0x1 inside complete nodeset 0x3"])
SETC = ["hwloc_fix_cpubind", "hwloc_topology_get_topology_cpuset", "hwloc_topology_get_complete_cpuset", "hwloc_bitmap_isincluded", "hwloc_bitmap_iszero"]
HARNESSES = []
for ep, n in enumerate(["set_cpubind", "set_proc_cpubind", "set_thread_cpubind"]):
    HARNESSES.append(dict(COMMON, name=n, entry="h_set_cpubind", defines={"EP": ep}, encoded=["hwloc_" + n] + SETC, tiers={"quick": {}, "thorough": {}},
                          bounds="set: any subset of bits 0..7 with or without the infinite tail; flags: any int; hooks present or not; hook results symbolic"))
HARNESSES.append(dict(COMMON, name="get_cpubind", entry="h_get_cpubind", encoded=["hwloc_get_cpubind"], tiers={"quick": {}, "thorough": {}}, bounds="flags: any int; hooks present or not"))
for ep, n in enumerate(["set_membind", "set_area_membind"]):
    HARNESSES.append(dict(COMMON, name=n, entry="h_set_membind", defines={"EP": ep}, encoded=["hwloc_" + n, "hwloc_set_membind_by_nodeset" if ep == 0 else "hwloc_set_area_membind_by_nodeset", "hwloc_fix_membind", "hwloc_fix_membind_cpuset", "hwloc__check_membind_policy", "hwloc_cpuset_to_nodeset"],
                          tiers={"quick": {}, "thorough": {}}, bounds="set as above (cpuset or nodeset by flag); flags, policy: any int"))
HARNESSES.append(dict(COMMON, name="dummy_hooks", entry="h_dummy", encoded=["hwloc_set_binding_hooks", "hwloc_set_dummy_hooks", "dontset_*/dontget_* hooks", "hwloc_set_cpubind", "hwloc_get_cpubind", "hwloc_get_last_cpu_location", "hwloc_get_membind"],
                      tiers={"quick": {}, "thorough": {}}, bounds="topology without IS_THISSYSTEM; any valid set and flags"))
OUTSIDE = ["the live round trip on the running system (bind -> get, last_cpu_location inside the binding, load restores the binding): real syscalls cannot be encoded",
           "native Linux hooks (sched_setaffinity mask sizing)", "get_*membind / alloc_membind entry points"]
