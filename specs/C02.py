"""C02 — modifying calls preserve well-formedness: one step per entry point (DESIGN §5 C02)."""
import os, sys
sys.path.insert(0, os.path.dirname(__file__))
from _seed import seed_uw
SRC = "C02_modify.c"
COMMON = dict(src=SRC, env=["vp_alloc.c", "vp_libc.c"], units=["hwloc/bitmap.c", "hwloc/traversal.c"], unwind=14, checks="safety", object_bits=11, timeout=1500,
              unwindset=seed_uw(**{"strcmp.0": 4, "strlen.0": 16, "strdup.0": 16, "realloc.0": 40}),
              stubs=["seed environment stubs of vp_seed.h", "get_allowed_resources hook: writes arbitrary allowed sets"],
              assumptions=["allocation never fails"])
HARNESSES = [
  dict(COMMON, name="allow_incl", entry="h_allow", defines={"INCL": 1}, encoded=["hwloc_topology_allow"], tiers={"quick": {}, "thorough": {}},
       bounds="seed S4 loaded with INCLUDE_DISALLOWED; cpuset/nodeset NULL or any subset of 8 bits; any 64-bit flag word; THISSYSTEM, loaded state, hook presence and what the hook reports symbolic", cost=30),
  dict(COMMON, name="allow_noincl", entry="h_allow", defines={"INCL": 0}, encoded=["hwloc_topology_allow"], tiers={"quick": {}, "thorough": {}},
       bounds="as allow_incl on seed S4 loaded without INCLUDE_DISALLOWED (every call must fail with EINVAL)", cost=30),
  dict(COMMON, name="infos", entry="h_infos", encoded=["hwloc_modify_infos", "hwloc__add_info", "hwloc__add_info_unique", "hwloc__replace_infos", "hwloc__remove_infos", "hwloc__realloc_infos"], tiers={"quick": {}, "thorough": {}}, unwind=8,
       bounds="arbitrary table of <= 3 pairs over a 3-string pool (duplicates allowed); any operation word; name/value from the pool or NULL", cost=30),
  dict(COMMON, name="infos_growth", entry="h_infos_growth", encoded=["hwloc__add_info", "hwloc__realloc_infos", "hwloc__move_infos"], tiers={"quick": {}, "thorough": {}}, unwind=12, unwindset=seed_uw(**{"strcmp.0": 4, "strlen.0": 4, "strdup.0": 4, "realloc.0": 40}),
       bounds="concrete growth from an empty array to 9 pairs, then a move into another array"),
  dict(COMMON, name="misc_args", entry="h_misc_group_args", defines={"WHICH": 0}, encoded=["hwloc_topology_insert_misc_object", "hwloc_insert_object_by_parent", "hwloc_topology_reconnect"],
       tiers={"quick": {}, "thorough": {}}, bounds="seed S1; loaded state and Misc filter symbolic; one Misc below PU0", cost=30),
  dict(COMMON, name="group_refused_0", entry="h_misc_group_args", defines={"WHICH": 1, "GC": 0}, encoded=["hwloc_topology_alloc_group_object", "hwloc_topology_insert_group_object (refusal paths)", "hwloc_free_unlinked_object"],
       tiers={"quick": {}, "thorough": {}}, bounds="seed S1; loaded state symbolic; refusal case: Groups filtered out", cost=30),
  dict(COMMON, name="group_refused_1", entry="h_misc_group_args", defines={"WHICH": 1, "GC": 1}, encoded=["hwloc_topology_alloc_group_object", "hwloc_topology_insert_group_object (refusal paths)", "hwloc_free_unlinked_object"],
       tiers={"quick": {}, "thorough": {}}, bounds="seed S1; loaded state symbolic; refusal case: no set given (any filter)", cost=30),
  dict(COMMON, name="group_refused_2", entry="h_misc_group_args", defines={"WHICH": 1, "GC": 2}, encoded=["hwloc_topology_alloc_group_object", "hwloc_topology_insert_group_object (refusal paths)", "hwloc_free_unlinked_object"],
       tiers={"quick": {}, "thorough": {}}, bounds="seed S1; loaded state symbolic; refusal case: any cpuset outside the topology (any filter)", cost=30),
  dict(COMMON, name="group_unloaded", entry="h_misc_group_args", defines={"WHICH": 1, "GC": 1, "LOADED": 0}, encoded=["hwloc_topology_alloc_group_object"],
       tiers={"quick": {}, "thorough": {}}, bounds="seed S1 marked not loaded: alloc_group refuses"),
  ]
for opl, nm in ((0, "prepend"), (1, "append")):
  for na in (0, 1, 2, 3):
    for nb in ((1, 2, 3) if opl == 0 else (0, 1, 2, 3)):
      tiers = {"thorough": {}}
      if (na, nb) in ((0, 1), (2, 2), (1, 3), (3, 1)): tiers["quick"] = {}
      HARNESSES.append(dict(COMMON, name="siblings_%s_%d_%d" % (nm, na, nb), entry="h_siblings", defines={"OPL": opl, "NA": na, "NB": nb}, encoded=[nm + "_siblings_list"], tiers=tiers, unwind=10,
                            bounds="%s a well-formed list of %d objects to a well-formed list of %d (concrete lengths, exhaustive over 0..3 in thorough)" % (nm, nb, na), cost=5))
# the insertion step (incl. the put-back of a refused insertion) is shared with C01
import importlib.util as _iu
import builtins as _b
_m = None
if not getattr(_b, "_vp_c01_loading", False):
    _b._vp_c01_loading = True
    try:
        _s = _iu.spec_from_file_location("spec_C01", os.path.join(os.path.dirname(__file__), "C01.py")); _m = _iu.module_from_spec(_s); _s.loader.exec_module(_m)
    finally:
        _b._vp_c01_loading = False
for _h in (_m.HARNESSES if _m else []):
    if _h["name"] in ("insert_nested2", "insert_nested3"): _h2 = dict(_h); _h2["name"] = "C01_" + _h["name"]; HARNESSES.append(_h2)      # the put-back of a refused insertion
GE_ENC = ["hwloc_topology_alloc_group_object", "hwloc_topology_insert_group_object", "hwloc__insert_object_by_cpuset", "hwloc___insert_object_by_cpuset", "hwloc__insert_try_merge_group", "hwloc_obj_add_children_sets", "hwloc__reconnect", "hwloc_connect_children", "hwloc_connect_levels", "hwloc_set_group_depth", "hwloc_propagate_symmetric_subtree"]
for k in range(24):
    tiers = {"thorough": {"defines": {"NSLICE": 24, "SLICE": k, "NG1": 12, "NG2": 12}, "timeout": 3000}}
    if k < 12: tiers["quick"] = {"defines": {"NSLICE": 12, "SLICE": k, "NG1": 4, "NG2": 8}}
    HARNESSES.append(dict(COMMON, name="group_enum_%02d" % k, entry="h_group_enum", encoded=GE_ENC, unwind=20, tiers=tiers, cost=90, object_bits=13,
                          bounds="flat seed S9 (Machine, PUs 0,1,2,5, one NUMA node): a first Group over one of 4 (thorough: 12) cpusets followed by a second one over one of 8 (12) cpusets or none: new Group, merge into an equal object, nesting, conflict (EINVAL, everything unchanged); concrete runs selected by symbolic inputs, dealt to slices; after every step the independent C01 checker, gp_index/userdata/sets of existing objects unchanged"))
for _seed in (1, 8, 5):
    for k in range(4):
        HARNESSES.append(dict(COMMON, name="group_mem_s%d_%d" % (_seed, k), entry="h_group_mem", encoded=GE_ENC + ["hwloc___insert_object_by_cpuset (memory children follow a new parent with equal sets)", "total_memory of the new Group and of the object it covers"], unwind=20,
                              defines={"GM_SEED": _seed, "NSLICE": 4, "SLICE": k}, tiers={"quick": {}, "thorough": {}} if _seed in (1, 8) else {"thorough": {}}, cost=90, object_bits=13,
                              bounds="seed S%d (Packages carrying memory children): a Group with dont_merge 0/1 over one of 8 cpusets (equal to a Package, to a PU, to the machine, cutting a Package, a single PU of a Package): 16 concrete runs selected by symbolic inputs, dealt to 4 slices; independent C01 checker (total_memory, memory arities, sets), machine total unchanged, existing objects keep gp_index/sets/userdata, conflicts leave everything unchanged" % _seed))
# the whole real restrict on seed S2 followed by the independent C01 checker is shared with C08 (same source, same queries)
_s8 = _iu.spec_from_file_location("spec_C08", os.path.join(os.path.dirname(__file__), "C08.py")); _m8 = _iu.module_from_spec(_s8); _s8.loader.exec_module(_m8)
for _h in _m8.HARNESSES:
    if _h["name"].startswith("restrict_enum_s2_") or _h["name"].startswith("restrict_enum_s13_"): _h2 = dict(_h); _h2["name"] = "C08_" + _h["name"]; HARNESSES.append(_h2)
OUTSIDE = ["distance-based grouping; Group insertion and restrict on whole trees only for the enumerated sets, flags and seeds", "arbitrary-length call histories except through the one-step argument on the asserted invariants",
           "cpukinds (C15), distances (C13), memattrs (C14) steps are decided by their own properties"]
