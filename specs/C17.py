"""C17 — documented thread-safety, decided through its sequential core: after refresh every cache is valid, and a consulting
call on a refreshed topology writes nothing (readers that do not write cannot race); reference counts of the component
registry are balanced on every path of the entry points that take them. True interleavings are outside (see OUTSIDE)."""
import os, sys, importlib.util
sys.path.insert(0, os.path.dirname(__file__))
def _load(n):
    p = os.path.join(os.path.dirname(__file__), n + ".py"); s = importlib.util.spec_from_file_location("spec_" + n, p); m = importlib.util.module_from_spec(s); s.loader.exec_module(m); return m
HARNESSES = []
c14 = _load("C14"); c13 = _load("C13")
base14 = [h for h in c14.HARNESSES if h["name"] == "refresh"][0]
base13 = [h for h in c13.HARNESSES if h["entry"] == "h_get"][0]
h = dict(base14); h["name"] = "memattrs_refresh_validates"; h["bounds"] = "as C14 refresh: arbitrary validity, object existence, root cpuset; asserted here: every attribute is CACHE_VALID after hwloc_internal_memattrs_refresh (what hwloc_topology_refresh calls)"; HARNESSES.append(h)
RDN = ["get_value", "get_best_target", "get_best_initiator", "get_targets", "get_initiators"]
for rd, n in enumerate(RDN):
    h = dict(base14); h.update(name="memattrs_reader_pure_" + n, entry="h_reader_pure", defines=dict(base14.get("defines", {}), RD=rd), encoded=["hwloc_memattr_" + n, "hwloc__imattr_refresh (must not run)"],
                               tiers={"quick": {}, "thorough": {}}, bounds="attribute table claiming CACHE_VALID while any subset of its objects is gone and the root cpuset is any 6-bit set; query location any 6-bit cpuset", cost=20)
    HARNESSES.append(h)
h = dict(base13); h.update(name="distances_reader_pure", entry="h_reader_pure", encoded=["hwloc_distances_get", "hwloc__distances_get", "hwloc_internal_distances_refresh (must not re-resolve)"], tiers={"quick": {}, "thorough": {}},
                           bounds="two structures of NB objects claiming OBJS_VALID while any subset of the objects is gone; any kind word; nr 0..3", cost=20)
HARNESSES.append(h)
EPN = ["diff_export_xmlbuffer", "diff_export_xml", "diff_load_xmlbuffer", "diff_load_xml"]
for ep, n in enumerate(EPN):
    HARNESSES.append(dict(src="C17_refcount.c", env=["vp_alloc.c", "vp_libc.c"], units=[], name="refcount_" + n, entry="h_refcount", defines={"EP": ep}, unwind=6, unwindset={"strlen.0": 24, "strcpy.0": 24, "strrchr.0": 24, "strchr.0": 24}, checks="safety", object_bits=10, timeout=600,
        encoded=["hwloc_topology_" + n, "hwloc_xml_callbacks_register", "hwloc_xml_callbacks_reset"], tiers={"quick": {}, "thorough": {}},
        stubs=["component registry: a reference counter that registers/forgets the XML backends on first/last reference", "XML backends: recorders returning a symbolic result (0 / -1 with ENOSYS or EINVAL)", "newlocale/uselocale/freelocale: no-ops"],
        assumptions=["allocation never fails"], bounds="diff lists of 2 entries with symbolic types; 0..2 references held by others; libxml backend present or not; backend result symbolic", cost=10))
OUTSIDE = ["interleavings of real threads (CBMC's pthread support does not reach this code base within the budget; the claim is the sequential core: no writes by readers after refresh, balanced reference counts)",
           "readers other than the memory-attribute and distances queries (tree traversal and bitmap queries are pure by construction: C09/C03 execute them without any store to the topology)",
           "independent topologies in concurrent threads, static environment caches"]
