"""C09 — traversal and locality helpers vs brute-force definitions (DESIGN §5 C09)."""
import os, sys
sys.path.insert(0, os.path.dirname(__file__))
from _seed import seed_uw
SRC = "C09_helpers.c"
COMMON = dict(src=SRC, env=["vp_alloc.c", "vp_libc.c"], units=["hwloc/bitmap.c", "hwloc/traversal.c"], unwind=14, checks="safety", object_bits=11, timeout=1500,
              unwindset=seed_uw(**{"strcmp.0": 2}),
              stubs=["getenv: no environment variable set", "PCI locality, component registry, distances/memattrs/cpukinds internals: empty (the seeds have none)",
                     "realloc: unreachable in the symbolic phase (1-word bitmaps)"],
              assumptions=["allocation never fails", "query sets: any subset of bits 0..7, optionally with the infinite tail"])
HARNESSES = []
FAMS = [("covering", "h_covering", ["hwloc_get_obj_covering_cpuset", "hwloc_get_child_covering_cpuset"]),
        ("largest", "h_largest", ["hwloc_get_largest_objs_inside_cpuset", "hwloc__get_largest_objs_inside_cpuset", "hwloc_get_first_largest_obj_inside_cpuset"]),
        ("iterators", "h_iterators", ["hwloc_get_nbobjs_inside_cpuset_by_depth", "hwloc_get_obj_inside_cpuset_by_depth", "hwloc_get_next_obj_inside_cpuset_by_depth", "hwloc_get_next_obj_covering_cpuset_by_depth", "hwloc_get_next_obj_by_depth"]),
        ("ancestors", "h_ancestors", ["hwloc_get_common_ancestor_obj", "hwloc_get_ancestor_obj_by_depth", "hwloc_get_ancestor_obj_by_type", "hwloc_obj_is_in_subtree", "hwloc_get_type_depth", "hwloc_get_depth_type", "hwloc_get_obj_by_depth", "hwloc_get_nbobjs_by_depth"]),
        ("closest", "h_closest", ["hwloc_get_closest_objs"]),
        ("nodeset_conv", "h_nodeset_conv", ["hwloc_cpuset_to_nodeset", "hwloc_cpuset_from_nodeset"]),
        ("same_locality", "h_same_locality", ["hwloc_get_obj_with_same_locality", "hwloc_get_next_obj_by_type"]),
        ("singlify_per_core", "h_singlify_per_core", ["hwloc_bitmap_singlify_per_core", "hwloc_get_next_obj_covering_cpuset_by_type"]),
        ("distrib", "h_distrib", ["hwloc_distrib"]),
        ("seed_ok", "h_seed_ok", ["hwloc_discover", "hwloc__insert_object_by_cpuset", "hwloc__reconnect", "hwloc_connect_levels", "propagate_nodeset", "fixup_sets"])]
for seed, tiers in ((1, ("quick", "thorough")), (2, ("quick", "thorough")), (3, ("thorough",)), (8, ("quick", "thorough")), (12, ("quick", "thorough"))):
    for n, e, enc in FAMS:
        if seed == 8 and n not in ("same_locality", "nodeset_conv", "seed_ok", "covering"): continue
        if seed == 12 and n not in ("covering", "largest", "iterators", "seed_ok"): continue      # S12: interleaved numbering + a disallowed first PU: children are ordered by complete_cpuset, not by cpuset      # S8 = S1 + a second NUMA node on Package0: the helpers that look at nodesets
        h = dict(COMMON); h.update(name="%s_s%d" % (n, seed), entry=e, defines={"SEED": seed}, encoded=enc,
                                   bounds="seed topology S%d (shape concrete, built by the real core); query arguments symbolic" % seed,
                                   tiers={t: {} for t in tiers})
        if n == "distrib":
            if seed not in (1, 2): continue
            for k in range(20):
                tt = {"thorough": {"defines": {"NMAX": 5, "NU": 3, "UNTILS": "{1,2,2147483647}", "NSLICE": 20, "SLICE": k}, "timeout": 3000}}
                if k < 10: tt["quick"] = {"defines": {"NMAX": 4, "NSLICE": 10, "SLICE": k}}
                hd = dict(h); hd.update(name="distrib_s%d_%02d" % (seed, k), tiers=tt, object_bits=13, cost=60,
                                        bounds="seed topology S%d; roots in {machine, both packages, package 1} x n in 0..4 (thorough 0..5) x until in {1, INT_MAX} (thorough {1, 2, INT_MAX}) x flags in {0, REVERSE} plus an unknown flag bit: concrete runs selected by symbolic inputs, dealt to slices; exactly n non-empty sets inside the roots, union = roots, disjoint when n <= PUs, order" % seed)
                HARNESSES.append(hd)
            continue
        if n == "closest": h.update(bounds="seed topology S%d; every source object (enumerated), max 0..5 symbolic" % seed)
        if n == "iterators": h.update(bounds="seed topology S%d; every depth -2..7 (enumerated); set and index symbolic" % seed)
        HARNESSES.append(h)
OUTSIDE = ["topologies other than the seeds S1-S3, S8, S12", "multi-word cpusets", "I/O-object branches of hwloc_get_obj_with_same_locality", "subtype/nameprefix filters"]

_cl = [h for h in HARNESSES if h["name"] == "closest_s1"][0]
_h = dict(_cl); _h.update(name="closest_numa_s1", entry="h_closest_numa", encoded=["hwloc_get_closest_objs (source in a special level: negative depth)"], tiers={"quick": {}, "thorough": {}},
          bounds="seed S1; the source is either NUMA node (enumerated), max 0..3 symbolic: the other NUMA node is returned, no access outside the level arrays")
HARNESSES.append(_h)

_an = [h for h in HARNESSES if h["name"] == "ancestors_s2"][0]
for _k in range(4):
    _h = dict(_an); _h.update(name="common_ancestor_any_s2_%d" % _k, entry="h_common_ancestor_any", defines={"SEED": 2, "NSLICE": 4, "SLICE": _k}, encoded=["hwloc_get_common_ancestor_obj (objects of special levels: negative depths)"], tiers={"quick": {}, "thorough": {}}, object_bits=13, cost=60, unwind=24,
              unwindset=dict(_an.get("unwindset", {}), **{"h_common_ancestor_any.0": 22, "h_common_ancestor_any.1": 22, "ca_case.0": 10, "ca_case.1": 10, "ca_walk.0": 6, "ca_walk.1": 6, "ca_walk.2": 6, "ca_walk.3": 6, "hwloc_get_common_ancestor_obj.0": 10, "hwloc_get_common_ancestor_obj.1": 10, "hwloc_get_common_ancestor_obj.2": 10, "hwloc_get_common_ancestor_obj.3": 10, "hwloc_get_common_ancestor_obj.4": 10, "hwloc_get_common_ancestor_obj.5": 10, "hwloc_get_common_ancestor_obj.6": 10, "hwloc_get_common_ancestor_obj.7": 10}),
              bounds="seed S2 (Misc, bridge/PCI/OS device, a CPU-less NUMA node): every ordered pair of its objects as concrete runs selected by symbolic inputs, dealt to 4 slices; result = first element of one parent chain that lies on the other, never NULL")
    HARNESSES.append(_h)
