"""C06 — arbitrary XML never corrupts memory: decided for the built-in tokenizer's attribute scanner on arbitrary bytes and for the
base64 decoder on arbitrary text; the import logic above the tokenizers is outside (see OUTSIDE)."""
import os, sys, importlib.util
def _load(n):
    p = os.path.join(os.path.dirname(__file__), n + ".py"); s = importlib.util.spec_from_file_location("spec_" + n, p); m = importlib.util.module_from_spec(s); s.loader.exec_module(m); return m
c05 = _load("C05")
COMMON = dict(c05.COMMON)
HARNESSES = [dict(COMMON, name="next_attr_bytes", entry="h_next_attr_bytes", checks="safety+", encoded=["hwloc__nolibxml_import_next_attr", "hwloc__nolibxml_import_ignore_spaces"],
                  tiers={"quick": {"defines": {"L": 5, "VP_MEM_BIG": 4096}, "unwind": 8}, "thorough": {"defines": {"L": 7, "VP_MEM_BIG": 4096}, "unwind": 10, "timeout": 6000}},
                  bounds="every NUL-terminated attribute buffer of 5 (7) arbitrary bytes in an exactly sized object: memory safety, 0/-1, name/value/cursor stay inside the buffer", cost=60)]
for h in c05.HARNESSES:
    if h["name"] == "base64_decode_bytes": h2 = dict(h); h2["name"] = "C05_base64_decode_bytes"; HARNESSES.append(h2)
HARNESSES += [dict(h) for h in c05.C06_EXTRA]
OUTSIDE = ["documents other than the crafted ones; the text layer composed with the import logic (the tokenizer is decided on arbitrary bytes, the import logic on crafted element trees; whole texts of thousands of characters do not conclude)",
           "libxml2 backend (foreign library code)", "diff XML loading", "hangs: termination is only covered through the unwinding assertions of the encoded loops"]

_na = [h for h in HARNESSES if h["name"] == "next_attr_bytes"][0]
for _m, _nm, _bd in ((0, "small", "caller buffers of 0, 1 and 2 arbitrary bytes handed to hwloc_topology_set_xmlbuffer's back end (incl. size 0)"), (1, "starttag", "the text <topology version=\"2.0\" followed by 0..2 arbitrary bytes (with and without the closing '>')")):
    HARNESSES.append(dict(_na, name="nolibxml_init_" + _nm, entry="h_nolibxml_init", defines=dict(_na.get("defines", {}), NIMODE=_m), encoded=["hwloc_nolibxml_backend_init", "hwloc_nolibxml_look_init", "hwloc_nolibxml_backend_exit", "sscanf (model)"],
                          tiers={"quick": {}, "thorough": {}}, bounds=_bd + "; concrete lengths selected by a symbolic input; asserted: 0/-1, no access outside the copy, the cursor stays inside it", cost=30,
                          unwindset=dict(_na.get("unwindset", {}), **{"strncmp.0": 12, "strchr.0": 40, "strlen.0": 40, "vp_strto.0": 4, "vp_strto.1": 6, "vsscanf.0": 40, "vsscanf.1": 12, "vsscanf.2": 12, "h_nolibxml_init.0": 4, "nolibxml_init_case.0": 30, "nolibxml_init_case.1": 4, "memcpy.0": 40})))
