"""C12 — dup is equivalent and independent: the leaf containers and the whole-topology copy through an instrumented allocator (DESIGN §5 C12)."""
import os, sys
sys.path.insert(0, os.path.dirname(__file__))
from _seed import seed_uw
import importlib.util, os
def _load(n):
    p = os.path.join(os.path.dirname(__file__), n + ".py"); s = importlib.util.spec_from_file_location("spec_" + n, p); m = importlib.util.module_from_spec(s); s.loader.exec_module(m); return m
COMMON = dict(src="C12_dup.c", env=["vp_alloc.c", "vp_libc.c"], units=["hwloc/bitmap.c", "hwloc/traversal.c", "hwloc/cpukinds.c"], unwind=14, checks="safety", object_bits=11, timeout=1700,
              unwindset=seed_uw(**{"strcmp.0": 24, "strlen.0": 24, "strdup.0": 24, "realloc.0": 200}),
              stubs=["seed environment stubs of vp_seed.h"], assumptions=["allocation never fails"])
HARNESSES = [
  dict(COMMON, name="cpukinds_dup", entry="h_cpukinds_dup", encoded=["hwloc_internal_cpukinds_dup", "hwloc__tma_dup_infos"], tiers={"quick": {}, "thorough": {}},
       bounds="two kinds with arbitrary disjoint cpusets over the seed PUs, arbitrary forced efficiencies, one info pair", cost=40),
]
# shared harnesses (same source, same queries) from the sibling specs: whole-topology dup through exact-size blocks, distances list, bitmap
for spec, names in (("C19", ("dup_blocks_s2",)), ("C13", ("dup",)), ("C14", ("dup", "dup_emptied")), ("C03", ("unop_dup",))):
    m = _load(spec)
    for h in m.HARNESSES:
        if h["name"] in names:
            h2 = dict(h); h2["name"] = spec + "_" + h["name"]; HARNESSES.append(h2)
OUTSIDE = ["identical XML export of the copy (C05)", "modification histories applied to either copy beyond the single mutations asserted", "destroy order / leak checking (free paths are executed only on concrete objects)"]
