"""C12 — dup is equivalent and independent: the leaf containers and the whole-topology copy through an instrumented allocator (DESIGN §5 C12)."""
import os, sys
sys.path.insert(0, os.path.dirname(__file__))
from _seed import seed_uw
import importlib.util, os
def _load(n):
    p = os.path.join(os.path.dirname(__file__), n + ".py"); s = importlib.util.spec_from_file_location("spec_" + n, p); m = importlib.util.module_from_spec(s); s.loader.exec_module(m); return m
COMMON = dict(src="C12_dup.c", env=["vp_alloc.c", "vp_libc.c"], units=["hwloc/bitmap.c", "hwloc/traversal.c", "hwloc/cpukinds.c"], unwind=14, checks="safety", object_bits=11, timeout=1700,
              unwindset=seed_uw(**{"strcmp.0": 24, "strlen.0": 24, "strdup.0": 24, "realloc.0": 200}),
              stubs=["seed environment stubs of vp_seed.h"], assumptions=["allocation never fails"])
HARNESSES = []
for nk, tiers in ((2, {"quick": {}, "thorough": {}}), (3, {"thorough": {}})):
    HARNESSES.append(dict(src="C12_cpukinds.c", env=["vp_alloc.c", "vp_libc.c"], units=["hwloc/bitmap.c", "hwloc/cpukinds.c", "hwloc/topology.c", "hwloc/traversal.c"], name="cpukinds_dup_%d" % nk, entry="h_cpukinds_dup", defines={"NK": nk},
        unwind=10, unwindset={"strlen.0": 12, "strcpy.0": 12}, checks="safety", object_bits=11, timeout=900, encoded=["hwloc_internal_cpukinds_dup", "hwloc__tma_dup_infos", "hwloc_bitmap_tma_dup"], tiers=tiers,
        stubs=["table built directly in its representation (registration: C15)"], assumptions=["allocation never fails"],
        bounds="%d kinds with arbitrary 1-word cpusets, efficiencies, ranking values; one info pair in a half-full array" % nk, cost=20))
MINI_UW = dict({"vp_mini_build_at.%d" % k: 24 for k in range(12)}, **{"strlen.0": 8, "strcpy.0": 8, "strcmp.0": 8, "served.0": 162, "hwloc__topology_dup.0": 24, "hwloc__topology_dup.1": 24, "hwloc__topology_dup.2": 24,
               "hwloc__topology_init.0": 24, "hwloc__topology_filter_init.0": 24, "hwloc_reset_normal_type_depths.0": 24, "hwloc_connect_levels.0": 24, "hwloc_connect_levels.1": 24, "hwloc_connect_levels.2": 24,
               "hwloc_connect_levels.3": 24, "hwloc_connect_levels.4": 24, "hwloc_connect_levels.5": 24, "hwloc_connect_special_levels.0": 24, "hwloc_connect_special_levels.1": 24, "hwloc_topology_setup_defaults.0": 24})
DUPF = ["hwloc__topology_dup", "hwloc__topology_init", "hwloc__duplicate_object", "hwloc_bitmap_tma_dup", "hwloc__tma_dup_infos", "hwloc_tma_strdup", "hwloc_tma_calloc", "hwloc_connect_children", "hwloc_connect_levels", "hwloc_internal_distances_dup", "hwloc_internal_memattrs_dup", "hwloc_internal_cpukinds_dup"]
for nl, tiers in ((5, {"quick": {}, "thorough": {}}), (0, {"thorough": {}}), (1, {"thorough": {}})):
    HARNESSES.append(dict(src="C12_dup_blocks.c", env=["vp_alloc.c", "vp_libc.c"], units=["hwloc/bitmap.c", "hwloc/traversal.c", "hwloc/topology.c", "hwloc/distances.c", "hwloc/memattrs.c", "hwloc/cpukinds.c"],
        name="dup_blocks_mini_n%d" % nl, entry="h_dup_blocks", defines={"NAMELEN": nl}, unwind=10, unwindset=MINI_UW, checks="safety", object_bits=12, timeout=1700, encoded=DUPF, tiers=tiers,
        stubs=["topology: the hand-linked 9-object topology of vp_mini.h + a name of %d bytes, a subtype, half-full info arrays on an object and on the topology" % nl, "allocator: every tma request served by a recorded heap object of exactly the requested size", "components/backends/binding hooks: empty"],
        assumptions=["allocation never fails"], bounds="one topology (9 objects); name of %d bytes; the run is concrete: CBMC acts as a bounds-checking interpreter of the whole duplication" % nl, cost=60))
# shared harnesses (same source, same queries) from the sibling specs: whole-topology dup through exact-size blocks, distances list, bitmap
for spec, names in (("C13", ("dup",)), ("C14", ("dup", "dup_emptied")), ("C03", ("unop_dup",))):
    m = _load(spec)
    for h in m.HARNESSES:
        if h["name"] in names:
            h2 = dict(h); h2["name"] = spec + "_" + h["name"]; HARNESSES.append(h2)
_c5 = _load("C05")
for h in _c5.C12_EXTRA: h2 = dict(h); h2["name"] = "C05_" + h["name"]; HARNESSES.append(h2)
OUTSIDE = [ "modification histories applied to either copy beyond the single mutations asserted", "destroy order / leak checking (free paths are executed only on concrete objects)"]
