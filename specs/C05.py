"""C05 — XML round trip, decided for the leaf mechanisms that carry arbitrary bytes (base64, attribute escaping, userdata).
Whole-topology export -> import is outside the reach of bounded symbolic execution (see OUTSIDE)."""
SRC = "C05_xmlunits.c"
COMMON = dict(src=SRC, env=["vp_alloc.c", "vp_libc.c"], units=["hwloc/bitmap.c"], defines={"VP_MEM_BIG": 4096}, unwind=10, checks="safety", object_bits=10, timeout=1500,
              unwindset={"strlen.0": 24, "strcpy.0": 8, "strcspn.0": 26, "strcspn.1": 10, "strspn.0": 30, "strspn.1": 30, "strncmp.0": 8, "strcmp.0": 10, "strncpy.0": 18, "strchr.0": 70, "vp_strto.0": 8, "vp_strto.1": 12, "x_add_content.0": 17, "x_new_prop.0": 17, "x_new_prop.1": 17, "import_cb.0": 10, "strncpy.1": 18},
              stubs=["newlocale/uselocale/freelocale, getenv, component registry: no-ops", "strcspn/strspn/strtoul/sprintf: env/vp_libc.c models (tested against glibc each run)"],
              assumptions=["allocation never fails"])
B64 = ["hwloc_encode_to_base64", "hwloc_decode_from_base64"]
HARNESSES = []
for l, tiers in ((0, {"quick": {}, "thorough": {}}), (1, {"quick": {}, "thorough": {}}), (2, {"quick": {}, "thorough": {}}), (3, {"quick": {}, "thorough": {}}), (4, {"thorough": {}}), (5, {"thorough": {}}), (6, {"thorough": {}})):
    HARNESSES.append(dict(COMMON, core=(l <= 4), name="base64_roundtrip_%d" % l, entry="h_base64_roundtrip", defines={"L": l, "VP_MEM_BIG": 4096}, encoded=B64, tiers=tiers, bounds="every byte string of length %d (exhaustive over lengths 0..3 quick, 0..6 thorough: all residues mod 3)" % l, cost=10))
HARNESSES.append(dict(COMMON, name="base64_decode_bytes", entry="h_base64_decode_bytes", encoded=["hwloc_decode_from_base64"], checks="safety+", tiers={"quick": {"defines": {"L": 4, "VP_MEM_BIG": 4096}}, "thorough": {"defines": {"L": 6, "VP_MEM_BIG": 4096}}}, bounds="every NUL-terminated text of 4 (6) arbitrary bytes, target size 0..4", cost=20))
for l, tiers in ((1, {"quick": {}, "thorough": {}}), (2, {"quick": {}, "thorough": {}}), (3, {"thorough": {"timeout": 4000}})):
    HARNESSES.append(dict(COMMON, core=(l <= 2), name="escape_roundtrip_%d" % l, entry="h_escape_roundtrip", defines={"L": l, "VP_MEM_BIG": 4096}, unwind=6 * l + 4, encoded=["hwloc__nolibxml_export_escape_string", "hwloc__nolibxml_import_next_attr", "hwloc__nolibxml_import_ignore_spaces"], tiers=tiers,
                          bounds="every string of %d non-NUL bytes" % l, cost=40))
for b64 in (1, 0):
    for l, tiers in ((0, {"quick": {}, "thorough": {}}), (1, {"thorough": {}}), (2, {"quick": {}, "thorough": {}}), (3, {"quick": {}, "thorough": {}}), (4, {"thorough": {}})):
      for named in ((0, 1) if l in (0, 3) else (0,)):
        HARNESSES.append(dict(COMMON, name="userdata_%s_%d%s" % ("base64" if b64 else "plain", l, "_named" if named else ""), entry="h_userdata_roundtrip", defines={"L": l, "B64": b64, "NAMED": named, "VP_MEM_BIG": 4096},
                              encoded=(["hwloc_export_obj_userdata_base64"] if b64 else ["hwloc_export_obj_userdata", "hwloc__xml_export_check_buffer"]) + ["hwloc__export_obj_userdata", "hwloc__xml_import_userdata"] + (B64 if b64 else []), tiers=tiers,
                              stubs=COMMON["stubs"] + ["XML backend: a recording export backend and a replaying import backend obeying the get_content contract of private/xml.h"],
                              bounds="userdata of %d %s bytes, %s" % (l, "arbitrary" if b64 else "printable", "named" if named else "anonymous"), cost=20))
OUTSIDE = ["export -> import of whole topologies (tree, sets, attributes, distances, memory attributes, CPU kinds): the text is thousands of characters long, far beyond what bounded symbolic execution of the printers and tokenizers concludes on",
           "libxml2 backend (foreign library code), file I/O, v2 format, byte-identical re-export"]
