"""C05 — XML round trip, decided for the leaf mechanisms that carry arbitrary bytes (base64, attribute escaping, userdata).
Whole-topology export -> import is outside the reach of bounded symbolic execution (see OUTSIDE)."""
SRC = "C05_xmlunits.c"
COMMON = dict(src=SRC, env=["vp_alloc.c", "vp_libc.c"], units=["hwloc/bitmap.c"], defines={"VP_MEM_BIG": 4096}, unwind=10, checks="safety", object_bits=10, timeout=1500,
              unwindset={"strlen.0": 24, "strcpy.0": 8, "strcspn.0": 26, "strcspn.1": 10, "strspn.0": 30, "strspn.1": 30, "strncmp.0": 8, "strcmp.0": 10, "strncpy.0": 18, "strchr.0": 70, "vp_strto.0": 8, "vp_strto.1": 12, "x_add_content.0": 17, "x_new_prop.0": 17, "x_new_prop.1": 17, "import_cb.0": 10, "strncpy.1": 18},
              stubs=["newlocale/uselocale/freelocale, getenv, component registry: no-ops", "strcspn/strspn/strtoul/sprintf: env/vp_libc.c models (tested against glibc each run)"],
              assumptions=["allocation never fails"])
B64 = ["hwloc_encode_to_base64", "hwloc_decode_from_base64"]
HARNESSES = []
for l, tiers in ((0, {"quick": {}, "thorough": {}}), (1, {"quick": {}, "thorough": {}}), (2, {"quick": {}, "thorough": {}}), (3, {"quick": {}, "thorough": {}}), (4, {"thorough": {}}), (5, {"thorough": {}}), (6, {"thorough": {}})):
    HARNESSES.append(dict(COMMON, core=(l <= 4), name="base64_roundtrip_%d" % l, entry="h_base64_roundtrip", defines={"L": l, "VP_MEM_BIG": 4096}, encoded=B64, tiers=tiers, bounds="every byte string of length %d (exhaustive over lengths 0..3 quick, 0..6 thorough: all residues mod 3)" % l, cost=10))
HARNESSES.append(dict(COMMON, name="base64_decode_bytes", entry="h_base64_decode_bytes", encoded=["hwloc_decode_from_base64"], checks="safety+", tiers={"quick": {"defines": {"L": 4, "VP_MEM_BIG": 4096}}, "thorough": {"defines": {"L": 6, "VP_MEM_BIG": 4096}}}, bounds="every NUL-terminated text of 4 (6) arbitrary bytes, target size 0..4", cost=20))
for l, tiers in ((1, {"quick": {}, "thorough": {}}), (2, {"quick": {}, "thorough": {}}), (3, {"thorough": {"timeout": 4000}})):
    HARNESSES.append(dict(COMMON, core=(l <= 2), name="escape_roundtrip_%d" % l, entry="h_escape_roundtrip", defines={"L": l, "VP_MEM_BIG": 4096}, unwind=6 * l + 4, encoded=["hwloc__nolibxml_export_escape_string", "hwloc__nolibxml_import_next_attr", "hwloc__nolibxml_import_ignore_spaces"], tiers=tiers,
                          bounds="every string of %d non-NUL bytes" % l, cost=40))
for b64 in (1, 0):
    for l, tiers in ((0, {"quick": {}, "thorough": {}}), (1, {"thorough": {}}), (2, {"quick": {}, "thorough": {}}), (3, {"quick": {}, "thorough": {}}), (4, {"thorough": {}})):
      for named in ((0, 1) if l in (0, 3) else (0,)):
        HARNESSES.append(dict(COMMON, name="userdata_%s_%d%s" % ("base64" if b64 else "plain", l, "_named" if named else ""), entry="h_userdata_roundtrip", defines={"L": l, "B64": b64, "NAMED": named, "VP_MEM_BIG": 4096},
                              encoded=(["hwloc_export_obj_userdata_base64"] if b64 else ["hwloc_export_obj_userdata", "hwloc__xml_export_check_buffer"]) + ["hwloc__export_obj_userdata", "hwloc__xml_import_userdata"] + (B64 if b64 else []), tiers=tiers,
                              stubs=COMMON["stubs"] + ["XML backend: a recording export backend and a replaying import backend obeying the get_content contract of private/xml.h"],
                              bounds="userdata of %d %s bytes, %s" % (l, "arbitrary" if b64 else "printable", "named" if named else "anonymous"), cost=20))
# ---- the common XML code above the text layer, run against an in-memory element tree (vp_xmltree.h) -------------------------------
import os as _os, sys as _sys
_sys.path.insert(0, _os.path.dirname(__file__))
from _seed import seed_uw as _seed_uw
XT_UW = _seed_uw(**{"strcmp.0": 48, "strlen.0": 40, "strdup.0": 40, "strcpy.0": 40, "realloc.0": 200, "strcasecmp.0": 24, "strncmp.0": 24, "strncasecmp.0": 24, "strchr.0": 40,
                    "tt_strndup.0": 64, "tt_strdup.0": 64, "tt_get.0": 22, "tt_bind.0": 26, "tt_of.0": 26, "tt_equal.0": 22, "tt_equal.1": 20, "tt_rewind.0": 20, "memcmp.0": 64,
                    "hwloc__xml_export_safestrdup.0": 40})
XT = dict(src="C05_xmltree.c", env=["vp_alloc.c", "vp_libc.c"], units=["hwloc/bitmap.c", "hwloc/traversal.c", "hwloc/distances.c", "hwloc/memattrs.c", "hwloc/cpukinds.c"], unwind=24, checks="safety", object_bits=13, timeout=1700,
          unwindset=XT_UW, fs_array=256, typed_realloc=True,
          stubs=["XML back end: an in-memory element tree with the cursor semantics of the built-in parser (find_child/close_child, get_content length contract, close_tag refuses unconsumed children or content)",
                 "seed environment stubs of vp_seed.h", "newlocale/uselocale/freelocale, getenv, component registry: no-ops"],
          assumptions=["allocation never fails"])
XT_ENC = ["hwloc__xml_export_topology", "hwloc__xml_v2export_object", "hwloc__xml_export_object_contents", "hwloc__xml_export_info_attr", "hwloc__xml_export_infos", "hwloc_look_xml", "hwloc__xml_import_object", "hwloc__xml_import_object_attr", "hwloc__xml_import_obj_info", "hwloc___xml_import_info", "hwloc__xml_import_pagetype",
          "hwloc_insert_object_by_parent", "hwloc_discover", "hwloc_bitmap_asprintf", "hwloc_bitmap_sscanf", "hwloc_type_sscanf"]
for nm, d, extra, tiers in (("xml_roundtrip_tree", {"FIX": 0}, [], {"quick": {}, "thorough": {}}),
                            ("xml_roundtrip_disallowed", {"FIX": 0, "FIXD": 1}, [], {"quick": {}, "thorough": {}}),
                            ("xml_roundtrip_rich", {"FIX": 1, "FIXM": 95}, [], {"quick": {}, "thorough": {}}),
                            ("xml_roundtrip_rich_v2", {"FIX": 1, "FIXM": 95, "XFLAGS": "1UL"}, [], {"quick": {}, "thorough": {}}),
                            ("xml_roundtrip_io", {"FIX": 1, "FIXM": 32}, [], {"thorough": {"timeout": 3000}}),
                            ("xml_roundtrip_distances", {"FIX": 0, "WITH_DIST": 2}, ["hwloc___xml_v2export_distances", "hwloc__xml_v2export_distances", "hwloc__xml_import_distances", "hwloc_internal_distances_add_by_index", "hwloc_internal_distances_refresh"], {"quick": {}, "thorough": {}}),
                            ("xml_roundtrip_memattrs_cpuset", {"FIX": 0, "WITH_MEMATTR": 2}, ["hwloc__xml_export_memattrs", "hwloc__xml_import_memattr"], {"thorough": {"timeout": 2400}}),
                            ("xml_roundtrip_memattrs_api", {"FIX": 0, "WITH_MEMATTR": 1}, ["hwloc__xml_export_memattrs", "hwloc__xml_import_memattr", "hwloc_memattr_set_value"], {"thorough": {"timeout": 2400}}),
                            ("xml_roundtrip_memattrs", {"FIX": 0, "WITH_MEMATTR": 3}, ["hwloc__xml_export_memattrs", "hwloc__xml_export_memattr_target", "hwloc__xml_import_memattr", "hwloc__xml_import_memattr_value", "hwloc_internal_memattr_set_value"], {"thorough": {"timeout": 2400}}),
                            ("xml_roundtrip_cpukinds", {"FIX": 0, "WITH_CPUKINDS": 1}, ["hwloc__xml_export_cpukinds", "hwloc__xml_import_cpukind", "hwloc_internal_cpukinds_register", "hwloc_internal_cpukinds_rank"], {"quick": {}, "thorough": {}})):
    HARNESSES.append(dict(XT, name=nm, entry="h_xml_roundtrip", defines=d, encoded=XT_ENC + extra, tiers=tiers, cost=120,
                          bounds="one fixture topology built by the real core (%s); the run is concrete: CBMC interprets export -> element tree -> import inside the real discovery pipeline -> comparison -> re-export, checking every access" % ("8 objects: a disallowed PU that only remains in the complete_ cpusets" if d.get("FIXD") else "9 objects" if d.get("FIX") == 0 else "9 objects + bridge/PCI/OS device" if d.get("FIXM") == 32 else "13 objects: L2, Group(dont_merge), memory-side cache, page types, Misc, names, subtype, object and topology infos"),
                          core=(d.get("FIXM") != 32 and not d.get("WITH_MEMATTR"))))
XI = dict(XT, unwind=12)
XI["unwindset"] = dict(XT_UW, **dict({"h_import_distances.%d" % k: 18 for k in range(6)}, **{"dist_case.0": 5, "dist_case.1": 5, "dist_case.2": 5, "dist_case.3": 5, "dist_case.4": 17, "dist_case.5": 17}))
C06_EXTRA = []      # the crafted-input harnesses belong to C06 (specs/C06.py takes them from here)
def _sliced(base, n, nt=None):
    """n quick slices, nt thorough slices (deeper enumerations are dealt to more slices: the cost per run grows with the runs in a slice)"""
    nt = nt or n
    for k in range(max(n, nt)):
        h = dict(base); h["name"] = "%s_s%d" % (base["name"], k); tiers = {}
        if k < n and "quick" in base["tiers"]: tiers["quick"] = dict(base["tiers"]["quick"], defines=dict(base["tiers"]["quick"].get("defines", {}), NSLICE=n, SLICE=k))
        if k < nt and "thorough" in base["tiers"]: tiers["thorough"] = dict(base["tiers"]["thorough"], defines=dict(base["tiers"]["thorough"].get("defines", {}), NSLICE=nt, SLICE=k))
        h["tiers"] = tiers
        h["bounds"] = base["bounds"] + " [one slice of the enumerated runs: %d slices quick, %d thorough]" % (n, nt)
        C06_EXTRA.append(h)
for het in (0, 1):
    for ver, ns in ((3, 6), (2, 2)):
        _sliced(dict(XI, name="xml_import_distances%s_v%d" % ("_hetero" if het else "", ver), entry="h_import_distances", checks="safety+", encoded=["hwloc__xml_import_distances", "hwloc___xml_import_info", "hwloc_internal_distances_add_by_index", "hwloc_type_sscanf"],
                    tiers={"quick": {"defines": {"HET": het, "DVER": ver, "DSEQ": 2, "DNB": 2}}, "thorough": {"defines": {"HET": het, "DVER": ver, "DSEQ": 3 if ver == 3 else 2, "DNB": 2}, "timeout": 5000}}, cost=100,
                    bounds="<distances2%s> of a version-%d document with nbobjs=2: %s all 16 subsets of {name, latency kind, indexing, type} on the complete document; concrete runs selected by symbolic inputs; reference: the documented format" % ("hetero" if het else "", ver, "every sequence of up to 2 (thorough: 3) children over {indexes with 1/2/3 entries, u64values with 1/2/4 entries, info}, and" if ver == 3 else "")), ns, 30 if ver == 3 else ns)
_sliced(dict(XI, name="xml_import_cpukind", entry="h_import_cpukind", checks="safety+", encoded=["hwloc__xml_import_cpukind", "hwloc___xml_import_info", "hwloc_internal_cpukinds_register", "hwloc__add_info", "hwloc__free_infos", "hwloc_bitmap_sscanf"],
             unwindset=dict(XT_UW, **{"h_import_cpukind.%d" % k: 7 for k in range(6)}), tiers={"quick": {}, "thorough": {}}, cost=60,
             bounds="<cpukind> elements: cpuset in {valid, empty, unparsable, missing, second kind} x forced_efficiency in {none, 5, -1} x {plain, unknown attribute, unknown child, info without value, complete info} x NO_CPUKINDS, optionally after a first registered kind; concrete runs selected by symbolic inputs (ownership of the cpuset and of the info array on every path: no leak into a double free)"), 8)
_sliced(dict(XI, name="xml_import_memattr", entry="h_import_memattr", checks="safety+", encoded=["hwloc__xml_import_memattr", "hwloc__xml_import_memattr_value", "hwloc___xml_import_info", "hwloc_memattr_register", "hwloc_memattr_get_by_name", "hwloc_internal_memattr_set_value", "hwloc__memattr_get_target", "hwloc__memattr_target_get_initiator"],
             unwindset=dict(XT_UW, **{"h_import_memattr.%d" % k: 12 for k in range(6)}), tiers={"quick": {}, "thorough": {}}, cost=80,
             bounds="<memattr> elements: name in {built-in Bandwidth, new, missing} x flags in {5, 1, 3, missing} x 10 kinds of <memattr_value> (cpuset/object/no initiator, missing or unknown target type, missing value, unknown attribute, unknown or incomplete initiator) x NO_MEMATTRS, plus {unknown attribute, unknown child, info child}; concrete runs selected by symbolic inputs on a fresh attribute table"), 8)
C12_EXTRA = [dict(XT, name="xml_dup_export_%s" % nm, entry="h_xml_dup_export", defines=d, encoded=["hwloc_topology_dup", "hwloc__topology_dup", "hwloc__duplicate_object", "hwloc_internal_distances_dup", "hwloc_internal_cpukinds_dup", "hwloc_internal_memattrs_dup", "hwloc__tma_dup_infos", "hwloc__xml_export_topology", "hwloc_topology_destroy", "hwloc_topology_clear", "hwloc_free_unlinked_object", "hwloc_internal_distances_destroy", "hwloc_internal_cpukinds_destroy"],
                  unwindset=dict(XT_UW, **{"h_xml_dup_export.0": 18}), tiers={"quick": {}, "thorough": {}}, cost=120,
                  bounds="one fixture topology built by the real core (%s) duplicated by the real hwloc_topology_dup: field-by-field comparison, userdata pointers, identical exported document, then both destroyed (%s first): a block shared by the two copies would be freed twice (concrete run)" % (txt, "original" if d.get("DESTROY_ORDER", 0) == 0 else "copy"))
             for nm, d, txt in (("rich", {"FIX": 1, "FIXM": 95}, "13 objects: L2, Group, memory-side cache, page types, Misc, names, subtype, infos"), ("tables", {"FIX": 0, "WITH_DIST": 1, "WITH_CPUKINDS": 1, "DESTROY_ORDER": 1}, "9 objects + a distances matrix + two CPU kinds with infos"))]
XD = dict(XT, units=XT["units"] + ["hwloc/diff.c"])
C16_EXTRA = [dict(XD, name="xml_diff_roundtrip_e%d" % e, entry="h_xml_diff_roundtrip", defines={"DENTRY": e}, encoded=["hwloc__xml_export_diff", "hwloc__xml_import_diff", "hwloc__xml_import_diff_one"], tiers=({"quick": {}, "thorough": {}} if e == 0 else {"thorough": {"timeout": 900}}), core=(e == 0), mem_gb=(16 if e == 0 else 8), cost=20,
                  bounds="one diff entry (%s) through the real exporter, an element tree and the real importer: same entry (concrete run)" % ["64-bit size change on a special (negative) depth", "name change", "info change"][e]) for e in (0, 1, 2)]
C06_EXTRA.append(dict(XD, name="xml_import_diff", entry="h_import_diff", checks="safety+", encoded=["hwloc__xml_import_diff", "hwloc__xml_import_diff_one", "hwloc_topology_diff_destroy"], unwindset=dict(XT_UW, **{"h_import_diff.0": 11}), tiers={"quick": {}, "thorough": {}}, cost=30,
                      bounds="9 crafted <diff> elements (complete, missing type/depth/value/name, unknown attribute, other diff type, unknown attribute type, unknown element): 0/-1, nothing imported from an incomplete entry, what is imported can be destroyed"))
C06_EXTRA.append(dict(XT, name="xml_load_failure", entry="h_load_failure", encoded=["hwloc_topology_load", "hwloc_discover", "hwloc_look_xml", "hwloc_topology_clear", "hwloc_topology_setup_defaults", "hwloc_topology_set_flags", "hwloc_topology_set_type_filter"], tiers={"quick": {}, "thorough": {}}, cost=60,
                      stubs=XT["stubs"] + ["component enabling, this-system detection, binding hooks: no-ops (the backend is the element-tree XML backend)"],
                      bounds="the REAL hwloc_topology_load on a refused 3-object document, then reconfiguration and a second load from a valid document (concrete run): the documented 'reinitialized, may be configured and loaded again'"))
for lo in range(0, 36, 3):
    C06_EXTRA.append(dict(XT, name="xml_documents_%02d" % lo, entry="h_xml_documents", defines={"DOC_LO": lo, "DOC_HI": min(lo + 2, 34)}, encoded=["hwloc_look_xml", "hwloc__xml_import_object", "hwloc__xml_import_object_attr", "hwloc__xml_import_obj_info", "hwloc__xml_import_pagetype", "hwloc_discover", "hwloc_topology_clear", "hwloc_topology_setup_defaults", "hwloc_filter_levels_keep_structure"],
                          unwindset=dict(XT_UW, **{"h_xml_documents.0": 5}), tiers={"quick": {}, "thorough": {}}, cost=90,
                          bounds="crafted documents %d..%d of 34 (a 4-object base document with one defect or one unusual but legal feature each: PU/NUMA set mismatches, missing or misplaced sets, illegal parent/child kinds, bad cache depth, unknown types/tags/attributes, missing root nodeset, out-of-order children, future types, mergeable Group, page types, incomplete distances) through the real hwloc_look_xml inside the real discovery pipeline; on success the independent C01 checker, on failure the clean-up of hwloc_topology_load" % (lo, min(lo + 2, 33))))
OUTSIDE = ["export -> import of whole topologies (tree, sets, attributes, distances, memory attributes, CPU kinds): the text is thousands of characters long, far beyond what bounded symbolic execution of the printers and tokenizers concludes on",
           "libxml2 backend (foreign library code), file I/O, v2 format, byte-identical re-export"]
