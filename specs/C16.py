"""C16 — topology diffs (DESIGN §5 C16)."""
import os, sys
sys.path.insert(0, os.path.dirname(__file__))
from _seed import seed_uw
SRC = "C16_diff.c"
COMMON = dict(src=SRC, env=["vp_alloc.c", "vp_libc.c"], units=["hwloc/bitmap.c", "hwloc/traversal.c"], unwind=14, checks="safety", object_bits=11, timeout=1700,
              unwindset=seed_uw(**{"strcmp.0": 16, "strlen.0": 16, "strdup.0": 16, "realloc.0": 40}),
              stubs=["seed environment stubs of vp_seed.h (no distances/memattrs/cpukinds in the seed)", "realloc: concrete model during set-up"],
              assumptions=["allocation never fails", "hand-built diff entries carry non-NULL strings (the documented type)"])
APPLY = ["hwloc_topology_diff_apply", "hwloc_apply_diff_one", "hwloc_get_obj_by_depth"]
BUILD = ["hwloc_topology_diff_build", "hwloc_diff_trees", "hwloc_append_diff_obj_attr_string", "hwloc_append_diff_obj_attr_uint64", "hwloc_append_diff_too_complex", "hwloc_append_diff"]
HARNESSES = [
  dict(COMMON, name="apply_2", entry="h_apply", encoded=APPLY, tiers={"quick": {"defines": {"NE": 2}}, "thorough": {"defines": {"NE": 2}}},
       bounds="seed S1 + names/infos from a 3-string pool; arbitrary diff list of <= 2 entries (entry type, target, attribute type, strings, 64-bit values, flags symbolic)", witness=False),
  dict(COMMON, name="apply_3", entry="h_apply", encoded=APPLY, tiers={"quick": {"defines": {"NE": 3}}, "thorough": {"defines": {"NE": 3}}},
       bounds="as apply_2 with <= 3 entries (needed for chained edits followed by a failing entry)", cost=60),
  dict(COMMON, name="build", entry="h_build", encoded=BUILD + APPLY, tiers={"quick": {}, "thorough": {}},
       bounds="pair (A, B): B = S1 with any combination of rename / info value / topology info value / local memory delta (any 64-bit), and at most one non-representable edit out of 5 kinds", cost=60),
]
OUTSIDE = ["diff XML export/load (refname)", "distances/memattr/cpukind comparison branches of diff_build (empty in the seed)", "lists longer than 3 entries"]
