"""C16 — topology diffs (DESIGN §5 C16)."""
SRC = "C16_diff.c"
COMMON = dict(src=SRC, env=["vp_alloc.c", "vp_libc.c"], units=["hwloc/bitmap.c", "hwloc/traversal.c", "hwloc/topology.c"], unwind=8, checks="safety", object_bits=11, timeout=1700,
              unwindset={"strcmp.0": 4, "strlen.0": 4, "vp_mini_build_at.0": 24, "vp_mini_build_at.1": 24, "vp_mini_build_at.2": 24, "vp_mini_build_at.3": 24, "vp_mini_build_at.4": 24, "vp_mini_build_at.5": 24, "vp_mini_build_at.6": 24, "vp_mini_build_at.7": 24, "vp_mini_build_at.8": 24, "vp_mini_build_at.9": 24, "vp_mini_build_at.10": 24, "hwloc_topology_diff_apply.0": 5, "hwloc_topology_diff_apply.1": 2, "hwloc_topology_diff_apply.2": 3},
              stubs=["topology: the hand-linked 9-object topology of vp_mini.h (accepted by the real hwloc_topology_check in the native self-test)", "distances/memattrs refresh: empty (none in the state)", "realloc: concrete model during set-up"],
              assumptions=["allocation never fails", "hand-built diff entries carry non-NULL strings (the documented type)"])
APPLY = ["hwloc_topology_diff_apply", "hwloc_apply_diff_one", "hwloc_get_obj_by_depth"]
BUILD = ["hwloc_topology_diff_build", "hwloc_diff_trees", "hwloc_append_diff_obj_attr_string", "hwloc_append_diff_obj_attr_uint64", "hwloc_append_diff_too_complex", "hwloc_append_diff"]
HARNESSES = [
  dict(COMMON, name="mini_ok", entry="h_mini_ok", encoded=["(self-test of the hand-linked topology; natively through hwloc_topology_check)"], tiers={"quick": {}, "thorough": {}}, bounds="concrete"),
]
SCRIPTS = ["info,info,info on PU0", "size NUMA0, name Package0, info topology", "name,name Package0, size NUMA0", "size,size NUMA0, missing object",
           "info topology, size on a PU, unknown attribute", "info PU0, size/name addressed to the topology"]
for k, what in enumerate(SCRIPTS):
  HARNESSES.append(dict(COMMON, name="apply_s%d" % k, entry="h_apply", encoded=APPLY, defines={"SCRIPT": k, "NE": 3}, tiers={"quick": {}, "thorough": {}},
       bounds="list of 1..3 entries addressing [%s] (fixed script); symbolic: list length, last entry's type (attr/too-complex/unknown), strings from a 3-string pool, info name k/t, 64-bit old/new values, flags 0..3" % what, cost=30))
for e in range(16):
  tiers = {"thorough": {"timeout": 5000}}
  if e in (0, 1, 2, 4, 8): tiers["quick"] = {}
  HARNESSES.append(dict(COMMON, name="build_e%d" % e, entry="h_build", encoded=BUILD + APPLY, defines={"EDITS": e, "NONREP": 0}, tiers=tiers,
       bounds="pair (A, B = copy edited on the attribute subset mask %d of {Package0 name, PU0 info, topology info, NUMA0 local memory}); new strings from the pool, any non-zero 64-bit memory delta" % e, cost=30))
NR = ["", "an extra info on one side", "name unset on B", "name unset on A", "a complete_cpuset changed", "an os_index changed"]
for k in range(1, 6):
  HARNESSES.append(dict(COMMON, name="build_nonrep%d" % k, entry="h_build", encoded=BUILD, defines={"EDITS": 15, "NONREP": k}, tiers={"quick": {}, "thorough": {}},
       bounds="pair (A, B) with all four representable edits (symbolic values) plus: %s" % NR[k], cost=30))
for _w, _nm in ((0, "obj"), (1, "topo")):
  HARNESSES.append(dict(COMMON, name="build_dup_%s" % _nm, entry="h_build_dup", encoded=BUILD + APPLY, defines={"DUPWHERE": _w}, object_bits=13, tiers={"quick": {"defines": {"DUPV": 2}}, "thorough": {"defines": {"DUPV": 2}}},
       bounds="pair (A, B) with two infos of the SAME name on %s, each of the four values any of 2 (thorough: 3) strings: when build returns 0 the diff must apply, make A equal to B position by position, leave an empty diff, and reverse; otherwise TOO_COMPLEX" % ("PU1" if _w == 0 else "the topology"), cost=30))
for _w, _nm in ((0, "obj"), (1, "topo")):
  for _k in range(9):
    HARNESSES.append(dict(COMMON, name="build_dup3_%s_s%d" % (_nm, _k), entry="h_build_dup", encoded=BUILD + APPLY, defines={"DUPWHERE": _w, "DUPV": 3, "NSLICE": 9, "SLICE": _k}, object_bits=13, tiers={"thorough": {"timeout": 2000}},
         bounds="as build_dup_%s with 3 strings per value (81 pairs dealt to 9 slices; the 81 runs in one query did not end in 50 min)" % _nm, cost=60))
HARNESSES.append(dict(COMMON, name="build_distances", entry="h_build_dist", encoded=BUILD + ["distances comparison of hwloc_topology_diff_build"], tiers={"quick": {}, "thorough": {}},
       unwindset=dict(COMMON["unwindset"], **{"memcmp.0": 40}), bounds="two identical topologies, one 2x2 distances structure on each side with arbitrary values and kinds", cost=20))
# diff export -> import through the common XML code (element-tree harness of C05: same source, same query)
import importlib.util as _iu, os as _os
_s = _iu.spec_from_file_location("spec_C05", _os.path.join(_os.path.dirname(__file__), "C05.py")); _m5 = _iu.module_from_spec(_s); _s.loader.exec_module(_m5)
for _h in _m5.C16_EXTRA: _h2 = dict(_h); _h2["name"] = "C05_" + _h["name"]; HARNESSES.append(_h2)
OUTSIDE = ["diff XML export/load (refname)", "memattr/cpukind comparison branches of diff_build (empty in the state)", "lists longer than 3 entries"]
