"""Unwind bounds shared by the seed-based harnesses (vp_seed.h): the concrete set-up phase needs the loops over the 20
object types / 16 levels fully unwound, everything else stays at the small per-spec --unwind (unwinding assertions make
an insufficient bound a reported failure)."""
SEED_UW = {"hwloc__topology_filter_init.0": 24, "hwloc_reset_normal_type_depths.0": 24, "hwloc_connect_levels.0": 24, "hwloc_connect_levels.1": 24,
           "hwloc_connect_levels.2": 24, "hwloc_connect_levels.3": 24, "hwloc_connect_levels.4": 24, "hwloc_connect_levels.5": 24,
           "hwloc_connect_special_levels.0": 24, "hwloc_connect_special_levels.1": 24, "hwloc_set_group_depth.0": 24, "hwloc_set_group_depth.1": 24,
           "hwloc_topology_setup_defaults.0": 24, "strlen.0": 24, "strcpy.0": 24, "strdup.0": 24, "hwloc__topology_dup.0": 24, "hwloc__topology_dup.1": 24, "hwloc__topology_dup.2": 24,
           "hwloc_filter_levels_keep_structure.0": 24, "hwloc_filter_levels_keep_structure.1": 24, "hwloc_topology_clear.0": 24}
for _k in range(10): SEED_UW["vp_seed_build.%d" % _k] = 17
def seed_uw(**extra):
    d = dict(SEED_UW); d.update(extra); return d
