"""C07 — synthetic descriptions (DESIGN §5 C07)."""
import os, sys
sys.path.insert(0, os.path.dirname(__file__))
from _seed import seed_uw
SRC = "C07_synthetic.c"
COMMON = dict(src=SRC, env=["vp_alloc.c", "vp_libc.c"], units=["hwloc/bitmap.c", "hwloc/traversal.c"], unwind=14, checks="safety", object_bits=11, timeout=1700, fs_array=300,
              unwindset=seed_uw(**{"strcmp.0": 8, "strncmp.0": 8, "hwloc__type_match.0": 20, "strchr.0": 70, "strspn.0": 40, "strspn.1": 14, "vp_strto.0": 6, "vp_strto.1": 12, "strncasecmp.0": 8}),
              stubs=["getenv: no environment variable", "strtoul/strspn/strchr: env/vp_libc.c models or CBMC's", "seed environment stubs of vp_seed.h"],
              assumptions=["allocation never fails"])
PARSE = ["hwloc_backend_synthetic_init", "hwloc_synthetic_parse_attrs", "hwloc_synthetic_set_default_attrs", "hwloc_synthetic_process_indexes", "hwloc_synthetic_free_levels", "hwloc_type_sscanf"]
HARNESSES = []
MAXQ = 6
def init_uw(n):
    d = dict(COMMON["unwindset"]); d.update({"hwloc_backend_synthetic_init.%d" % k: n for k in range(14)}); d.update({"h_depth.%d" % k: n for k in range(4)}); d.update({"hwloc_synthetic_free_levels.0": n, "strlen.0": 8 * n + 8, "strchr.0": 8 * n + 8, "strcpy.0": 8 * n + 8}); return d
for ng in range(0, MAXQ + 1):
    HARNESSES.append(dict(COMMON, name="depth_hook%d_ng%d" % (MAXQ, ng), entry="h_depth", defines={"NG": ng, "HWLOC_VERIF_SYNTHETIC_MAX_DEPTH": MAXQ}, encoded=PARSE, unwindset=init_uw(24),
                          tiers={"quick": {}, "thorough": {}}, witness=True,
                          bounds="level table scaled to %d entries by the guarded hook; %d typed Group levels + final PU number, concrete arities (the whole run is concrete: CBMC acts as a bounds-checking interpreter of the real parser); exhaustive over 0..%d groups" % (MAXQ, ng, MAXQ), cost=10))
for ng in (122, 123, 124, 125, 126, 127):
    HARNESSES.append(dict(COMMON, name="depth_real128_ng%d" % ng, entry="h_depth", defines={"NG": ng}, encoded=PARSE, unwindset=init_uw(134), tiers={"thorough": {"unwind": 14, "timeout": 3000}},
                          bounds="the real 128-entry level table; %d typed Group levels + final PU number" % ng, cost=100, fs_array=300, core=(ng in (125, 126))))
def short_uw(l):
    d = seed_uw(); d.update({k: l + 2 for k in ("strcmp.0", "strncmp.0", "hwloc__type_match.0", "strchr.0", "strspn.0", "strspn.1", "strcspn.0", "strcspn.1", "vp_strto.0", "vp_strto.1", "strncasecmp.0", "strlen.0",
                                                 "hwloc_backend_synthetic_init.0", "hwloc_backend_synthetic_init.1", "hwloc_backend_synthetic_init.2", "hwloc_synthetic_parse_attrs.0", "hwloc__osdev_types_sscanf.0")}); return d
HARNESSES.append(dict(COMMON, name="parse_bytes", entry="h_parse_bytes", encoded=PARSE, checks="safety+", tiers={"thorough": {"defines": {"L": 3, "HWLOC_VERIF_SYNTHETIC_MAX_DEPTH": 6}, "unwindset": short_uw(3), "unwind": 8, "timeout": 8000}},
                      bounds="every NUL-terminated string of L arbitrary bytes (L = 2 quick, 3 thorough) in an exactly sized object", core=False, cost=60))
HARNESSES.append(dict(COMMON, name="indexes_types", entry="h_indexes_types", defines={"HWLOC_VERIF_SYNTHETIC_MAX_DEPTH": 8}, encoded=PARSE, tiers={"quick": {}, "thorough": {}}, unwind=20, unwindset=dict(init_uw(24), **{"hwloc_synthetic_process_indexes.0": 24, "hwloc_synthetic_process_indexes.1": 24, "hwloc_synthetic_process_indexes.2": 24, "hwloc_synthetic_process_indexes.3": 24, "hwloc_synthetic_process_indexes.4": 24, "hwloc_synthetic_process_indexes.5": 24, "hwloc_synthetic_process_indexes.6": 24, "hwloc_synthetic_process_indexes.7": 24, "h_indexes_types.0": 6, "h_indexes_types.1": 6, "h_indexes_types.2": 6, "h_indexes_types.3": 6, "indexes_case.0": 40, "indexes_case.1": 6, "indexes_case.2": 6, "indexes_case.3": 6, "indexes_case.4": 20, "indexes_case.5": 20, "strlen.0": 64, "strchr.0": 70}),
                      bounds="pack:2 numa:2 core:2 pu:2(indexes=T1:T2:T3) with every choice of T1,T2,T3 among pack/numa/core (27 strings incl. invalid duplicates), chosen symbolically among concretely built texts", cost=60, object_bits=13))
_it = [h for h in HARNESSES if h["name"] == "indexes_types"][0]
for _m, _nm, _bd in ((0, "list", "pu:3(indexes=a,b,c) for every a,b,c in 0..3 (64 texts incl. every pattern of duplicates)"), (1, "loops", "pu:4(indexes=S1*N1:S2*N2[:1*2147483648]) with steps 1/2 and counts among 2/4/2147483648 x 2/2147483648 (48 texts; thorough: 1/2/4/2147483648 for both, 128 texts) incl. widths that do not match, duplicates, and products that overflow 64 bits)")):
    HARNESSES.append(dict(_it, name="indexes_values_" + _nm, entry="h_indexes_values", defines={"HWLOC_VERIF_SYNTHETIC_MAX_DEPTH": 8, "IVMODE": _m}, encoded=PARSE + ["hwloc_synthetic_process_indexes (explicit lists, numeric interleaving)", "hwloc_synthetic_indexes_have_duplicates", "strtol/strtoul (model)", "qsort (model)"],
                          unwindset=dict(_it["unwindset"], **{"h_indexes_values.0": 6, "h_indexes_values.1": 6, "h_indexes_values.2": 6, "h_indexes_values.3": 6, "h_indexes_values.4": 6, "values_case.0": 6, "values_case.1": 6, "values_case.2": 6, "values_case.3": 6, "values_case.4": 6, "put.0": 16, "qsort.0": 8, "qsort.1": 8, "hwloc_synthetic_indexes_have_duplicates.0": 8, "vp_strto.0": 4, "vp_strto.1": 14, "strcspn.0": 100, "strcspn.1": 100, "strspn.0": 100, "strspn.1": 100, "strchr.0": 100, "strlen.0": 100}),
                          tiers={"quick": {}, "thorough": {"defines": {"IVN1": 4, "IVN2": 4}, "timeout": 3000}},
                          bounds=_bd + ", chosen symbolically among concretely built texts; asserted: accepted or -1/EINVAL (no abort), the indexes kept are pairwise distinct (the level keeps its arity) and are the ones written", cost=90))
HARNESSES.append(dict(COMMON, name="export_cursor", entry="h_export_cursor", defines={"HWLOC_VERIF_SYNTHETIC_MAX_DEPTH": 8}, unwind=68,
                      encoded=["hwloc_topology_export_synthetic", "hwloc__export_synthetic_obj", "hwloc__export_synthetic_obj_attr", "hwloc__export_synthetic_indexes", "hwloc__export_synthetic_memory_children", "hwloc__export_synthetic_add_char", "hwloc__export_synthetic_update_status", "hwloc_check_memory_symmetric"],
                      tiers={"quick": {}, "thorough": {}}, bounds="seed S1 (symmetric, PU os_index 0,1,2,5); any 64-bit flag word; buffer length 0..64; symbolic canary", cost=80))
SL_UW = seed_uw(**{"strcmp.0": 16, "strncmp.0": 16, "hwloc__type_match.0": 20, "strchr.0": 100, "strspn.0": 40, "strspn.1": 14, "vp_strto.0": 12, "vp_strto.1": 14, "strncasecmp.0": 16, "strlen.0": 100, "strcpy.0": 100, "strdup.0": 100, "realloc.0": 200})
for k in range(16): SL_UW["h_synload.%d" % k] = 98
for k in range(14): SL_UW["hwloc_backend_synthetic_init.%d" % k] = 24
for k in range(12): SL_UW["hwloc_synthetic_process_indexes.%d" % k] = 24
for d, tiers in ((0, {"quick": {}, "thorough": {}}), (1, {"quick": {}, "thorough": {}}), (2, {"quick": {}, "thorough": {}}), (3, {"quick": {}, "thorough": {}}), (4, {"thorough": {}}), (5, {"quick": {}, "thorough": {}}), (6, {"quick": {}, "thorough": {}})):
    HARNESSES.append(dict(COMMON, src="C07_synload.c", name="synload_d%d" % d, entry="h_synload", defines={"DESC": d}, unwind=24, unwindset=SL_UW, object_bits=13, tiers=tiers, cost=120,
                          encoded=PARSE + ["hwloc_look_synthetic", "hwloc__look_synthetic", "hwloc_synthetic_insert_attached", "hwloc_synthetic_set_attr", "hwloc_synthetic_next_index", "hwloc_discover", "hwloc__insert_object_by_cpuset", "hwloc_filter_levels_keep_structure", "hwloc_connect_levels",
                                           "hwloc_topology_export_synthetic", "hwloc__export_synthetic_obj", "hwloc__export_synthetic_indexes", "hwloc__export_synthetic_memory_children"],
                          bounds="one concrete description (#%d of 7: plain levels, explicit and interleaved index lists, NUMA as a level and attached, cache sizes, a mergeable Group level) through parser + real discovery pipeline + C01 checker + expectations + export + reload + comparison + re-export; the run is concrete (CBMC as a bounds-checking interpreter)" % d))
OUTSIDE = ["descriptions other than the 7 loaded ones (the parser itself: depth_*, indexes_types, parse_bytes)", "128-level strings with symbolic content at every level", "memory/cache size attributes round trip"]
