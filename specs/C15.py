"""C15 — CPU kinds partition + ranking (DESIGN §5 C15)."""
SRC = "C15_cpukinds.c"
COMMON = dict(src=SRC, env=["vp_alloc.c", "vp_libc.c"], units=["hwloc/bitmap.c", "hwloc/traversal.c"], unwind=2, checks="safety", object_bits=10, timeout=1500,
              stubs=["hwloc__add_info/hwloc__free_infos: fixed-capacity by-reference store (string ownership is C02/C12 business)",
                     "getenv: returns the harness-chosen HWLOC_CPUKINDS_RANKING value", "register_public/restrict: body of hwloc_internal_cpukinds_rank cut on the goto binary (ranking is decided by the rank harness from an arbitrary valid table)", "qsort: insertion-sort model (env/vp_libc.c)",
                     "realloc: asserted unreachable from the 16-slot table (growth harness runs the real sizing with concrete N)"],
              assumptions=["allocation never fails", "forced efficiencies >= -1 (what the API stores)", "cpusets are 1-word finite sets inside a UBITS-bit universe"])
def uw(nk, sc=3):
    return {"strcmp.0": sc, "qsort.0": 8, "qsort.1": 50, "vp_strto.0": 3, "vp_strto.1": 8}
REG = ["hwloc_internal_cpukinds_register", "hwloc__cpukind_add_infos", "hwloc__cpukind_check_duplicate_info", "hwloc_bitmap_compare_inclusion", "hwloc_bitmap_and", "hwloc_bitmap_andnot", "hwloc_bitmap_iszero"]
RANK = ["hwloc_internal_cpukinds_rank", "hwloc__cpukinds_try_rank_by_forced_efficiency", "hwloc__cpukinds_summarize_info", "hwloc__cpukinds_try_rank_by_info",
        "hwloc__cpukinds_check_duplicate_rankings", "hwloc__cpukinds_finalize_ranking", "hwloc__cpukinds_compare_ranking_values"]
HARNESSES = []
def add(name, entry, defs, encoded, tiers, **kw):
    h = dict(COMMON); h.update(name=name, entry=entry, defines=defs, encoded=encoded, tiers=tiers); h.update(kw); HARNESSES.append(h)
def T(nk, ub, sc=3, **kw):
    d = {"defines": {"NK": nk, "UBITS": ub}, "unwind": 2 * nk + 2, "unwindset": uw(nk, sc), "bounds": "arbitrary valid table of <= %d kinds over a %d-PU universe" % (nk, ub)}; d.update(kw); return d
add("register_partition", "h_register", {"INFOS": 0}, REG, {"quick": T(2, 6), "thorough": T(3, 8)}, remove_bodies=["hwloc__cpukind_add_infos"], goto_instrument=[["--generate-function-body", "hwloc__cpukind_add_infos"]])
add("register_infos", "h_register", {"INFOS": 1}, REG, {"thorough": T(1, 4)}, core=False, timeout=1200)
add("add_infos", "h_add_infos", {}, ["hwloc__cpukind_add_infos", "hwloc__cpukind_check_duplicate_info"], {"quick": T(1, 4), "thorough": T(1, 4)})
CUT = dict(remove_bodies=["hwloc_internal_cpukinds_rank", "hwloc__cpukind_add_infos"],
           goto_instrument=[["--generate-function-body", "hwloc_internal_cpukinds_rank|hwloc__cpukind_add_infos"]])
add("register_public", "h_register_public", {"RANK_STUB": 1}, ["hwloc_cpukinds_register"] + REG, {"quick": T(2, 6), "thorough": T(3, 8)}, **CUT)
add("restrict", "h_restrict", {"RANK_STUB": 1, "KIND_MEMMOVE": 1, "VP_CUSTOM_MEMMOVE": 1}, ["hwloc_internal_cpukinds_restrict", "hwloc_bitmap_and", "hwloc_get_obj_by_depth"], {"quick": T(2, 6), "thorough": T(3, 8)}, **CUT)
add("restrict_rank", "h_restrict_rank", {"KIND_MEMMOVE": 1, "VP_CUSTOM_MEMMOVE": 1, "RESTRICT_COPY": 1}, ["hwloc_internal_cpukinds_restrict (body copied from the working tree)", "hwloc_bitmap_and", "hwloc_get_obj_by_depth"],
    {"quick": T(2, 3, bounds="any RANKED table of <= 2 kinds over a 3-PU universe (efficiencies all unknown or 0..n-1), any root cpuset; restrict against the contract of rank (decided by the rank harness)"), "thorough": T(3, 8, bounds="as quick with <= 3 kinds over 8 PUs")},
    gen=[("restrict.inc", "hwloc/cpukinds.c", ["hwloc_internal_cpukinds_restrict"], "__vp")], **CUT)
add("rank", "h_rank", {}, RANK + ["atoi (model)"], {"quick": T(2, 2, 28), "thorough": T(3, 3, 28)})
add("query", "h_query", {}, ["hwloc_cpukinds_get_nr", "hwloc_cpukinds_get_info", "hwloc_cpukinds_get_by_cpuset", "hwloc_bitmap_compare_inclusion", "hwloc_bitmap_copy"], {"quick": T(2, 6), "thorough": T(3, 8)})
for gn in (0, 4):
    add("growth_n%d" % gn, "h_growth", {"GN": gn}, ["hwloc_internal_cpukinds_register (realloc sizing)", "hwloc_flsl"],
        {"quick": {"defines": {}, "unwind": 12, "unwindset": {"realloc.0": 60}, "bounds": "N=%d existing two-PU kinds in an exactly-sized table; registered cpuset symbolic" % gn}}, checks="safety")
    HARNESSES[-1]["tiers"]["thorough"] = HARNESSES[-1]["tiers"]["quick"]
    if gn == 4:      # growth from a 4-entry table: no verdict in 20 min (symbolic target index into the grown table): stretch
        HARNESSES[-1]["tiers"] = {"thorough": dict(HARNESSES[-1]["tiers"]["quick"], timeout=1200)}; HARNESSES[-1]["core"] = False; HARNESSES[-1]["mem_gb"] = 8
# the XML round trip of the table is decided by the element-tree harness of C05 (same source, same query)
import importlib.util as _iu, os as _os
_s = _iu.spec_from_file_location("spec_C05", _os.path.join(_os.path.dirname(__file__), "C05.py")); _m = _iu.module_from_spec(_s); _s.loader.exec_module(_m)
for _h in _m.HARNESSES:
    if _h["name"] == "xml_roundtrip_cpukinds": _h2 = dict(_h); _h2["name"] = "C05_" + _h["name"]; HARNESSES.append(_h2)
OUTSIDE = ["multi-word or infinite kind cpusets", "dup of the table (C12)", "string ownership of info pairs", "allocation failure"]
