"""C04 — bitmap <-> string conversions (DESIGN §5 C04)."""
SRC = "C04_bitmap_str.c"
FN = ["hwloc", "list", "taskset"]
PRN = {0: ["hwloc_bitmap_snprintf"], 1: ["hwloc_bitmap_list_snprintf", "hwloc_bitmap_next", "hwloc_bitmap_next_unset"], 2: ["hwloc_bitmap_taskset_snprintf"]}
SCN = {0: ["hwloc_bitmap_sscanf"], 1: ["hwloc_bitmap_list_sscanf", "hwloc_bitmap_set_range", "hwloc_bitmap_set"], 2: ["hwloc_bitmap_taskset_sscanf"]}
ASP = {0: ["hwloc_bitmap_asprintf"], 1: ["hwloc_bitmap_list_asprintf"], 2: ["hwloc_bitmap_taskset_asprintf"]}
COMMON = dict(src=SRC, units=["hwloc/misc.c"], checks="safety", object_bits=10, timeout=1700,
              assumptions=["allocation never fails", "full texts longer than CAP-1 characters are outside each harness", "list format: explicit bits of each word inside LISTMASK"])
HARNESSES = []
def add(name, entry, encoded, tiers, **kw):
    h = dict(COMMON); h.update(name=name, entry=entry, encoded=encoded, tiers=tiers); h.update(kw); HARNESSES.append(h)
for f in (0, 1, 2):
    add("cursor_abstract_" + FN[f], "h_cursor_abstract", PRN[f],
        {"quick": {"defines": ({"FMT": f, "ABSTRACT_PIECES": 1, "NW": 1, "CAP": 32, "R": 5, "VP_MEM_K": 40} if f != 1 else {"FMT": f, "ABSTRACT_PIECES": 1, "NW": 1, "CAP": 20, "R": 4, "LISTMASK": "0xfUL", "VP_MEM_K": 40}), "unwind": 36,
                   "bounds": "1-word bitmaps (+tail), buffer length 0..32, <= 12 pieces of 0..5 characters each (contract hwloc_snprintf), symbolic canary"},
         "thorough": {"defines": {"FMT": f, "ABSTRACT_PIECES": 1, "NW": 2, "CAP": 40, "R": 6, "VP_MEM_K": 48}, "unwind": 44,
                      "bounds": "2-word bitmaps (+tail), buffer length 0..40, pieces of 0..6 characters"}},
        env=["vp_alloc.c"], units=[], stubs=["hwloc_snprintf: contract stub (k-th piece needs an arbitrary r_k characters; conforming truncation) (on this platform hwloc_snprintf is the libc snprintf)"])
TRUE = dict(env=["vp_alloc.c", "vp_libc.c"], stubs=["vsnprintf/strtoul: env/vp_libc.c models"])
UW = {"vp_strto.0": 10, "vp_strto.1": 20}
def bt(f, wmask, cap, extra=None, bounds=""):
    d = {"FMT": f, "NW": 1, "CAP": cap, "VP_MEM_K": 48}
    if wmask: d["WMASK"] = wmask
    if extra: d.update(extra)
    return {"defines": d, "unwind": cap + 4, "unwindset": UW, "bounds": bounds}
for f in (2, 0, 1):
    bq = "1-word bitmaps whose explicit bits (or, for infinite sets, holes) lie in the low 16 bits, with or without the infinite tail"
    bth = "every 1-word bitmap with or without the infinite tail" + ("; list format: bits below 8" if f == 1 else "")
    add("cursor_true_" + FN[f], "h_cursor_true", PRN[f] + ["vsnprintf (model)"], {"thorough": bt(f, None, 40, bounds=bth + "; true text lengths; buffer length 0..40")}, core=False, **TRUE)
    add("roundtrip_" + FN[f], "h_roundtrip", PRN[f] + SCN[f] + ["vsnprintf, strtoul (models)"], {"quick": bt(f, "0xffffUL", 24, bounds=bq), "thorough": bt(f, None, 40, bounds=bth)}, cost=50, **TRUE)
    add("asprintf_" + FN[f], "h_asprintf", PRN[f] + ASP[f], {"quick": bt(f, "0xffffUL", 24, bounds=bq), "thorough": bt(f, None, 40, bounds=bth)}, cost=50, **TRUE)
    def pt(l, stable):
        d = {"FMT": f, "L": l, "CAP": 24, "VP_MEM_K": 48}
        if stable: d["STABLE"] = 1
        return {"defines": d, "unwind": 28 if stable else 12, "unwindset": UW, "bounds": "every NUL-terminated string of <= %d arbitrary non-NUL bytes in a %d-byte object; destination pre-state arbitrary" % (l, l + 1)}
    add("parse_" + FN[f], "h_parse", SCN[f] + ["strtoul (model)", "strchr", "strncmp"], {"quick": pt(4, False), "thorough": pt(6, False)}, checks="safety+", cost=30, **TRUE)
    add("parse_stable_" + FN[f], "h_parse", SCN[f] + PRN[f], {"quick": pt(2, True), "thorough": pt(3, True)}, cost=40, **TRUE)
# ---- tier policy after measuring (build round): what concludes inside the budget is core, the rest is stretch (non-core, thorough only)
for h in HARNESSES:
    n = h["name"]
    if n.startswith("asprintf_") or n in ("roundtrip_list", "parse_stable_hwloc", "parse_stable_list") or n.startswith("cursor_true_"):
        h["core"] = False; h["tiers"] = {"thorough": dict(h["tiers"].get("thorough", h["tiers"].get("quick")), timeout=900)}; h["mem_gb"] = 8      # symbolic-size blocks / solver memory: no verdict
    elif n in ("cursor_abstract_list", "roundtrip_hwloc", "parse_stable_taskset"):
        h["tiers"] = {"thorough": dict(h["tiers"]["quick"], timeout=4000)}                                     # concludes in 7-10 min: thorough tier with the measured bounds
    elif n == "parse_list":
        q = dict(h["tiers"]["quick"]); q["defines"] = dict(q["defines"], L=3, ALLOC=16); q["unwind"] = 20; q["bounds"] = "every NUL-terminated string of <= 3 arbitrary non-NUL bytes (numbers up to 999: destination of 16 words, growth is C03's subject)"
        h["tiers"] = {"thorough": dict(q, timeout=900)}; h["core"] = False; h["mem_gb"] = 8      # range setting with symbolic bounds over 16 words: no verdict in 6 min
    elif n in ("parse_hwloc", "parse_taskset", "roundtrip_taskset", "cursor_abstract_hwloc", "cursor_abstract_taskset"):
        h["tiers"] = {"quick": h["tiers"]["quick"], "thorough": dict(h["tiers"]["quick"]) if n.startswith(("roundtrip", "cursor")) else h["tiers"]["thorough"]}
# the *_asprintf bodies (copied out of the current bitmap.c by the driver) against a contract of the printer they call, with the
# allocation request observed instead of materialised
for f in (2, 0, 1):
    d = {"FMT": f, "NW": 1, "CAP": 24, "VP_MEM_K": 48, "SIZED_MALLOC": 1, "SIZED_CAP": 64, "ASP_CONTRACT": 1, "ACAP": 40}
    add("asprintf_contract_" + FN[f], "h_asprintf_contract", ASP[f], {"quick": {"defines": d, "unwind": 68, "bounds": "ANY text of 0..40 non-NUL characters reported by the printer (contract stand-in), any 1-word set"}, "thorough": {"defines": dict(d, ACAP=56), "unwind": 68, "bounds": "ANY text of 0..56 characters"}},
        env=["vp_alloc.c"], units=[], cost=30, gen=[("asp.inc", "hwloc/bitmap.c", ["hwloc_bitmap_asprintf", "hwloc_bitmap_list_asprintf", "hwloc_bitmap_taskset_asprintf"], "__vp")],
        stubs=["hwloc_bitmap_{,list_,taskset_}snprintf: contract stand-in (arbitrary text, conforming truncation); the printers themselves: cursor_abstract_*", "malloc inside asprintf: constant-size block + recorded request (a block of symbolic size does not conclude)"])
OUTSIDE = ["*_asprintf composed with the true printers and the list-format round trip (blocks of symbolic size / solver memory: stretch harnesses, no verdict; asprintf is decided against the printer contract by asprintf_contract_*)", "bitmaps with more than 2 explicit words", "texts longer than CAP", "locale effects", "allocation failure"]
