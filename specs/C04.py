"""C04 — bitmap <-> string conversions (DESIGN §5 C04)."""
SRC = "C04_bitmap_str.c"
FN = ["hwloc", "list", "taskset"]
PRN = {0: ["hwloc_bitmap_snprintf"], 1: ["hwloc_bitmap_list_snprintf", "hwloc_bitmap_next", "hwloc_bitmap_next_unset"], 2: ["hwloc_bitmap_taskset_snprintf"]}
SCN = {0: ["hwloc_bitmap_sscanf"], 1: ["hwloc_bitmap_list_sscanf", "hwloc_bitmap_set_range", "hwloc_bitmap_set"], 2: ["hwloc_bitmap_taskset_sscanf"]}
ASP = {0: ["hwloc_bitmap_asprintf"], 1: ["hwloc_bitmap_list_asprintf"], 2: ["hwloc_bitmap_taskset_asprintf"]}
COMMON = dict(src=SRC, units=["hwloc/misc.c"], checks="safety", object_bits=10, timeout=1700,
              assumptions=["allocation never fails", "full texts longer than CAP-1 characters are outside each harness", "list format: explicit bits of each word inside LISTMASK"])
HARNESSES = []
def add(name, entry, encoded, tiers, **kw):
    h = dict(COMMON); h.update(name=name, entry=entry, encoded=encoded, tiers=tiers); h.update(kw); HARNESSES.append(h)
for f in (0, 1, 2):
    add("cursor_abstract_" + FN[f], "h_cursor_abstract", PRN[f] + ["hwloc_snprintf"],
        {"quick": {"defines": {"FMT": f, "ABSTRACT_PIECES": 1, "NW": 1, "CAP": 32, "R": 5}, "unwind": 36, "unwindset": {"hwloc_snprintf.0": 2},
                   "bounds": "1-word bitmaps (+tail), buffer length 0..32, <= 12 pieces of 0..5 characters each (abstract vsnprintf contract), symbolic canary"},
         "thorough": {"defines": {"FMT": f, "ABSTRACT_PIECES": 1, "NW": 2, "CAP": 40, "R": 6}, "unwind": 44, "unwindset": {"hwloc_snprintf.0": 2},
                      "bounds": "2-word bitmaps (+tail), buffer length 0..40, pieces of 0..6 characters"}},
        env=["vp_alloc.c"], stubs=["vsnprintf: abstract-piece contract stub (k-th piece needs an arbitrary r_k characters; conforming truncation)"])
TRUE = dict(env=["vp_alloc.c", "vp_libc.c"], stubs=["vsnprintf/strtoul: env/vp_libc.c models"])
UW = {"hwloc_snprintf.0": 2, "vp_strto.0": 4, "vp_strto.1": 20}
for f in (2, 0, 1):
    t = {"defines": {"FMT": f, "NW": 1, "CAP": 40}, "unwind": 44, "unwindset": UW, "bounds": "1-word bitmaps (+tail), true text lengths, buffer length 0..40"}
    add("cursor_true_" + FN[f], "h_cursor_true", PRN[f] + ["hwloc_snprintf", "vsnprintf (model)"], {"thorough": t} if f != 2 else {"quick": t, "thorough": t}, **TRUE)
    t = {"defines": {"FMT": f, "NW": 1, "CAP": 40}, "unwind": 44, "unwindset": UW, "bounds": "1-word bitmaps (+tail); list format bits below 8 per word"}
    add("roundtrip_" + FN[f], "h_roundtrip", PRN[f] + SCN[f] + ["hwloc_snprintf", "vsnprintf, strtoul (models)"], {"quick": t, "thorough": dict(t, defines={"FMT": f, "NW": 2, "CAP": 60}, unwind=64)}, **TRUE)
    add("asprintf_" + FN[f], "h_asprintf", PRN[f] + ASP[f], {"quick": t, "thorough": t}, **TRUE)
    def pt(l, stable): 
        d = {"FMT": f, "L": l, "CAP": 40}
        if stable: d["STABLE"] = 1
        return {"defines": d, "unwind": 44 if stable else 12, "unwindset": UW, "bounds": "every NUL-terminated string of <= %d arbitrary non-NUL bytes in a %d-byte object; destination pre-state arbitrary" % (l, l + 1)}
    add("parse_" + FN[f], "h_parse", SCN[f] + ["strtoul (model)", "strchr", "strncmp"], {"quick": pt(5, False), "thorough": pt(7, False)}, checks="safety+", **TRUE)
    add("parse_stable_" + FN[f], "h_parse", SCN[f] + PRN[f], {"quick": pt(3, True), "thorough": pt(4, True)}, **TRUE)
OUTSIDE = ["bitmaps with more than 2 explicit words", "texts longer than CAP", "locale effects", "allocation failure"]
