"""C03 — bitmap operations implement exact finite/cofinite set semantics (DESIGN §5 C03)."""
SRC = "C03_bitmap.c"
Q = {"defines": {"NW": 2}}
T = {"defines": {"NW": 4}}
COMMON = dict(src=SRC, env=["vp_alloc.c"], unwind=10, checks="safety+", object_bits=8, timeout=900,
              stubs=["realloc: concrete malloc+memcpy model; asserted unreachable in the symbolic phase (growth is decided by the *_growth harnesses)"],
              assumptions=["allocation never fails (--no-malloc-may-fail)", "indexes that would need growth beyond the 512-bit preallocation are outside the non-growth harnesses"])
HARNESSES = []
def add(name, entry, defs, encoded, bounds="bitmaps: every representation with 1..NW explicit words (+ arbitrary junk in unused preallocated words) and either tail; NW=2 quick, 4 thorough", tiers=None, **kw):
    h = dict(COMMON); h.update(name=name, entry=entry, defines=defs, encoded=encoded, bounds=bounds, tiers=tiers or {"quick": Q, "thorough": T}); h.update(kw)
    HARNESSES.append(h)

for i, n in enumerate(["or", "and", "andnot", "xor"]):
    add("binop_" + n, "h_binop", {"OP": i}, ["hwloc_bitmap_" + n, "hwloc_bitmap_reset_by_ulongs", "hwloc_bitmap_enlarge_by_ulongs"])
UN = ["not", "copy", "dup", "zero", "fill", "only", "allbut", "from_ulong", "from_ith_ulong", "from_ulongs", "set_ith_ulong", "to_ulongs", "singlify", "alloc"]
UENC = {"to_ulongs": ["hwloc_bitmap_to_ulong", "hwloc_bitmap_to_ith_ulong", "hwloc_bitmap_to_ulongs"], "alloc": ["hwloc_bitmap_alloc", "hwloc_bitmap_alloc_full", "hwloc_bitmap_free"],
        "dup": ["hwloc_bitmap_dup", "hwloc_bitmap_tma_dup"], "singlify": ["hwloc_bitmap_singlify", "hwloc_bitmap_set", "hwloc_ffsl"]}
for i, n in enumerate(UN):
    add("unop_" + n, "h_unop", {"UOP": i}, UENC.get(n, ["hwloc_bitmap_" + n, "hwloc_bitmap_reset_by_ulongs", "hwloc_bitmap_realloc_by_ulongs"]))
for i, n in enumerate(["set", "clr", "set_range", "clr_range", "isset"]):
    add("range_" + n, "h_range", {"ROP": i}, ["hwloc_bitmap_" + n, "hwloc_bitmap_realloc_by_ulongs"],
        bounds="as above; begin: any unsigned, end: any int (incl. -1 and end<begin); indexes needing growth beyond bit 511 assumed away")
for i, n in enumerate(["iszero_isfull", "first", "last", "next", "first_unset", "last_unset", "next_unset", "weight", "nr_ulongs"]):
    add("query_" + n, "h_query1", {"QOP": i}, ["hwloc_bitmap_" + x for x in n.split("_is")] if n == "iszero_isfull" else ["hwloc_bitmap_" + n, "hwloc_ffsl", "hwloc_flsl", "hwloc_weight_long"])
HARNESSES[-9]["encoded"] = ["hwloc_bitmap_iszero", "hwloc_bitmap_isfull"]
for i, n in enumerate(["isequal", "isincluded", "intersects", "compare", "compare_first", "compare_inclusion"]):
    add("query2_" + n, "h_query2", {"Q2OP": i}, ["hwloc_bitmap_" + n])
for i, (n, ga) in enumerate([("set", 1), ("or", 1), ("set_range", 2), ("only", 2)]):
    add("growth_" + n, "h_growth", {"GOP": i, "GALLOC": ga, "VP_REALLOC_K": 64}, ["hwloc_bitmap_" + n, "hwloc_bitmap_enlarge_by_ulongs", "hwloc_bitmap_realloc_by_ulongs", "hwloc_flsl"],
        bounds="destination allocated with %d word(s) (constant), grown through the real enlarge code up to 8 words" % ga,
        tiers={"quick": {"defines": {"NW": 2}}, "thorough": {"defines": {"NW": 4}}})

OUTSIDE = ["explicit bits above index 511 (growth beyond the preallocation is checked only from 1-2 allocated words up to 8)",
           "allocation failure paths", "HWLOC_DEBUG builds (magic field)"]
EXPLANATION = "Each query symbolically executes one real bitmap.c function on arbitrary representations and compares with a word-level set specification."
