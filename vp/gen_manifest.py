#!/usr/bin/env python3
"""gen_manifest.py — writes /verif/MANIFEST.json from the table below (kept in one place so that the manifest is always
consistent with the specs that exist)."""
import json, os
V = os.path.dirname(os.path.dirname(os.path.abspath(__file__)))
TECH = "bounded symbolic execution of the real C code with CBMC 6.11 (goto-cc + SAT), environment stubs, witness assertions, native ASan replay of counterexamples"
CLAIMED = {
 "C03": ("every function of hwloc/bitmap.c (except string conversions) is symbolically executed on ARBITRARY representations (1..NW explicit words, junk in unused words, either tail, aliasing) and compared with a word-level set specification; unsat = holds for every bitmap within the bound",
         "bound: NW=2 (quick) / 4 (thorough) explicit words, indexes < 512 for growing operations (growth from 1-2 to 8 words has its own harnesses); allocation never fails; trusted: CBMC, env/vp_alloc.c memory models", "§5 C03"),
 "C11": ("hwloc_type_sscanf on every string of L arbitrary bytes (memory safety incl. reads of the type-name literals), print->parse identity per object type with symbolic attributes, snprintf length contract for every buffer size with a symbolic canary, termination on any OS-device type word, compare_types algebra over all type triples",
         "bound: L=5/7 bytes; texts <= 62 chars; group depth <= 999 (quick); OS-device subsets of 3 bits in quick (7 bits thorough, stretch); vsnprintf/strtol are env/vp_libc.c models tested against glibc each run", "§5 C11"),
 "C13": ("sub-matrix extraction, refresh + list surgery, get filters and *nr convention, add_create/values/commit validation, removals, the four transforms and dup, each as one solver query over symbolic values/kinds/flags/NULL objects/types for matrices of a concrete size",
         "bound: matrices of 2..4 objects (exhaustive split over sizes and survivor sets); grouping at commit (floating point + tree insertion) outside; object lookup stubbed by a symbolic exists-table", "§5 C13"),
 "C15": ("one register / restrict / rank / query step from ANY table satisfying the partition invariant (inductive step covers histories of any length); info accumulation on one kind; growth of the table with the real sizing",
         "bound: <= 2 (quick) / 3 (thorough) kinds over a 6..8 PU universe, 1-word cpusets, infos from a 3-pair pool; in register_public/restrict the ranking call is cut and decided separately from an arbitrary valid table; qsort/getenv stubs", "§5 C15"),
 "C02": ("one modifying call from a well-formed state per entry point, symbolic arguments: hwloc_topology_allow (all flag words, NULL/any 8-bit sets, hook results), the infos family against a reference semantics on an ARBITRARY table, Misc insertion, Group allocation and every refusal path of Group insertion; asserted: documented result, the C01 clauses the call can affect, gp_index/userdata preserved, failing calls leave observables unchanged",
         "bound: seeds S1/S4 built by the real core (4 PUs, 2 packages, 2 NUMA nodes), info tables <= 3 pairs over a 3-string pool; successful Group insertion, restrict on inner objects and distance grouping (tree surgery under symbolic control) are outside; histories are covered only through the one-step argument on the asserted invariants", "§5 C02"),
 "C08": ("hwloc_topology_restrict front end (flag validation, empty / non-intersecting / covering sets, EINVAL leaves everything unchanged) with symbolic set and flags, and the removal of ONE leaf (a PU, a PU carrying a Misc child, a NUMA node, a CPU-less NUMA node) through the real restrict_object_by_cpuset / unlink / reconnect code, by cpuset and by nodeset",
         "bound: seeds S1/S2 (<= 13 objects) built by the real core; sets over 8 bits; removal of inner objects and cascades (REMOVE_CPULESS/MEMLESS chains) beyond one leaf are outside", "§5 C08"),
 "C10": ("every cpubind/membind set entry point and get_cpubind on a topology whose cpuset/nodeset are strict subsets of the complete sets: all flag words, policies, sets (8 bits +/- infinite tail), hook presence and hook results symbolic; dummy hooks on a foreign topology; the Linux thread hooks (set_tid/get_tid, kernel mask size probing) against a kernel model: what reaches sched_setaffinity is exactly the set, what get returns is exactly the kernel mask whatever the output bitmap held",
         "bound: seed S4 (real core); kernel model of 128 CPUs, sets of <= 2 CPUs (quick) / 3..5 (thorough) for the set->get round trip, any 128-bit mask for get; the live round trip on the running system, process-wide binding through /proc and the memory-binding syscalls cannot be encoded and are outside", "§5 C10"),
 "C14": ("register / set_value / get_value / get_initiators / get_targets / best_target / best_initiator / local NUMA nodes / refresh / dup, each as one query from an ARBITRARY valid attribute table (symbolic flags, values, initiator kinds) built directly in its representation",
         "bound: <= 3 targets x <= 2 initiators per attribute, 1-word cpusets, NUMA objects are fake records resolved through a symbolic exists-table; CBMC 6.11 mis-evaluates one union read (location.object->gp_index): that single identity is checked through get_initiators instead (DESIGN §3)", "§5 C14"),
 "C16": ("hwloc_topology_diff_apply on hand-built lists (scripted targets, symbolic entry type, strings, 64-bit values, flags): -N, exact rollback, apply+REVERSE identity; hwloc_topology_diff_build on pairs (A, B = edited copy): 0/1 + TOO_COMPLEX exactly for non-representable edits, well-formed entries, apply makes A indistinguishable from B incl. derived total_memory, second build empty, REVERSE restores",
         "bound: hand-linked 9-object topology (accepted by the real hwloc_topology_check natively); lists of exactly 3 entries over 6 target scripts; edits = any subset of {name, info, topology info, local memory (any 64-bit delta)}, single edits in quick, all 16 subsets in thorough; diff XML export/import is outside (C05 territory)", "§5 C16"),
 "C20": ("the location evaluator shared by hwloc-calc/hwloc-bind/hwloc-info (utils/hwloc/hwloc-calc.h) against brute-force set algebra over the level tables: T:i, T:a-b, T:a-, T:a:n, T:all|odd|even, pack:i.pu:j, pack:i.numa:all, all/root, with and without ~ x ^ operators, logical and physical indexing, arbitrary accumulator sets; hwloc_calc_parse_range on every string of L arbitrary bytes",
         "bound: hand-linked topology (2 packages, PUs 0,1,2,5, 2 NUMA nodes); digits 0..5 (quick: {0,1,3,5} for two-digit templates) enumerated as concretely built texts, everything else symbolic; L = 4/6 bytes; process-level behaviour of the tools (exit status, option parsing, output formats, lstopo, hwloc-distrib, diff|patch) is outside", "§5 C20"),
}
NA_PENDING = "check not registered yet in this revision (harness under construction; see DESIGN.md §9 status)"
NA = {}
def main():
    props = [json.loads(l) for l in open(os.path.join(V, "properties.jsonl"))]
    checks, na = [], []
    for p in props:
        pid = p["id"]
        if pid in CLAIMED and os.path.exists(os.path.join(V, "specs", pid + ".py")):
            text, note, ref = CLAIMED[pid]
            checks.append(dict(property_id=pid, quick_cmd="python3 vp/check.py %s --tier quick" % pid, thorough_cmd="python3 vp/check.py %s --tier thorough" % pid,
                               evidence_file="evidence/%s.json" % pid, replay_cmd_template="python3 vp/check.py %s --replay {path}" % pid, engine="cbmc",
                               level_claimed=dict(category="model_checking", text=text, design_ref="DESIGN.md " + ref), level_note=note, technique=TECH))
        else:
            na.append(dict(property_id=pid, reason=NA.get(pid, NA_PENDING)))
    m = dict(version=1, setup_cmd="sh vp/setup.sh",
             hooks=dict(guard="HWLOC_VERIF", enable="every harness is compiled by goto-cc / gcc with -DHWLOC_VERIF from /repo's working tree (vp/check.py); the library build itself never defines it",
                        baseline_off_cmd="make -C /repo -j8 check", source_commits=[], add_only=True),
             engines=[dict(name="cbmc", path="vp/check.py", serves_properties=[c["property_id"] for c in checks],
                           kind_free_text="CBMC 6.11 bounded model checker on goto binaries built from /repo's current sources + harness/*.c + env/*.c; counterexamples replayed natively under ASan/UBSan")],
             checks=checks, not_applicable=na,
             notes="Exit codes of every check: 0 = property held on everything explored within the stated bounds; 1 = VIOLATION line printed (counterexample confirmed by native replay, or a CBMC memory-safety failure no sanitizer can confirm); 2 = not decided (solver timeout/out-of-memory, vacuous harness, model limitation) - never reported as success.")
    hooks = os.path.join(V, "hooks_commits.txt")
    if os.path.exists(hooks): m["hooks"]["source_commits"] = [l.strip() for l in open(hooks) if l.strip()]
    json.dump(m, open(os.path.join(V, "MANIFEST.json"), "w"), indent=1)
    print("MANIFEST.json: %d checks, %d not_applicable" % (len(checks), len(na)))
if __name__ == "__main__":
    main()
