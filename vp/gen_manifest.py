#!/usr/bin/env python3
"""gen_manifest.py — writes /verif/MANIFEST.json from the table below (kept in one place so that the manifest is always
consistent with the specs that exist)."""
import json, os
V = os.path.dirname(os.path.dirname(os.path.abspath(__file__)))
TECH = "bounded symbolic execution of the real C code with CBMC 6.11 (goto-cc + SAT), environment stubs, witness assertions, native ASan replay of counterexamples"
CLAIMED = {
 "C03": ("every function of hwloc/bitmap.c (except string conversions) is symbolically executed on ARBITRARY representations (1..NW explicit words, junk in unused words, either tail, aliasing) and compared with a word-level set specification; unsat = holds for every bitmap within the bound",
         "bound: NW=2 (quick) / 4 (thorough) explicit words, indexes < 512 for growing operations (growth from 1-2 to 8 words has its own harnesses); allocation never fails; trusted: CBMC, env/vp_alloc.c memory models", "§5 C03"),
 "C11": ("hwloc_type_sscanf on every string of L arbitrary bytes (memory safety incl. reads of the type-name literals), print->parse identity per object type with symbolic attributes, snprintf length contract for every buffer size with a symbolic canary, termination on any OS-device type word, compare_types algebra over all type triples",
         "bound: L=5/7 bytes; texts <= 62 chars; group depth <= 999 (quick); OS-device subsets of 3 bits in quick (7 bits thorough, stretch); vsnprintf/strtol are env/vp_libc.c models tested against glibc each run", "§5 C11"),
 "C13": ("sub-matrix extraction, refresh + list surgery, get filters and *nr convention, add_create/values/commit validation, removals, the four transforms and dup, each as one solver query over symbolic values/kinds/flags/NULL objects/types for matrices of a concrete size",
         "bound: matrices of 2..4 objects (exhaustive split over sizes and survivor sets); grouping at commit (floating point + tree insertion) outside; object lookup stubbed by a symbolic exists-table", "§5 C13"),
 "C15": ("one register / restrict / rank / query step from ANY table satisfying the partition invariant (inductive step covers histories of any length); info accumulation on one kind; growth of the table with the real sizing",
         "bound: <= 2 (quick) / 3 (thorough) kinds over a 6..8 PU universe, 1-word cpusets, infos from a 3-pair pool; in register_public/restrict the ranking call is cut and decided separately from an arbitrary valid table; qsort/getenv stubs", "§5 C15"),
}
NA_PENDING = "check not registered yet in this revision (harness under construction; see DESIGN.md §9 status)"
NA = {}
def main():
    props = [json.loads(l) for l in open(os.path.join(V, "properties.jsonl"))]
    checks, na = [], []
    for p in props:
        pid = p["id"]
        if pid in CLAIMED and os.path.exists(os.path.join(V, "specs", pid + ".py")):
            text, note, ref = CLAIMED[pid]
            checks.append(dict(property_id=pid, quick_cmd="python3 vp/check.py %s --tier quick" % pid, thorough_cmd="python3 vp/check.py %s --tier thorough" % pid,
                               evidence_file="evidence/%s.json" % pid, replay_cmd_template="python3 vp/check.py %s --replay {path}" % pid, engine="cbmc",
                               level_claimed=dict(category="model_checking", text=text, design_ref="DESIGN.md " + ref), level_note=note, technique=TECH))
        else:
            na.append(dict(property_id=pid, reason=NA.get(pid, NA_PENDING)))
    m = dict(version=1, setup_cmd="sh vp/setup.sh",
             hooks=dict(guard="HWLOC_VERIF", enable="every harness is compiled by goto-cc / gcc with -DHWLOC_VERIF from /repo's working tree (vp/check.py); the library build itself never defines it",
                        baseline_off_cmd="make -C /repo -j8 check", source_commits=[], add_only=True),
             engines=[dict(name="cbmc", path="vp/check.py", serves_properties=[c["property_id"] for c in checks],
                           kind_free_text="CBMC 6.11 bounded model checker on goto binaries built from /repo's current sources + harness/*.c + env/*.c; counterexamples replayed natively under ASan/UBSan")],
             checks=checks, not_applicable=na,
             notes="Exit codes of every check: 0 = property held on everything explored within the stated bounds; 1 = VIOLATION line printed (counterexample confirmed by native replay, or a CBMC memory-safety failure no sanitizer can confirm); 2 = not decided (solver timeout/out-of-memory, vacuous harness, model limitation) - never reported as success.")
    hooks = os.path.join(V, "hooks_commits.txt")
    if os.path.exists(hooks): m["hooks"]["source_commits"] = [l.strip() for l in open(hooks) if l.strip()]
    json.dump(m, open(os.path.join(V, "MANIFEST.json"), "w"), indent=1)
    print("MANIFEST.json: %d checks, %d not_applicable" % (len(checks), len(na)))
if __name__ == "__main__":
    main()
