#!/usr/bin/env python3
"""status_table.py: rewrite the last two columns (harnesses, wall time of the quick tier) of the status table in DESIGN.md from evidence/*.json"""
import json, re, os
p = "/verif/DESIGN.md"; s = open(p).read().split("\n")
for i, l in enumerate(s):
    m = re.match(r"^\| (C\d\d) \| (.*) \| [^|]* \| [^|]* \|$", l)
    if not m: continue
    f = "/verif/evidence/%s.json" % m.group(1)
    if not os.path.exists(f): continue
    d = json.load(open(f)); c = d["coverage"]
    w = d.get("wall_s", 0)
    t = "~%d s" % round(w) if w < 90 else "~%.1f min" % (w / 60.0)
    s[i] = "| %s | %s | %s | %s |" % (m.group(1), m.group(2), c.get("harnesses_total"), t)
open(p, "w").write("\n".join(s))
