#!/usr/bin/env python3
"""native_selftest.py [Cxx ...]: build the native replay binary of every harness ENTRY of every spec once (quick tier defines) —
a harness whose replay does not build can never confirm a counterexample (its violations would end as 'unconfirmed')."""
import sys, os, importlib.util, tempfile, shutil
V = os.path.dirname(os.path.dirname(os.path.abspath(__file__)))
spec = importlib.util.spec_from_file_location("check", os.path.join(V, "vp", "check.py")); ck = importlib.util.module_from_spec(spec); spec.loader.exec_module(ck)
props = sys.argv[1:] or ["C%02d" % i for i in range(1, 21)]
bad = 0
for pid in props:
    mod = ck.load_spec(pid); seen = set()
    for h in mod.HARNESSES:
        tier = "quick" if "quick" in h["tiers"] else "thorough"
        key = (h["src"], h["entry"], tuple(sorted(k for k in ck.defines_for(h, tier) if k in ("SEED", "FIX_S2", "POOL_OS", "SIZED_MALLOC", "ASP_CONTRACT", "RESTRICT_COPY", "KIND_MEMMOVE"))))
        if key in seen: continue
        seen.add(key)
        wd = tempfile.mkdtemp(prefix="vpnat_")
        with open(os.path.join(wd, "log.txt"), "w") as log:
            exe, err = ck.native_build(h, tier, wd, log)
        ok = exe is not None
        print("%s %-34s %-22s %s" % (pid, h["name"], h["entry"], "ok" if ok else "NATIVE BUILD FAILED: " + str(err)[-600:])); sys.stdout.flush()
        bad += 0 if ok else 1
        shutil.rmtree(wd, ignore_errors=True)
print("native self-test: %d failures" % bad)
sys.exit(1 if bad else 0)
