#!/bin/bash
# compact view of a check log: one line per harness + the final tally
grep -E "^\[C[0-9]+\] [A-Za-z_0-9]+ +(pass|violation|vacuous|inconclusive|error|unconfirmed)|harnesses passed|^exit=" "$@" | cut -c1-${W:-190}
