#!/bin/bash
# confirm_seed.sh <worktree> <workdir> <letter> : confirm a seeded change independently
# (apply alone, rebuild, whole test suite passes, demo fails; revert, rebuild, demo passes)
WT=$1; WD=$2; L=$3
set -u
cd "$WT" || exit 2
git checkout -q -- . 
res() { echo "SEED-CONFIRM $(basename $WD)/$L: $*"; }
build() { make -j6 >/dev/null 2>$WD/${L}_confirm_build.err; }
demo() { gcc -w -I$WT/include -I$WT/include/private/autogen -I$WT/include/hwloc/autogen -I$WT/hwloc -I$WT/utils/hwloc -I$WT $WD/${L}_demo.c $WT/hwloc/.libs/libhwloc.so -Wl,-rpath,$WT/hwloc/.libs -lm -lpthread -o $WD/${L}_demo.bin 2>$WD/${L}_confirm_cc.err || return 99; timeout 120 $WD/${L}_demo.bin >$WD/${L}_confirm_demo.out 2>&1; }
git apply --check $WD/$L.diff || { res "patch does not apply"; exit 1; }
build || { res "clean build failed"; exit 1; }
demo; base=$?
git apply $WD/$L.diff
build || { res "build with change failed"; git checkout -q -- .; exit 1; }
make -j6 check > $WD/${L}_confirm_check.log 2>&1
fails=$(grep -E "^# (FAIL|ERROR):" $WD/${L}_confirm_check.log | awk '{s+=$3} END{print s+0}')
passes=$(grep -E "^# PASS:" $WD/${L}_confirm_check.log | awk '{s+=$3} END{print s+0}')
demo; mut=$?
git checkout -q -- .
build
res "demo_unchanged_exit=$base demo_changed_exit=$mut suite_pass=$passes suite_fail_or_error=$fails"
[ "$base" = 0 ] && [ "$mut" != 0 ] && [ "$mut" != 99 ] && [ "$fails" = 0 ] && { res CONFIRMED; exit 0; }
res "NOT CONFIRMED"; exit 1
