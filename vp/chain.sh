#!/bin/bash
# chain.sh <tag> <prop> [<prop> ...]: run quick checks one after the other from /verif against /repo (full runs: they rewrite the
# evidence files), one log per property under /tmp/vpx
tag=$1; shift
mkdir -p /tmp/vpx
for p in "$@"; do
  ( cd /verif && timeout 3000 python3 vp/check.py $p --tier quick > /tmp/vpx/run_${tag}_$p.log 2>&1; echo "exit=$?" >> /tmp/vpx/run_${tag}_$p.log )
done
echo done > /tmp/vpx/run_${tag}.done
