#!/bin/bash
# chain.sh <tag> <prop> [<prop> ...]: run quick checks one after the other, one log per property under /tmp/vpx
tag=$1; shift
for p in "$@"; do
  timeout 2400 python3 /verif/vp/check.py $p --jobs 10 --keep > /tmp/vpx/run_${tag}_$p.log 2>&1
  echo "exit=$?" >> /tmp/vpx/run_${tag}_$p.log
done
echo done > /tmp/vpx/run_${tag}.done
