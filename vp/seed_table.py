#!/usr/bin/env python3
"""seed_table.py — reads seeded/*/eval_*.txt (written by vp/seed_eval.sh), records detected_by in meta.json and writes seeded/TABLE.md"""
import json, os, glob, re
V = os.path.dirname(os.path.dirname(os.path.abspath(__file__)))
rows = []
for d in sorted(glob.glob(os.path.join(V, "seeded", "C??_?"))):
    name = os.path.basename(d); meta_p = os.path.join(d, "meta.json"); meta = json.load(open(meta_p))
    det = []
    for ev in sorted(glob.glob(os.path.join(d, "eval_*.txt"))):
        t = open(ev).read(); prop = os.path.basename(ev)[5:-4].replace(".partial", "")      # .partial: only the named harnesses of the check were run
        m = re.search(r"exit=(\d+)", t); rc = int(m.group(1)) if m else None
        hs = sorted(set(re.findall(r"counterexample in (\S+?):", t)))
        if rc == 1 and hs: det.append(dict(check="python3 vp/check.py %s --tier quick" % prop, harnesses=hs))
        elif rc is not None: det.append(dict(check="python3 vp/check.py %s --tier quick" % prop, harnesses=[], exit=rc))
    hit, seen = [], set()
    for x in det:
        if x.get("harnesses") and x["check"] not in seen: hit.append(x); seen.add(x["check"])
    meta["detected_by"] = hit if hit else None
    if not hit and "missed_because" not in meta: meta["missed_because"] = "not detected by the quick tier of the property's check (see DESIGN.md section 8)"
    if hit: meta.pop("missed_because", None)
    json.dump(meta, open(meta_p, "w"), indent=1)
    first = (meta.get("what_and_needs") or "").strip().split("\n")[0][:110]
    rows.append((name, "yes: " + "; ".join("%s [%s]" % (x["check"].split()[2], ", ".join(x["harnesses"][:3])) for x in hit) if hit else "no", first))
with open(os.path.join(V, "seeded", "TABLE.md"), "w") as f:
    f.write("| seeded change | detected (quick tier) | what it changes |\n|---|---|---|\n")
    for r in rows: f.write("| %s | %s | %s |\n" % r)
print("detected %d of %d" % (len([r for r in rows if r[1].startswith("yes")]), len(rows)))
