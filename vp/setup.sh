#!/bin/sh
# setup: everything is interpreted (python3 stdlib) or compiled per run from /repo's working tree.
# Only the generated config headers of the in-tree build are needed; regenerate them if a fresh restore lacks them.
set -e
cd "$(dirname "$0")/.."
for t in cbmc goto-cc goto-instrument gcc python3; do command -v $t >/dev/null || { echo "missing tool: $t"; exit 1; }; done
if [ ! -f /repo/include/private/autogen/config.h ] || [ ! -f /repo/include/hwloc/autogen/config.h ]; then
  echo "config headers missing: configuring out of tree"
  D=$(mktemp -d /var/tmp/vpcfg.XXXXXX)
  ( cd /repo && [ -x ./configure ] || ./autogen.sh >/dev/null 2>&1 )
  ( cd "$D" && /repo/configure >/dev/null 2>&1 )
  mkdir -p .cfg/include/private/autogen .cfg/include/hwloc/autogen
  cp "$D/include/private/autogen/config.h" .cfg/include/private/autogen/ && cp "$D/include/hwloc/autogen/config.h" .cfg/include/hwloc/autogen/
  rm -rf "$D"
fi
mkdir -p evidence .work
echo "setup ok"
