#!/usr/bin/env python3
"""vp/check.py — driver for the CBMC-based checks of /verif (see DESIGN.md §2).

usage: check.py <Cxx> [--tier quick|thorough] [--only NAME[,NAME]] [--jobs N] [--keep]
       check.py <Cxx> --replay <inputs-file>
       check.py --list

Every run: (1) differential test of env/vp_libc.c against glibc, (2) for every harness of the
property's spec: goto-cc of the harness + the CURRENT /repo sources, optional goto-instrument body
cuts, one cbmc query (all assertions + the reachability witnesses), (3) for every failed assertion a
--trace run, extraction of the symbolic inputs, native ASan/UBSan replay of the same harness against
the real sources, (4) evidence/<id>.json.  Exit 0 = held within the bounds, 1 = VIOLATION printed,
2 = inconclusive / internal (never on the unchanged tree).
"""
import sys, os, re, json, time, subprocess, importlib.util, hashlib, shutil, signal, resource
from concurrent.futures import ThreadPoolExecutor

VERIF = os.path.dirname(os.path.dirname(os.path.abspath(__file__)))
REPO = os.environ.get("VP_REPO", "/repo")
# scratch and evidence locations can be redirected (seed evaluation runs against a patched scratch tree and must
# not overwrite the evidence of /repo)
WORK = os.environ.get("VP_WORK", os.path.join(VERIF, ".work"))
EVID = os.environ.get("VP_EVID", os.path.join(VERIF, "evidence"))
GUARD = "HWLOC_VERIF"

# translation units of libhwloc as configured for this platform (native replay links all of them
# so that anything a harness does not stub resolves to the real code)
NATIVE_UNITS = ["hwloc/topology.c", "hwloc/traversal.c", "hwloc/distances.c", "hwloc/memattrs.c",
                "hwloc/cpukinds.c", "hwloc/components.c", "hwloc/bind.c", "hwloc/bitmap.c",
                "hwloc/pci-common.c", "hwloc/diff.c", "hwloc/shmem.c", "hwloc/misc.c", "hwloc/base64.c",
                "hwloc/topology-noos.c", "hwloc/topology-synthetic.c", "hwloc/topology-xml.c",
                "hwloc/topology-xml-nolibxml.c", "hwloc/topology-xml-libxml.c", "hwloc/topology-linux.c",
                "hwloc/topology-hardwired.c", "hwloc/topology-x86.c", "hwloc/topology-pci.c"]


def cfg_includes():
    inc = []
    if os.path.exists(os.path.join(REPO, "include/private/autogen/config.h")):
        inc += ["-I" + os.path.join(REPO, "include/private/autogen"), "-I" + os.path.join(REPO, "include/hwloc/autogen")]
    else:
        inc += ["-I" + os.path.join(VERIF, ".cfg/include"), "-I" + os.path.join(VERIF, ".cfg/include/private/autogen"), "-I" + os.path.join(VERIF, ".cfg/include/hwloc/autogen")]
    inc += ["-I" + REPO, "-I" + os.path.join(REPO, "include"), "-I" + os.path.join(REPO, "hwloc"),
            "-I" + os.path.join(REPO, "utils/hwloc"), "-I" + os.path.join(VERIF, "env"), "-I" + os.path.join(VERIF, "harness"),
            "-I/usr/include/libxml2"]
    return inc


def load_spec(pid):
    path = os.path.join(VERIF, "specs", pid + ".py")
    spec = importlib.util.spec_from_file_location("spec_" + pid, path)
    mod = importlib.util.module_from_spec(spec)
    spec.loader.exec_module(mod)
    return mod


def run(cmd, timeout=None, mem_gb=None, cwd=None, stdout_path=None):
    """run cmd; returns (rc, stdout_text_or_None, wall, maxrss_kb, timed_out)"""
    def pre():
        os.setsid()
        if mem_gb:
            lim = int(mem_gb * (1 << 30))
            resource.setrlimit(resource.RLIMIT_AS, (lim, lim))
    t0 = time.time()
    out_f = open(stdout_path, "wb") if stdout_path else subprocess.PIPE
    p = subprocess.Popen(cmd, stdout=out_f, stderr=subprocess.STDOUT, cwd=cwd, preexec_fn=pre)
    timed_out = False
    try:
        out, _ = p.communicate(timeout=timeout)
    except subprocess.TimeoutExpired:
        timed_out = True
        try:
            os.killpg(p.pid, signal.SIGKILL)
        except ProcessLookupError:
            pass
        out, _ = p.communicate()
    if stdout_path:
        out_f.close()
        out = None
    else:
        out = out.decode("utf-8", "replace")
    return p.returncode, out, time.time() - t0, 0, timed_out


_fixture_cache = {}
def uses_fixture(h):
    """harnesses built on vp_seed.h / vp_mini.h run library set-up code: they get the word-wise big mem* tier"""
    p = src_path(h)
    if p not in _fixture_cache:
        try:
            t = open(p).read()
        except OSError:
            t = ""
        _fixture_cache[p] = ('"vp_seed.h"' in t) or ('"vp_mini.h"' in t)
    return _fixture_cache[p]


def defines_for(h, tier):
    d = dict(h.get("defines", {}))
    if uses_fixture(h):
        d.setdefault("VP_MEM_BIG", 4096)
    t = h["tiers"][tier]
    if isinstance(t, dict):
        d.update(t.get("defines", {}))
    return d


def tier_opt(h, tier, key, default=None):
    t = h["tiers"][tier]
    if isinstance(t, dict) and key in t:
        return t[key]
    return h.get(key, default)


def src_path(h):
    return os.path.join(VERIF, "harness", h["src"])


def gen_extract(h):
    """spec key gen = [(outfile, repo_source, [function names], suffix)]: copy the DEFINITIONS of the named functions out of the
    current /repo source into <work>/gen/<harness>/<outfile>, each renamed <name><suffix>, so that a harness can compile those
    real bodies a second time against stand-ins for their callees (regenerated from /repo's working tree on every run).
    Returns the -I directory or None."""
    g = h.get("gen")
    if not g:
        return None
    d = os.path.join(WORK, "gen", h["name"])
    os.makedirs(d, exist_ok=True)
    for outfile, src, names, suffix in g:
        txt = open(os.path.join(REPO, src)).read()
        out = ["/* generated by vp/check.py from %s of the working tree: do not edit */" % src]
        for n in names:
            m = None
            for cand in re.finditer(r"^(?:[A-Za-z_][A-Za-z0-9_ \*]*?[ \*])?%s\s*\(" % re.escape(n), txt, re.M):
                depth, k = 1, cand.end()      # a definition: the parameter list is followed by "{" (a prototype by ";")
                while k < len(txt) and depth:
                    depth += txt[k] == "("
                    depth -= txt[k] == ")"
                    k += 1
                if re.match(r"\s*\{", txt[k:k + 40]):
                    m = cand
                    break
            if not m:
                raise RuntimeError("gen_extract: no definition of %s in %s" % (n, src))
            # the definition runs from the start of that line (or the line before: return type on its own line) to the first "}" in column 0
            start = txt.rfind("\n", 0, m.start()) + 1
            prev = txt.rfind("\n", 0, max(start - 1, 0)) + 1
            if re.match(r"^(static\s+)?[A-Za-z_][A-Za-z0-9_ \*]*$", txt[prev:start - 1].strip()) and txt[prev:start - 1].strip() and not txt[prev:start - 1].strip().endswith(";"):
                start = prev
            end = txt.find("\n}", m.end())
            if end < 0:
                raise RuntimeError("gen_extract: unterminated definition of %s" % n)
            body = txt[start:end + 2]
            out.append(re.sub(r"\b%s\b" % re.escape(n), n + suffix, body, count=1))
        with open(os.path.join(d, outfile), "w") as f:
            f.write("\n\n".join(out) + "\n")
    return d


def included_repo_units(path):
    """repo .c files textually included by the harness (so the native link does not add them twice)"""
    inc = set()
    try:
        txt = open(path).read()
    except OSError:
        return inc
    for m in re.finditer(r'#\s*include\s+"(?:/repo/)?((?:hwloc|utils/[a-z]+)/[A-Za-z0-9_+-]+\.c)"', txt):
        inc.add(m.group(1))
    for m in re.finditer(r'#\s*include\s+"([A-Za-z0-9_]+\.[ch])"', txt):
        sub = os.path.join(VERIF, "harness", m.group(1))
        if os.path.exists(sub) and os.path.abspath(sub) != os.path.abspath(path):
            inc |= included_repo_units(sub)
    return inc


def included_repo_units_pp(h, defs):
    """the same, asked from the preprocessor (honours #ifdef): gcc -MM with the harness's defines"""
    cmd = ["gcc", "-MM", "-w", "-DVP_REPLAY", "-D" + GUARD, "-DHAVE_CONFIG_H", "-DHWLOC_INSIDE_LIBHWLOC", '-DHWLOC_PLUGINS_PATH="/nonexistent"', '-DRUNSTATEDIR="/nonexistent"'] + cfg_includes()
    cmd += ["-D%s=%s" % (k, v) for k, v in defs.items()] + [src_path(h)]
    try:
        rc, out, _, _, _ = run(cmd, timeout=120)
    except Exception:
        return None
    if rc != 0 or not out:
        return None
    inc = set()
    for tok in out.replace("\\\n", " ").split():
        tok = tok.strip()
        if tok.endswith(".c") and os.path.abspath(tok).startswith(os.path.abspath(REPO) + os.sep):
            inc.add(os.path.relpath(os.path.abspath(tok), os.path.abspath(REPO)))
    return inc


def build_goto(h, tier, wd, log):
    defs = defines_for(h, tier)
    cmd = ["goto-cc", "-DVP_CBMC", "-D" + GUARD, "-DHAVE_CONFIG_H", "-DHWLOC_INSIDE_LIBHWLOC"] + cfg_includes()
    cmd += ["-D%s=%s" % (k, v) for k, v in defs.items()]
    gd = gen_extract(h)
    if gd:
        cmd += ["-I" + gd]
    if h.get("typed_realloc"):      # see env/vp_typed_realloc.h: realloc() call sites become typed allocations
        cmd += ["-include", os.path.join(VERIF, "env", "vp_typed_realloc.h")]
    cmd += [src_path(h)]
    cmd += [os.path.join(VERIF, "env", e) for e in h.get("env", ["vp_alloc.c"])]
    cmd += [os.path.join(REPO, u) for u in h.get("units", [])]
    gb = os.path.join(wd, "h.gb")
    cmd += ["-o", gb]
    rc, out, wall, _, _ = run(cmd, timeout=300)
    log.write("$ " + " ".join(cmd) + "\n" + (out or "") + "\n")
    if rc != 0 or not os.path.exists(gb):
        return None, "goto-cc failed: " + (out or "")[-2000:]
    rb = h.get("remove_bodies", [])
    if rb:
        cmd = ["goto-instrument"] + sum([["--remove-function-body", f] for f in rb], []) + [gb, gb]
        rc, out, _, _, _ = run(cmd, timeout=300)
        log.write("$ " + " ".join(cmd) + "\n" + (out or "") + "\n")
        if rc != 0:
            return None, "goto-instrument failed: " + (out or "")[-2000:]
    gi = h.get("goto_instrument", [])
    for args in gi:
        cmd = ["goto-instrument"] + args + [gb, gb]
        rc, out, _, _, _ = run(cmd, timeout=300)
        log.write("$ " + " ".join(cmd) + "\n" + (out or "") + "\n")
        if rc != 0:
            return None, "goto-instrument failed: " + (out or "")[-2000:]
    return gb, None


def cbmc_cmd(h, tier, gb):
    cmd = ["cbmc", gb, "--function", h["entry"], "--unwind", str(tier_opt(h, tier, "unwind", 2))]
    k = int(defines_for(h, tier).get("VP_MEM_K", 128)) + 1
    big = int(defines_for(h, tier).get("VP_MEM_BIG", 0)) // 8 + 1
    uws = {"memcpy.0": k, "memcpy.1": k, "memcpy.2": big, "memmove.0": k, "memmove.1": k, "memmove.2": k, "memmove.3": k, "memmove.4": big, "memmove.5": big, "memset.0": k, "memset.1": k, "memset.2": big, "realloc.0": int(defines_for(h, tier).get("VP_REALLOC_K", 0)) + 1}
    for i in range(10):
        uws["vsnprintf.%d" % i] = 48
        uws["vp_put_unsigned.%d" % i] = 26
        uws["vsscanf.%d" % i] = 24
    uws["__ctype_b_loc.0"] = 258
    uws.update(h.get("unwindset", {}))
    t = h["tiers"][tier]
    if isinstance(t, dict):
        uws.update(t.get("unwindset", {}))
    if uws:
        cmd += ["--unwindset", ",".join("%s:%d" % kv for kv in uws.items())]
    cmd += ["--unwinding-assertions", "--drop-unused-functions", "--no-malloc-may-fail",
            "--object-bits", str(tier_opt(h, tier, "object_bits", 10)),
            # arrays above 64 elements are otherwise not field-sensitive: symex then cannot constant-propagate
            # through text buffers and every string loop is unwound to its bound
            "--max-field-sensitivity-array-size", str(tier_opt(h, tier, "fs_array", 256))]
    checks = h.get("checks", "safety")
    if checks == "functional":
        cmd += ["--no-standard-checks"]
    elif checks == "safety+":
        cmd += ["--pointer-overflow-check", "--undefined-shift-check", "--signed-overflow-check"]
    cmd += tier_opt(h, tier, "cbmc", [])
    return cmd


RE_STATS = [("symex_s", re.compile(r"Runtime Symex: ([0-9.e+-]+)s")), ("solver_s", re.compile(r"Runtime Solver: ([0-9.e+-]+)s")),
            ("decision_s", re.compile(r"Runtime decision procedure: ([0-9.e+-]+)s")),
            ("steps", re.compile(r"size of program expression: (\d+) steps")),
            ("variables", re.compile(r"(\d+) variables, \d+ clauses")), ("clauses", re.compile(r"\d+ variables, (\d+) clauses"))]


def parse_cbmc_json(text):
    """returns (results list or None, stats dict, status, error text)"""
    try:
        data = json.loads(text)
    except Exception:
        # truncated output (timeout / kill): try to salvage
        return None, {}, None, text[-1500:]
    results, stats, status, errs = None, {}, None, []
    for e in data:
        if not isinstance(e, dict):
            continue
        if "result" in e:
            results = e["result"]
        if "cProverStatus" in e:
            status = e["cProverStatus"]
        mt = e.get("messageText")
        if mt:
            if e.get("messageType") == "ERROR":
                errs.append(mt)
            for k, rx in RE_STATS:
                m = rx.search(mt)
                if m:
                    v = float(m.group(1))
                    if k in ("symex_s", "solver_s", "decision_s"):
                        stats[k] = round(stats.get(k, 0.0) + v, 3)
                    else:
                        stats[k] = max(stats.get(k, 0), int(v))
    return results, stats, status, "\n".join(errs)


def is_witness(r):
    return (r.get("description") or "").startswith("VP_WITNESS")


def is_unwind(r):
    return ".unwind." in r.get("property", "") or (r.get("description") or "").startswith("unwinding assertion")


def is_bound(r):
    return (r.get("description") or "").startswith("VP_BOUND")


def is_model(r):
    return (r.get("description") or "").startswith("VP_MODEL")


def extract_inputs(trace_path):
    """plain-text cbmc --trace: collect assignments to vp_trace_in made inside vp_in64, in order"""
    vals, fn = [], None
    rx_state = re.compile(r"^State \d+ .*?function (\S+)")
    rx_val = re.compile(r"^\s+vp_trace_in=(.*)$")
    with open(trace_path, "r", errors="replace") as f:
        for line in f:
            m = rx_state.match(line)
            if m:
                fn = m.group(1)
                continue
            m = rx_val.match(line)
            if m and fn == "vp_in64":
                txt = m.group(1)
                # the bit pattern in parentheses first: the value itself is pretty-printed and may read
                # `sizeof(struct s) /*24ul*/` for a plain 24
                b = re.search(r"\(([01 ]{8,})\)\s*$", txt)
                if b:
                    vals.append(int(b.group(1).replace(" ", ""), 2))
                    continue
                d = re.search(r"/\*\s*(\d+)", txt) or re.match(r"\s*(\d+)", txt)
                vals.append(int(d.group(1)) if d else 0)
    return vals


def extract_inputs_json(trace_path, prop):
    """--json-ui --trace output of an all-properties run: the vp_in64 values on the trace of property `prop`"""
    try:
        with open(trace_path, "r", errors="replace") as f:
            data = json.load(f)
    except Exception:
        return []
    vals = []
    for item in data:
        if not isinstance(item, dict) or "result" not in item:
            continue
        for r in item["result"]:
            if r.get("property") != prop:
                continue
            for st in r.get("trace", []):
                if st.get("stepType") == "assignment" and st.get("lhs") == "vp_trace_in" and (st.get("sourceLocation") or {}).get("function") == "vp_in64":
                    v = st.get("value") or {}
                    # the bit pattern first: "data" is pretty-printed and may read `sizeof(struct s) /*24ul*/` for a plain 24
                    try:
                        vals.append(int(v.get("binary"), 2))
                    except (TypeError, ValueError):
                        m = re.search(r"/\*\s*(\d+)", str(v.get("data"))) or re.match(r"\s*(\d+)", str(v.get("data")))
                        if m:
                            vals.append(int(m.group(1)))
                        else:
                            vals.append(0)      # keep the draw order aligned; the replay decides
    return vals


def native_build(h, tier, wd, log):
    defs = defines_for(h, tier)
    exe = os.path.join(wd, "replay.bin")
    inc_units = included_repo_units_pp(h, defs)
    if inc_units is None:
        inc_units = included_repo_units(src_path(h))
    units = [u for u in NATIVE_UNITS if u not in inc_units and os.path.exists(os.path.join(REPO, u))]
    for u in h.get("units", []):
        if u not in units and u not in inc_units:
            units.append(u)
    units = [u for u in units if u not in h.get("native_skip_units", [])]
    common = ["gcc", "-g", "-O0", "-w", "-fsanitize=address,undefined", "-fno-sanitize-recover=undefined", "-fno-omit-frame-pointer",
              "-DVP_REPLAY", "-D" + GUARD, "-DHAVE_CONFIG_H", "-DHWLOC_INSIDE_LIBHWLOC", "-DVP_ENTRY=" + h["entry"],
              "-DHWLOC_PLUGINS_PATH=\"/nonexistent\"", "-DRUNSTATEDIR=\"/nonexistent\""] + cfg_includes()
    common += ["-D%s=%s" % (k, v) for k, v in defs.items()]
    gd = gen_extract(h)
    if gd:
        common += ["-I" + gd]
    # compile the (slow) library units once per source hash, shared by all harnesses
    objdir = os.path.join(WORK, "native_objs")
    os.makedirs(objdir, exist_ok=True)
    objs, jobs = [], []
    for u in units:
        p = os.path.join(REPO, u)
        hsh = hashlib.sha1(open(p, "rb").read() + repr(sorted(defs.items())).encode()).hexdigest()[:16]
        o = os.path.join(objdir, os.path.basename(u) + "." + hsh + ".o")
        objs.append(o)
        if not os.path.exists(o):
            jobs.append(common + ["-c", p, "-o", o])

    def cc(c):
        return run(c, timeout=600)
    with ThreadPoolExecutor(max_workers=8) as ex:
        for c, (rc, out, _, _, _) in zip(jobs, ex.map(cc, jobs)):
            log.write("$ " + " ".join(c) + "\n" + (out or "") + "\n")
            if rc != 0:
                return None, "native compile failed: " + (out or "")[-1500:]
    cmd = common + [src_path(h), os.path.join(VERIF, "env", "vp_replay.c")] + [os.path.join(VERIF, "env", e) for e in h.get("native_env", [])]
    cmd += objs + ["-Wl,--allow-multiple-definition", "-o", exe, "-lxml2", "-lm", "-ldl", "-lpthread", "-ludev", "-lpciaccess"]
    rc, out, _, _, _ = run(cmd, timeout=600)
    log.write("$ " + " ".join(cmd) + "\n" + (out or "") + "\n")
    if rc != 0:
        return None, "native link failed: " + (out or "")[-2500:]
    return exe, None


def native_replay(exe, inputs_path, log, timeout_s=20):
    env = dict(os.environ)
    env["ASAN_OPTIONS"] = "detect_leaks=0:abort_on_error=0:exitcode=99:detect_odr_violation=0"
    env["UBSAN_OPTIONS"] = "print_stacktrace=1:halt_on_error=1:exitcode=99"
    p = subprocess.run([exe, inputs_path, str(timeout_s)], stdout=subprocess.PIPE, stderr=subprocess.STDOUT, env=env, timeout=timeout_s + 30)
    out = p.stdout.decode("utf-8", "replace")
    log.write("$ %s %s\n%s\n[exit %d]\n" % (exe, inputs_path, out[-6000:], p.returncode))
    if "VP_REPLAY_CHECK_FAILED" in out:
        kind = "assertion"
    elif "ERROR: AddressSanitizer" in out or "runtime error:" in out:
        kind = "sanitizer"
    elif "VP_REPLAY_TIMEOUT" in out or p.returncode == 98:
        kind = "timeout"
    elif p.returncode == 77:
        kind = "assumption-mismatch"
    elif p.returncode < 0 or "Assertion" in out:
        kind = "crash"
    elif p.returncode == 0:
        kind = "none"
    else:
        kind = "exit-%d" % p.returncode
    return kind, out


def confirm_failure(pid, h, tier, gb, wd, fr, idx, log):
    """fr: failed cbmc result record. Returns dict(kind=..., replay=path, confirmed=bool, detail=...)"""
    trace_path = os.path.join(wd, "trace_%d.txt" % idx)
    to = tier_opt(h, tier, "timeout", 600)
    if is_unwind(fr):
        # unwinding assertions only come into being during symex: --property does not know them. Ask for the traces
        # of the whole run (JSON) and pick the one of this property.
        cmd = [c for c in cbmc_cmd(h, tier, gb)] + ["--trace", "--json-ui"]
        rc, _, wall, _, timed_out = run(cmd, timeout=to * 2, mem_gb=tier_opt(h, tier, "mem_gb", 16), stdout_path=trace_path)
        inputs = extract_inputs_json(trace_path, fr["property"]) if os.path.exists(trace_path) else []
    else:
        cmd = [c for c in cbmc_cmd(h, tier, gb)] + ["--property", fr["property"], "--trace"]
        rc, _, wall, _, timed_out = run(cmd, timeout=to * 2, mem_gb=tier_opt(h, tier, "mem_gb", 16), stdout_path=trace_path)
        inputs = extract_inputs(trace_path) if os.path.exists(trace_path) else []
    os.makedirs(os.path.join(EVID, "replay"), exist_ok=True)
    ipath = os.path.join(EVID, "replay", "%s_%s_%d.in" % (pid, h["name"], idx))
    with open(ipath, "w") as f:
        f.write("# property: %s\n# harness: %s\n# tier: %s\n# cbmc_property: %s\n# description: %s\n" %
                (pid, h["name"], tier, fr["property"], (fr.get("description") or "").replace("\n", " ")))
        loc = fr.get("sourceLocation") or {}
        f.write("# location: %s:%s (%s)\n" % (loc.get("file"), loc.get("line"), loc.get("function")))
        for v in inputs:
            f.write("%d\n" % v)
    try:
        os.remove(trace_path)
    except OSError:
        pass
    exe, err = native_build(h, tier, wd, log)
    if exe is None:
        return dict(kind="native-build-failed", replay=ipath, confirmed=False, detail=err)
    kind, out = native_replay(exe, ipath, log)
    if is_unwind(fr):
        confirmed = (kind == "timeout") or kind in ("sanitizer", "crash", "assertion")
    else:
        confirmed = kind in ("assertion", "sanitizer", "crash", "timeout")
    return dict(kind=kind, replay=ipath, confirmed=confirmed, detail=out[-1200:])


def run_harness(pid, h, tier, keep=False):
    rec = dict(harness=h["name"], entry=h["entry"], src=h["src"], tier=tier, defines=defines_for(h, tier),
               functions_encoded=h.get("encoded", []), bounds=tier_opt(h, tier, "bounds", h.get("bounds", "")),
               stubs=h.get("stubs", []), assumptions=h.get("assumptions", []), core=h.get("core", True))
    wd = os.path.join(WORK, pid, tier, h["name"])
    shutil.rmtree(wd, ignore_errors=True)
    os.makedirs(wd)
    log = open(os.path.join(wd, "log.txt"), "w")
    t0 = time.time()
    try:
        gb, err = build_goto(h, tier, wd, log)
        if gb is None:
            rec.update(verdict="error", error=err)
            return rec
        cmd = cbmc_cmd(h, tier, gb) + ["--json-ui", "--verbosity", "8"]
        rec["cbmc_cmdline"] = " ".join(cmd[2:])
        to = tier_opt(h, tier, "timeout", 600)
        mem = tier_opt(h, tier, "mem_gb", 16)
        outp = os.path.join(wd, "cbmc.json")
        rc, _, wall, _, timed_out = run(cmd, timeout=to, mem_gb=mem, stdout_path=outp)
        rec["cbmc_wall_s"] = round(wall, 2)
        text = open(outp, errors="replace").read()
        results, stats, status, errtxt = parse_cbmc_json(text)
        rec.update(stats)
        if timed_out:
            rec.update(verdict="inconclusive", error="timeout after %ds" % to)
            return rec
        if results is None:
            oom = "bad_alloc" in text or "Out of memory" in text or "out of memory" in text or rc in (-9, -6, 134, 137)
            rec.update(verdict="inconclusive" if oom else "error", error=("out of memory (cap %s GB) " % mem if oom else "no result from cbmc: ") + (errtxt or text[-800:]))
            return rec
        rec["obligations"] = len(results)
        wit = [r for r in results if is_witness(r)]
        fails = [r for r in results if r["status"] in ("FAILURE", "ERROR") and not is_witness(r)]
        unknown = [r for r in results if r["status"] not in ("FAILURE", "ERROR", "SUCCESS")]
        rec["undecided"] = len(unknown)
        if unknown and not fails:
            rec.update(verdict="inconclusive", error="%d properties left undecided by cbmc (status %s)" % (len(unknown), unknown[0]["status"]))
            return rec
        rec["discharged"] = len([r for r in results if r["status"] == "SUCCESS"])
        rec["witnesses"] = len(wit)
        rec["witnesses_reached"] = len([r for r in wit if r["status"] == "FAILURE"])
        rec["witness_texts"] = [r.get("description") for r in wit]
        if not fails:
            if h.get("witness", True) and (not wit or rec["witnesses_reached"] != len(wit)):
                rec.update(verdict="vacuous", error="reachability witness not reached: %s" % [r.get("description") for r in wit if r["status"] != "FAILURE"])
            else:
                rec["verdict"] = "pass"
            return rec
        # failures: confirm up to 3 of them natively
        rec["failed_properties"] = [dict(property=r["property"], description=r.get("description"), status=r["status"],
                                         location="%s:%s" % ((r.get("sourceLocation") or {}).get("file"), (r.get("sourceLocation") or {}).get("line"))) for r in fails[:12]]
        nobody = [r for r in fails if ".no-body." in r.get("property", "")]
        if nobody:
            rec.update(verdict="error", error="harness lacks a stub/unit for: %s" % sorted(set(r["property"].split(".no-body.")[1] for r in nobody)))
            return rec
        if any(r["status"] == "ERROR" for r in fails):
            rec.update(verdict="inconclusive", error="solver error (out of memory?) on %d properties: %s" % (len([r for r in fails if r["status"] == "ERROR"]), errtxt[:300]))
            return rec
        model = [r for r in fails if is_model(r)]
        if model:
            rec.update(verdict="error", error="environment model limitation reached: %s" % model[0].get("description"))
            return rec
        confs = []
        order = [r for r in fails if not is_unwind(r) and not is_bound(r)] + [r for r in fails if is_bound(r)] + [r for r in fails if is_unwind(r)]
        for i, fr in enumerate(order[:3]):
            c = confirm_failure(pid, h, tier, gb, wd, fr, i, log)
            c["property"] = fr["property"]
            c["description"] = fr.get("description")
            confs.append(c)
            if c["confirmed"]:
                break
        rec["confirmations"] = confs
        if any(c["confirmed"] for c in confs):
            rec["verdict"] = "violation"
        else:
            # CBMC reports a failure that the native run does not show
            mem_classes = ("pointer", "bounds", "dereference", "overflow", "array", "NULL", "memcpy", "free", "object")
            nonbound = [r for r in fails if not is_unwind(r) and not is_bound(r)]
            if nonbound and all(any(k in (r.get("description") or "") for k in mem_classes) and not (r.get("description") or "").startswith("VP_CHECK") for r in nonbound) \
               and all(c["kind"] in ("none",) for c in confs):
                rec["verdict"] = "violation-ub-unconfirmed"
            elif not nonbound:
                rec.update(verdict="inconclusive", error="unwinding/growth bound of the harness exceeded by the current code (%s) and the native run terminates: bound too small, nothing decided" % ",".join(sorted(set(r["property"] for r in fails))[:6]))
            else:
                rec.update(verdict="unconfirmed", error="solver counterexample did not reproduce natively (model/stub suspect)")
        return rec
    except Exception as e:  # keep the driver alive, report as error
        import traceback
        rec.update(verdict="error", error="driver exception: %s\n%s" % (e, traceback.format_exc()[-1500:]))
        return rec
    finally:
        rec["wall_s"] = round(time.time() - t0, 2)
        log.close()
        if not keep and rec.get("verdict") == "pass":
            for fn in ("h.gb", "cbmc.json", "replay.bin"):
                try:
                    os.remove(os.path.join(wd, fn))
                except OSError:
                    pass


def libc_model_test(seed):
    wd = os.path.join(WORK, "libctest")
    os.makedirs(wd, exist_ok=True)
    exe = os.path.join(wd, "libctest")
    cmd = ["gcc", "-O1", "-w", os.path.join(VERIF, "env/vp_libc.c"), os.path.join(VERIF, "env/vp_libc_test.c"), "-o", exe]
    rc, out, _, _, _ = run(cmd, timeout=120)
    if rc != 0:
        return False, "cannot build libc model test: " + (out or "")
    rc, out, _, _, _ = run([exe, str(seed), "10000"], timeout=120)
    return rc == 0, (out or "").strip()


def load_known():
    p = os.path.join(VERIF, "known_findings.json")
    if not os.path.exists(p):
        return []
    return json.load(open(p)).get("findings", [])


def do_replay(pid, path):
    hdr = {}
    for line in open(path):
        if line.startswith("# ") and ":" in line:
            k, v = line[2:].split(":", 1)
            hdr[k.strip()] = v.strip()
    mod = load_spec(pid)
    hs = [h for h in mod.HARNESSES if h["name"] == hdr.get("harness")]
    if not hs:
        print("unknown harness in replay file: %s" % hdr.get("harness"))
        return 2
    h, tier = hs[0], hdr.get("tier", "quick")
    if tier not in h["tiers"]:
        tier = list(h["tiers"].keys())[0]
    wd = os.path.join(WORK, pid, "replay", h["name"])
    shutil.rmtree(wd, ignore_errors=True)
    os.makedirs(wd)
    with open(os.path.join(wd, "log.txt"), "w") as log:
        exe, err = native_build(h, tier, wd, log)
        if exe is None:
            print(err)
            return 2
        kind, out = native_replay(exe, path, log)
    print(out[-4000:])
    print("replay of %s (%s): native outcome = %s" % (hdr.get("harness"), hdr.get("description"), kind))
    if kind in ("assertion", "sanitizer", "crash", "timeout"):
        print("VIOLATION property=%s replay=%s" % (pid, path))
        return 1
    return 0


def main():
    args = sys.argv[1:]
    if not args or args[0] in ("-h", "--help"):
        print(__doc__)
        return 2
    if args[0] == "--list":
        for f in sorted(os.listdir(os.path.join(VERIF, "specs"))):
            if re.match(r"C\d+\.py$", f):
                mod = load_spec(f[:-3])
                for h in mod.HARNESSES:
                    print(f[:-3], h["name"], ",".join(h["tiers"].keys()), "core" if h.get("core", True) else "stretch")
        return 0
    pid = args[0]
    tier = os.environ.get("VERIF_TIER", "quick")
    only, jobs, keep = None, int(os.environ.get("VERIF_JOBS", "12")), False
    i = 1
    while i < len(args):
        a = args[i]
        if a == "--tier":
            tier = args[i + 1]; i += 1
        elif a == "--only":
            only = set(args[i + 1].split(",")); i += 1
        elif a == "--jobs":
            jobs = int(args[i + 1]); i += 1
        elif a == "--keep":
            keep = True
        elif a == "--replay":
            return do_replay(pid, args[i + 1])
        i += 1
    if tier not in ("quick", "thorough"):
        tier = "quick"
    try:
        seed = int(os.environ.get("VERIF_SEED", "1"))
    except ValueError:
        seed = 1
    t0 = time.time()
    mod = load_spec(pid)
    hs = [h for h in mod.HARNESSES if tier in h["tiers"] and (only is None or h["name"] in only)]
    ok, msg = libc_model_test(seed)
    print("[%s] libc model differential test: %s" % (pid, msg))
    if not ok:
        print("[%s] INTERNAL: env/vp_libc.c disagrees with glibc; nothing is decided" % pid)
        return 2
    known = [k for k in load_known() if k.get("property") == pid]
    print("[%s] tier=%s harnesses=%d jobs=%d repo=%s" % (pid, tier, len(hs), jobs, REPO))
    recs = []
    # longest first
    hs_sorted = sorted(hs, key=lambda h: -tier_opt(h, tier, "cost", 10))
    with ThreadPoolExecutor(max_workers=jobs) as ex:
        futs = [ex.submit(run_harness, pid, h, tier, keep) for h in hs_sorted]
        for h, f in zip(hs_sorted, futs):
            r = f.result()
            recs.append(r)
            print("[%s] %-34s %-12s wall=%6.1fs symex=%s solver=%s obligations=%s witnesses=%s/%s %s" % (
                pid, r["harness"], r.get("verdict"), r.get("wall_s", 0), r.get("symex_s"), r.get("solver_s"), r.get("obligations"),
                r.get("witnesses_reached"), r.get("witnesses"), ("-- " + str(r.get("error"))[:300]) if r.get("error") else ""))
            sys.stdout.flush()
    # thorough tier, graceful depth: a core harness whose thorough bound ends without verdict for lack of resources
    # (timeout, memory) is decided at its quick bound instead; the evidence records both (the deeper bound as "not reached").
    # A violation, a vacuous witness or an unconfirmed counterexample is never downgraded this way.
    if tier == "thorough":
        for idx, r in enumerate(list(recs)):
            h = next((x for x in hs if x["name"] == r["harness"]), None)
            resource_limited = r.get("verdict") == "inconclusive" and re.search(r"timeout|out of memory|ran out of memory|left undecided", str(r.get("error", "")))
            if h is not None and h.get("core", True) and resource_limited and "quick" in h["tiers"] and h["tiers"]["quick"] != h["tiers"]["thorough"]:
                r2 = run_harness(pid, h, "quick", keep)
                r2["thorough_bound_not_reached"] = dict(bounds=r.get("bounds"), defines=r.get("defines"), reason=str(r.get("error"))[:300], wall_s=r.get("wall_s"))
                r2["harness"] = r["harness"]
                recs[idx] = r2
                print("[%s] %-34s %-12s (thorough bound without verdict: %s; decided at the quick bound instead)" % (pid, r2["harness"], r2.get("verdict"), str(r.get("error"))[:80]))
                sys.stdout.flush()
    # known findings protocol: a violation whose harness carries a 'known' entry is re-run with the
    # exclusion macro; the finding is printed as KNOWN-FINDING when the restricted run passes
    violations, known_hit, inconclusive, errors = [], [], [], []
    byname = {h["name"]: h for h in hs}
    for r in list(recs):      # the re-runs appended below are evidence records, not harnesses of the spec
        v = r.get("verdict")
        if v in ("violation", "violation-ub-unconfirmed"):
            ks = [k for k in known if k.get("status") == "known" and (k.get("harness") == r["harness"] or (k.get("harness_re") and re.search(k["harness_re"], r["harness"])))]
            handled = False
            for k in ks:
                h2 = dict(byname[r["harness"]])
                h2["defines"] = dict(h2.get("defines", {}))
                h2["defines"][k["key"]] = "1"
                h2["name"] = r["harness"] + "__excl_" + k["key"]
                r2 = run_harness(pid, h2, tier, keep)
                recs.append(r2)
                print("[%s] %-34s %-12s (re-run excluding known finding %s)" % (pid, r2["harness"], r2.get("verdict"), k["key"]))
                if r2.get("verdict") == "pass":
                    known_hit.append(k)
                    r["verdict"] = "known-finding"
                    handled = True
                    break
            if not handled:
                violations.append(r)
        elif v in ("inconclusive", "unconfirmed", "vacuous"):
            (inconclusive if not r.get("core", True) and v == "inconclusive" else errors).append(r) if v != "inconclusive" or r.get("core", True) else inconclusive.append(r)
        elif v == "error":
            errors.append(r)
    seen_k = set()
    for k in known_hit:
        if k.get("key") in seen_k:
            continue
        seen_k.add(k.get("key"))
        print("KNOWN-FINDING: property=%s %s" % (pid, k.get("what")))
    for r in violations:
        c = [c for c in r.get("confirmations", []) if c.get("confirmed")] or r.get("confirmations", [])
        rp = c[0]["replay"] if c else ""
        print("[%s] counterexample in %s: %s (native replay: %s)" % (pid, r["harness"], c[0].get("description") if c else "?", c[0].get("kind") if c else "?"))
        print("VIOLATION property=%s replay=%s" % (pid, rp))
    wall = time.time() - t0
    passed = [r for r in recs if r.get("verdict") == "pass"]
    ev = dict(property_id=pid, tier=tier, seed=seed, level="model_checking", wall_s=round(wall, 2), violations=len(violations),
              assumptions=sorted(set(sum([r.get("assumptions", []) for r in recs], []) + getattr(mod, "ASSUMPTIONS", []))),
              coverage=dict(
                  evaluations=len([r for r in recs if r.get("obligations")]),
                  distinct_nontrivial=len([r for r in recs if r.get("witnesses_reached")]),
                  rule="one evaluation = one CBMC query (bounded symbolic execution of the listed real functions + SAT) that returned a verdict; "
                       "non-trivial = its reachability witness assertion(s) came back FAILED, i.e. the asserted post-state is reachable under the harness assumptions; "
                       "distinct = distinct harness/bound combinations",
                  samples=[{k: r.get(k) for k in ("harness", "entry", "defines", "functions_encoded", "bounds", "cbmc_cmdline", "obligations", "discharged",
                                                  "witnesses", "witnesses_reached", "witness_texts", "verdict", "symex_s", "solver_s", "steps", "variables", "clauses",
                                                  "wall_s", "stubs", "error", "failed_properties", "confirmations") if r.get(k) is not None} for r in recs],
                  obligations=sum(r.get("obligations", 0) or 0 for r in recs),
                  discharged=sum(r.get("discharged", 0) or 0 for r in recs),
                  checker_cmd="python3 vp/check.py %s --tier %s" % (pid, tier),
                  trusted_base=["cbmc 6.11.0 (goto-cc, symex, SAT back end)", "env/vp_libc.c + env/vp_alloc.c models (differentially tested against glibc this run: %s)" % msg,
                                "harness oracles under /verif/harness", "gcc ASan/UBSan native replay"],
                  functions_encoded=sorted(set(sum([r.get("functions_encoded", []) for r in recs], []))),
                  bounds={r["harness"]: r.get("bounds") for r in recs},
                  stubs=sorted(set(sum([r.get("stubs", []) for r in recs], []))),
                  solver_time_s=round(sum((r.get("solver_s") or 0) + (r.get("symex_s") or 0) for r in recs), 2),
                  harnesses_passed=len(passed), harnesses_total=len(recs),
                  inconclusive=[r["harness"] for r in recs if r.get("verdict") in ("inconclusive", "unconfirmed", "vacuous", "error")],
                  known_findings_hit=[k.get("key") for k in known_hit],
                  outside_claim=getattr(mod, "OUTSIDE", []),
                  explanation=getattr(mod, "EXPLANATION", ""),
                  exhaustive=False))
    # a partial run (--only) is a development aid: it must not replace the evidence of the full check
    evdir = EVID if only is None else os.path.join(WORK, "evid_partial")
    os.makedirs(evdir, exist_ok=True)
    with open(os.path.join(evdir, pid + ".json"), "w") as f:
        json.dump(ev, f, indent=1, sort_keys=True)
        f.write("\n")
    print("[%s] %d/%d harnesses passed, %d violations, %d inconclusive/error, %.1fs" % (pid, len(passed), len(recs), len(violations), len(errors) + len(inconclusive), wall))
    if violations:
        return 1
    if errors:
        for r in errors:
            print("[%s] NOT DECIDED: %s: %s %s" % (pid, r["harness"], r.get("verdict"), str(r.get("error"))[:500]))
        return 2
    for r in inconclusive:
        print("[%s] stretch harness inconclusive (not counted): %s: %s" % (pid, r["harness"], r.get("error")))
    return 0


if __name__ == "__main__":
    sys.exit(main())
