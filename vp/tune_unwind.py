#!/usr/bin/env python3
"""tune_unwind.py <gb> <entry> <base_unwind> <big>: find the loops that need more than <base_unwind> iterations
(unwinding assertions) and print an unwindset giving them <big>. Development helper, not used by the checks."""
import sys, subprocess, json, re
gb, entry, base, big = sys.argv[1], sys.argv[2], int(sys.argv[3]), int(sys.argv[4])
extra = sys.argv[5:] 
uws = {"memcpy.0": 129, "memcpy.1": 129, "memmove.0": 129, "memmove.1": 129, "memmove.2": 129, "memmove.3": 129, "memset.0": 129, "hwloc__topology_filter_init.0": 24, "hwloc_reset_normal_type_depths.0": 24, "hwloc_connect_levels.2": 24, "hwloc_connect_levels.3": 24, "hwloc_connect_levels.4": 24, "hwloc_connect_special_levels.0": 24, "hwloc_connect_special_levels.1": 24, "hwloc_set_group_depth.1": 24, "strlen.0": 24, "strcpy.0": 24, "build_table.1": 24, "build_table.2": 24}
for it in range(60):
    cmd = ["cbmc", gb, "--function", entry, "--unwind", str(base), "--unwindset", ",".join("%s:%d" % kv for kv in uws.items()), "--unwinding-assertions",
           "--drop-unused-functions", "--no-malloc-may-fail", "--object-bits", "12", "--max-field-sensitivity-array-size", "256", "--json-ui"] + extra
    out = subprocess.run(cmd, stdout=subprocess.PIPE, stderr=subprocess.STDOUT, timeout=900).stdout.decode()
    try: data = json.loads(out)
    except Exception: print("no json", out[-500:]); break
    res = [e["result"] for e in data if "result" in e]
    if not res: print("no result", [e.get("messageText") for e in data if e.get("messageType") == "ERROR"][:3]); break
    failed = [r["property"] for r in res[0] if r["status"] == "FAILURE" and ".unwind." in r["property"]]
    if not failed: print("converged after", it, "rounds"); break
    for f in failed:
        fn, n = f.rsplit(".unwind.", 1); uws["%s.%s" % (fn, n)] = big
    print("round", it, "raised", failed)
print(json.dumps({k: v for k, v in uws.items() if not k.startswith("mem")}))
