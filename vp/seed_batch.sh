#!/bin/bash
# seed_batch.sh <props...> : evaluate seeds A and B of each listed property, one after the other
for P in "$@"; do for L in A B; do [ -d /verif/seeded/${P}_$L ] && SEED_JOBS=${SEED_JOBS:-5} bash /verif/vp/seed_eval.sh ${P}_$L; done; done
