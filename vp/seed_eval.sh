#!/bin/bash
# seed_eval.sh <seed-name> [props...] : run quick checks against a scratch tree = /repo HEAD + seeded/<seed>/patch.diff.
# (Development aid: equivalent to `git -C /repo apply`, check, `git -C /repo checkout -- .`, but leaves /repo and
#  /verif/evidence alone so that several seeds can be evaluated in parallel.) Result: /verif/seeded/<seed>/eval_<prop>.txt
S=$1; shift
PROPS=${@:-${S%%_*}}
T=/tmp/vpseed/$S
rm -rf $T; mkdir -p /tmp/vpseed
git -C /repo worktree add -q --detach $T HEAD || exit 2
git -C $T apply /verif/seeded/$S/patch.diff || { echo "patch does not apply"; git -C /repo worktree remove --force $T; exit 2; }
mkdir -p $T/include/private/autogen $T/include/hwloc/autogen
cp /repo/include/private/autogen/config.h $T/include/private/autogen/; cp /repo/include/hwloc/autogen/config.h $T/include/hwloc/autogen/
cp /repo/hwloc/static-components.h $T/hwloc/ 2>/dev/null
for P in $PROPS; do
  VP_REPO=$T VP_WORK=/tmp/vpseed/work_$S VP_EVID=/tmp/vpseed/evid_$S timeout ${SEED_TIMEOUT:-1800} python3 /verif/vp/check.py $P --tier ${SEED_TIER:-quick} --jobs ${SEED_JOBS:-6} ${SEED_ONLY:+--only $SEED_ONLY} > /tmp/vpseed/$S.$P.log 2>&1
  rc=$?
  { echo "seed=$S property=$P tier=${SEED_TIER:-quick} exit=$rc"; grep -E "^VIOLATION|KNOWN-FINDING|counterexample in|NOT DECIDED|harnesses passed" /tmp/vpseed/$S.$P.log | cut -c1-400; } > /verif/seeded/$S/eval_$P${SEED_ONLY:+.partial}.txt
  echo "SEED-EVAL $S $P exit=$rc"
done
git -C /repo worktree remove --force $T; rm -rf /tmp/vpseed/work_$S /tmp/vpseed/evid_$S
