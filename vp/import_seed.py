#!/usr/bin/env python3
"""import_seed.py <Cxx> <letter> <confirm-log>: copy a confirmed seeded change into /verif/seeded/<Cxx>_<letter>/"""
import sys, os, json, shutil, re
pid, L, log = sys.argv[1], sys.argv[2], sys.argv[3]
src = "/tmp/seedwork_%s" % pid
dst = "/verif/seeded/%s_%s" % (pid, L)
conf = [l.strip() for l in open(log) if "seedwork_%s/%s:" % (pid, L) in l]
if not any(l.endswith("CONFIRMED") and "NOT" not in l for l in conf):
    print("not confirmed:", pid, L, conf); sys.exit(1)
os.makedirs(dst, exist_ok=True)
shutil.copy(os.path.join(src, L + ".diff"), os.path.join(dst, "patch.diff"))
shutil.copy(os.path.join(src, L + "_demo.c"), os.path.join(dst, "demo.c"))
for f, t in ((L + "_demo.txt", "demo.txt"),):
    if os.path.exists(os.path.join(src, f)): shutil.copy(os.path.join(src, f), os.path.join(dst, t))
meta_txt = open(os.path.join(src, L + "_meta.txt")).read() if os.path.exists(os.path.join(src, L + "_meta.txt")) else ""
files = sorted(set(re.findall(r"^\+\+\+ b/(\S+)", open(os.path.join(dst, "patch.diff")).read(), re.M)))
meta = dict(id="%s_%s" % (pid, L), property=pid, files=files, author="independent sub-agent given only the property text and a scratch worktree",
            what_and_needs=meta_txt.strip(),
            confirmed_by="vp/confirm_seed.sh in the scratch worktree: patch applied alone, make, whole suite (make check), demo; then reverted, rebuilt, demo",
            confirmation=conf, detected_by=None)
old = os.path.join(dst, "meta.json")
if os.path.exists(old):
    try: meta["detected_by"] = json.load(open(old)).get("detected_by")
    except Exception: pass
json.dump(meta, open(old, "w"), indent=1)
print("imported", dst)
