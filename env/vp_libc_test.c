/* vp_libc_test.c — native differential test of the env/vp_libc.c models against glibc.
 * This samples the STUBS (trusted base), not any property. A mismatch makes every check exit 2.
 * usage: vp_libc_test <seed> <cases>
 */
#include <stdio.h>
#include <stdlib.h>
#include <string.h>
#include <stdarg.h>
#include <errno.h>
#include <limits.h>

int vp_m_vsnprintf(char *, size_t, const char *, va_list);
int vp_m_snprintf(char *, size_t, const char *, ...);
unsigned long long vp_m_strtoull(const char *, char **, int);
unsigned long vp_m_strtoul(const char *, char **, int);
long vp_m_strtol(const char *, char **, int);
long long vp_m_strtoll(const char *, char **, int);
int vp_m_atoi(const char *);
size_t vp_m_strspn(const char *, const char *);
size_t vp_m_strcspn(const char *, const char *);
char *vp_m_strstr(const char *, const char *);
void vp_m_qsort(void *, size_t, size_t, int (*)(const void *, const void *));
int vp_m_sscanf(const char *, const char *, ...);
extern int vp_m_unsupported;

static unsigned long long st;
static unsigned long long rnd(void) { st = st * 6364136223846793005ULL + 1442695040888963407ULL; return st >> 11; }
static unsigned long long rnd64(void) { unsigned long long a = rnd(), b = rnd(); unsigned sh = (unsigned)(rnd() % 64); return ((a << 32) ^ b) >> sh; }
static int fails;
#define FAIL(...) do { fails++; if (fails < 20) { fprintf(stderr, "MODEL MISMATCH: " __VA_ARGS__); fputc('\n', stderr); } } while (0)

static void rndstr(char *s, size_t max, const char *alpha)
{
  size_t n = rnd() % (max + 1), i, al = strlen(alpha);
  for (i = 0; i < n; i++) s[i] = alpha[rnd() % al];
  s[n] = 0;
}

static void t_printf1(const char *fmt, int kind, unsigned long long v, const char *sv)
{
  char a[64], b[64]; size_t size = rnd() % 40; int ra, rb;
  memset(a, 'Z', sizeof a); memset(b, 'Z', sizeof b);
  switch (kind) {
  case 0: ra = snprintf(a, size, fmt, (unsigned) v); rb = vp_m_snprintf(b, size, fmt, (unsigned) v); break;
  case 1: ra = snprintf(a, size, fmt, (unsigned long) v); rb = vp_m_snprintf(b, size, fmt, (unsigned long) v); break;
  case 2: ra = snprintf(a, size, fmt, (unsigned long long) v); rb = vp_m_snprintf(b, size, fmt, (unsigned long long) v); break;
  case 3: ra = snprintf(a, size, fmt, (int) v); rb = vp_m_snprintf(b, size, fmt, (int) v); break;
  case 4: ra = snprintf(a, size, fmt, sv); rb = vp_m_snprintf(b, size, fmt, sv); break;
  case 5: ra = snprintf(a, size, fmt, (long) v); rb = vp_m_snprintf(b, size, fmt, (long) v); break;
  case 6: ra = snprintf(a, size, fmt, (int)(v % 128 ? v % 128 : 65)); rb = vp_m_snprintf(b, size, fmt, (int)(v % 128 ? v % 128 : 65)); break;
  case 7: ra = snprintf(a, size, fmt, (unsigned) v, (unsigned)(v >> 7)); rb = vp_m_snprintf(b, size, fmt, (unsigned) v, (unsigned)(v >> 7)); break;
  case 8: ra = snprintf(a, size, fmt, sv, (unsigned) v); rb = vp_m_snprintf(b, size, fmt, sv, (unsigned) v); break;
  case 9: ra = snprintf(a, size, fmt, 0.0); rb = vp_m_snprintf(b, size, fmt, 0.0); break;
  default: return;
  }
  if (ra != rb || memcmp(a, b, sizeof a)) FAIL("snprintf fmt=%s size=%zu v=%llu s=%s: glibc %d '%.*s' model %d '%.*s'", fmt, size, v, sv ? sv : "", ra, (int) size, a, rb, (int) size, b);
}

static void t_printf(void)
{
  static const struct { const char *fmt; int kind; } F[] = {
    {"%u",0},{"%x",0},{"%08x",0},{"%04x",0},{"%02x",0},{"%01x",0},{"0x%08x",0},{",%u",0},{"%5u",0},
    {"%lu",1},{"%lx",1},{"%08lx",1},{"0x%08lx",1},{",0x%08lx",1},{"%016lx",1},{"0x%lx",1},
    {"%llu",2},{"%llx",2},{"0x%llx",2},
    {"%d",3},{"%3d",3},{"%03d",3},{"-%d",3},{"%d-",3},{"%i",3},
    {"%s",4},{"[%s]",4},{"%s%%",4},{"%6s",4},{"%.3s",4},
    {"%ld",5},{"%c",6},{"%u-%u",7},{"%x:%x",7},{"%s#%u",8},{"%s:%u",8},{"%f",9},{"%.2f",9},
  };
  static const char *S[] = {"", "a", "Package", "L2Cache", "0xf...f", "abcdefghijklmnopqrstuvwxyz0123456789ABCDEFGH"};
  unsigned i = (unsigned)(rnd() % (sizeof F / sizeof F[0]));
  t_printf1(F[i].fmt, F[i].kind, rnd() % 4 ? rnd64() : (unsigned long long)(rnd() % 12) - 1, S[rnd() % 6]);
}

static void t_strto(void)
{
  char s[32]; static const int bases[] = {0, 10, 16, 8, 0, 10, 16, 2, 36};
  rndstr(s, 24, rnd() % 3 ? "0123456789" : "0123456789abcdefxXF -+,\t9");
  if (rnd() % 8 == 0) strcpy(s, rnd() % 2 ? "18446744073709551615" : "18446744073709551616");
  if (rnd() % 16 == 0) strcpy(s, rnd() % 2 ? "-9223372036854775808" : "9223372036854775808");
  if (rnd() % 16 == 0) strcpy(s, rnd() % 2 ? "0x" : "0xg");
  int base = bases[rnd() % 9]; char *ea, *eb; int xa, xb;
  errno = 0; unsigned long long a = strtoull(s, &ea, base); xa = errno;
  errno = 0; unsigned long long b = vp_m_strtoull(s, &eb, base); xb = errno;
  if (a != b || ea != eb || xa != xb) FAIL("strtoull('%s',%d): glibc %llu end %ld errno %d, model %llu end %ld errno %d", s, base, a, (long)(ea-s), xa, b, (long)(eb-s), xb);
  errno = 0; long la = strtol(s, &ea, base); xa = errno;
  errno = 0; long lb = vp_m_strtol(s, &eb, base); xb = errno;
  if (la != lb || ea != eb || xa != xb) FAIL("strtol('%s',%d): glibc %ld end %ld errno %d, model %ld end %ld errno %d", s, base, la, (long)(ea-s), xa, lb, (long)(eb-s), xb);
  errno = 0; unsigned long ua = strtoul(s, &ea, base); unsigned long ub = vp_m_strtoul(s, &eb, base);
  if (ua != ub || ea != eb) FAIL("strtoul('%s',%d)", s, base);
  /* atoi is only defined by ISO C when representable: compare inside int range */
  if (la >= INT_MIN && la <= INT_MAX && base == 10 && atoi(s) != vp_m_atoi(s)) FAIL("atoi('%s')", s);
}

static void t_span(void)
{
  char s[16], a[8];
  rndstr(s, 12, "ab,: -0x"); rndstr(a, 4, "ab,: -0x");
  if (strspn(s, a) != vp_m_strspn(s, a)) FAIL("strspn('%s','%s')", s, a);
  if (strcspn(s, a) != vp_m_strcspn(s, a)) FAIL("strcspn('%s','%s')", s, a);
  if (strstr(s, a) != vp_m_strstr(s, a)) FAIL("strstr('%s','%s')", s, a);
}

static int cmpi(const void *a, const void *b) { int x = *(const int *)a, y = *(const int *)b; return x < y ? -1 : x > y; }
static void t_qsort(void)
{
  int a[9], b[9]; size_t n = rnd() % 10, i;
  for (i = 0; i < n; i++) a[i] = b[i] = (int)(rnd() % 7);
  qsort(a, n, sizeof(int), cmpi); vp_m_qsort(b, n, sizeof(int), cmpi);
  if (memcmp(a, b, n * sizeof(int))) FAIL("qsort n=%zu", n);
}

static void t_sscanf(void)
{
  char s[64]; unsigned a[9], b[9]; unsigned long la = 7, lb = 7; int ra, rb, k;
  for (k = 0; k < 9; k++) a[k] = b[k] = 0xdead;
  switch (rnd() % 9) {
  case 0: rndstr(s, 14, "0123456789abcdf:. x"); if (rnd()%2) snprintf(s, sizeof s, "%x:%02x:%02x.%01x", (unsigned)(rnd()%70000), (unsigned)(rnd()%300), (unsigned)(rnd()%300), (unsigned)(rnd()%20));
    ra = sscanf(s, "%x:%02x:%02x.%01x", a, a+1, a+2, a+3); rb = vp_m_sscanf(s, "%x:%02x:%02x.%01x", b, b+1, b+2, b+3); break;
  case 1: rndstr(s, 30, "0123456789abcdef:[] "); if (rnd()%2) snprintf(s, sizeof s, "%x [%04x:%04x] [%04x:%04x] %02x %02x", (unsigned)(rnd()%70000), (unsigned)(rnd()%70000), (unsigned)(rnd()%70000), (unsigned)(rnd()%70000), (unsigned)(rnd()%70000), (unsigned)(rnd()%300), (unsigned)(rnd()%300));
    ra = sscanf(s, "%x [%04x:%04x] [%04x:%04x] %02x %02x", a, a+1, a+2, a+3, a+4, a+5, a+6); rb = vp_m_sscanf(s, "%x [%04x:%04x] [%04x:%04x] %02x %02x", b, b+1, b+2, b+3, b+4, b+5, b+6); break;
  case 2: rndstr(s, 8, "0123456789- +x"); ra = sscanf(s, "%u-%u", a, a+1); rb = vp_m_sscanf(s, "%u-%u", b, b+1); break;
  case 3: rndstr(s, 12, "0123456789abcdef:[]-"); if (rnd()%2) snprintf(s, sizeof s, "%x:[%02x-%02x]", (unsigned)(rnd()%70000), (unsigned)(rnd()%300), (unsigned)(rnd()%300));
    ra = sscanf(s, "%x:[%02x-%02x]", a, a+1, a+2); rb = vp_m_sscanf(s, "%x:[%02x-%02x]", b, b+1, b+2); break;
  case 4: rndstr(s, 22, "0123456789 -x"); ra = sscanf(s, "%lu", &la); rb = vp_m_sscanf(s, "%lu", &lb); break;
  case 5: rndstr(s, 6, "0123456789."); { char t[64]; snprintf(t, sizeof t, "<topology version=\"%s\">", s); strcpy(s, t); if (rnd()%4==0) s[rnd()%strlen(s)] = 'q'; }
    ra = sscanf(s, "<topology version=\"%u.%u\">", a, a+1); rb = vp_m_sscanf(s, "<topology version=\"%u.%u\">", b, b+1); break;
  case 6: rndstr(s, 10, "0123456789abcdef:]x"); ra = sscanf(s, "%x:%x]", a, a+1); rb = vp_m_sscanf(s, "%x:%x]", b, b+1); break;
  case 7: rndstr(s, 8, "0123456789abcdef:]x"); ra = sscanf(s, ":%x]", a); rb = vp_m_sscanf(s, ":%x]", b); break;
  default: rndstr(s, 8, "0123456789abcdef:]x"); ra = sscanf(s, "%x:]", a); rb = vp_m_sscanf(s, "%x:]", b); break;
  }
  if (ra != rb) { FAIL("sscanf('%s'): glibc %d model %d", s, ra, rb); return; }
  for (k = 0; k < ra && k < 9; k++) if (a[k] != b[k]) FAIL("sscanf('%s') field %d: glibc %x model %x", s, k, a[k], b[k]);
  if (la != lb) FAIL("sscanf('%s') %%lu: glibc %lu model %lu", s, la, lb);
}

int main(int argc, char **argv)
{
  st = argc > 1 ? strtoull(argv[1], 0, 10) : 1; st = st * 2654435761ULL + 12345;
  long n = argc > 2 ? atol(argv[2]) : 10000, i;
  for (i = 0; i < n; i++) { t_printf(); t_strto(); t_span(); t_qsort(); t_sscanf(); }
  if (vp_m_unsupported) { fprintf(stderr, "model reported an unsupported conversion\n"); fails++; }
  printf("vp_libc_test: %ld rounds x 5 families, %d mismatches\n", n, fails);
  return fails ? 1 : 0;
}
