/* vp_libc.c — models of the libc functions that hwloc uses and CBMC 6.11 does not model (or models
 * with nondeterministic content / data-dependent loops): vsnprintf family, strto{ul,ull,l,ll},
 * atoi/atol, strspn, strcspn, strstr, qsort, sscanf (the conversions hwloc uses).
 *
 * Under goto-cc (VP_CBMC) the functions carry their libc names and replace CBMC's own.
 * Natively they are named vp_m_<name> so that env/vp_libc_test.c can compare them with glibc
 * (run by every check before any solver query; a mismatch aborts the check).
 * The decimal/hex emitters use fixed trip counts so that symex never forks on digit counts.
 */
#include <stdarg.h>
#include <stddef.h>
#include <string.h>
#include <limits.h>
#include <errno.h>

#ifdef VP_CBMC
#include <ctype.h>
/* glibc's isspace()/isdigit()/... macros index the table returned by __ctype_b_loc(): the "C" locale table, built once */
static unsigned short vp_ctype_tab[384]; static const unsigned short *vp_ctype_ptr; static int vp_ctype_ready;
const unsigned short **__ctype_b_loc(void)
{
  if (!vp_ctype_ready) {
    for (int c = 0; c < 256; c++) {
      unsigned short m = 0;
      if (c >= 'A' && c <= 'Z') m |= _ISupper | _ISalpha | _ISalnum | _ISprint | _ISgraph;
      if (c >= 'a' && c <= 'z') m |= _ISlower | _ISalpha | _ISalnum | _ISprint | _ISgraph;
      if (c >= '0' && c <= '9') m |= _ISdigit | _ISxdigit | _ISalnum | _ISprint | _ISgraph;
      if ((c >= 'A' && c <= 'F') || (c >= 'a' && c <= 'f')) m |= _ISxdigit;
      if (c == ' ' || (c >= 9 && c <= 13)) m |= _ISspace;
      if (c == ' ' || c == 9) m |= _ISblank;
      if (c == ' ') m |= _ISprint;
      if (c < 32 || c == 127) m |= _IScntrl;
      if ((c >= 33 && c <= 47) || (c >= 58 && c <= 64) || (c >= 91 && c <= 96) || (c >= 123 && c <= 126)) m |= _ISpunct | _ISprint | _ISgraph;
      vp_ctype_tab[128 + c] = m;
      if (c >= 128) vp_ctype_tab[c - 128 + 0] = m;       /* negative char values -128..-1 alias 128..255 */
    }
    vp_ctype_ptr = vp_ctype_tab + 128; vp_ctype_ready = 1;
  }
  return &vp_ctype_ptr;
}
#define VPM(n) n
#define VPM_ASSERT(c, m) __CPROVER_assert(c, m)
#else
#define VPM(n) vp_m_##n
#define VPM_ASSERT(c, m) do { } while (0)
int vp_m_unsupported;
#endif

#ifndef VP_MAXDEC
#define VP_MAXDEC 20   /* decimal digits emitted at most (harnesses may lower it with assumptions on values) */
#endif

/* Two cursors: *pos is the length the untruncated text needs (the return value; it becomes symbolic as soon as a
 * symbolic-length "%s" argument is counted), vp_wc is where the next byte really goes (== min(*pos, size-1)). Keeping
 * them apart keeps every store index a known constant for symex when the visible part of the text is concrete —
 * a store at a symbolic index would turn the whole buffer into unknowns. */
static size_t vp_wc;
static void vp_put(char *buf, size_t size, size_t *pos, char c)
{
  if (buf && vp_wc + 1 < size) { buf[vp_wc] = c; vp_wc++; }
  (*pos)++;
}

static const unsigned long long vp_p10[20] = {1ULL,10ULL,100ULL,1000ULL,10000ULL,100000ULL,1000000ULL,10000000ULL,100000000ULL,1000000000ULL,
  10000000000ULL,100000000000ULL,1000000000000ULL,10000000000000ULL,100000000000000ULL,1000000000000000ULL,10000000000000000ULL,
  100000000000000000ULL,1000000000000000000ULL,10000000000000000000ULL};

static void vp_put_unsigned(char *buf, size_t size, size_t *pos, unsigned long long v, unsigned base, int width, int zero, int upper, int neg)
{
  /* neg: a '-' sign has to be emitted (counts in the width) */
  int nd = 1, k;
  if (base == 16) {
    for (k = 1; k < 16; k++) if (v >> (4*k)) nd = k+1;
    int pad = width - nd - (neg ? 1 : 0);
    if (!zero) for (k = 0; k < 24; k++) if (k < pad) vp_put(buf, size, pos, ' ');
    if (neg) vp_put(buf, size, pos, '-');
    if (zero) for (k = 0; k < 24; k++) if (k < pad) vp_put(buf, size, pos, '0');
    for (k = 15; k >= 0; k--)
      if (k < nd) { unsigned d = (unsigned)((v >> (4*k)) & 15); vp_put(buf, size, pos, (char)(d < 10 ? '0'+d : (upper?'A':'a')+d-10)); }
  } else {
    for (k = 1; k < VP_MAXDEC; k++) if (v >= vp_p10[k]) nd = k+1;
    int pad = width - nd - (neg ? 1 : 0);
    if (!zero) for (k = 0; k < 24; k++) if (k < pad) vp_put(buf, size, pos, ' ');
    if (neg) vp_put(buf, size, pos, '-');
    if (zero) for (k = 0; k < 24; k++) if (k < pad) vp_put(buf, size, pos, '0');
    for (k = VP_MAXDEC-1; k >= 0; k--)
      if (k < nd) { unsigned d = 0; int j; for (j = 0; j < 9; j++) if (v >= vp_p10[k]) { v -= vp_p10[k]; d++; } vp_put(buf, size, pos, (char)('0'+d)); }
  }
}

int VPM(vsnprintf)(char *buf, size_t size, const char *fmt, va_list ap)
{
  size_t pos = 0;
  vp_wc = 0;
  for (; *fmt; fmt++) {
    if (*fmt != '%') { vp_put(buf, size, &pos, *fmt); continue; }
    fmt++;
    int zero = 0, width = 0, lng = 0, sz = 0, prec = -1, left = 0;
    if (*fmt == '-') { left = 1; fmt++; }
    if (*fmt == '0') { zero = 1; fmt++; }
    if (*fmt == '*') { width = va_arg(ap, int); fmt++; }
    while (*fmt >= '0' && *fmt <= '9') { width = width*10 + (*fmt - '0'); fmt++; }
    if (*fmt == '.') { fmt++; prec = 0; if (*fmt == '*') { prec = va_arg(ap, int); fmt++; } while (*fmt >= '0' && *fmt <= '9') { prec = prec*10 + (*fmt - '0'); fmt++; } }
    while (*fmt == 'l') { lng++; fmt++; }
    if (*fmt == 'z') { sz = 1; lng = 1; fmt++; }
    (void) sz; (void) left;
    switch (*fmt) {
    case '%': vp_put(buf, size, &pos, '%'); break;
#ifdef VP_CBMC
    /* CBMC 6.11 stores a char passed through '...' without the default promotion to int: read the low byte */
    case 'c': vp_put(buf, size, &pos, (char) va_arg(ap, char)); break;
#else
    case 'c': vp_put(buf, size, &pos, (char) va_arg(ap, int)); break;
#endif
    case 's': { const char *s = va_arg(ap, const char *); if (!s) s = "(null)";
                /* the copy loop tests the source bytes themselves, not a precomputed length: a length that depends on a
                 * symbolic byte further on would put a symbolic guard on the copy of the concrete bytes before it */
                size_t k;
                if (width > 0) { size_t l = 0; while (s[l] && (prec < 0 || l < (size_t) prec)) l++; for (k = l; k < (size_t) width; k++) vp_put(buf, size, &pos, ' '); }
                for (k = 0; s[k] && (prec < 0 || k < (size_t) prec); k++) vp_put(buf, size, &pos, s[k]);
                break; }
    case 'i':
    case 'd': { long long v = lng >= 2 ? va_arg(ap, long long) : lng ? va_arg(ap, long) : va_arg(ap, int);
                if (v < 0) vp_put_unsigned(buf, size, &pos, 0ULL - (unsigned long long) v, 10, width, zero, 0, 1);
                else vp_put_unsigned(buf, size, &pos, (unsigned long long) v, 10, width, zero, 0, 0);
                break; }
    case 'u': { unsigned long long v = lng >= 2 ? va_arg(ap, unsigned long long) : lng ? va_arg(ap, unsigned long) : va_arg(ap, unsigned);
                vp_put_unsigned(buf, size, &pos, v, 10, width, zero, 0, 0); break; }
    case 'X':
    case 'x': { unsigned long long v = lng >= 2 ? va_arg(ap, unsigned long long) : lng ? va_arg(ap, unsigned long) : va_arg(ap, unsigned);
                vp_put_unsigned(buf, size, &pos, v, 16, width, zero, *fmt == 'X', 0); break; }
    case 'f': { /* floating point is outside the reach of these checks: harnesses keep such values
                   at 0.0, which prints as "0.000000" (or with the requested precision) */
                double d = va_arg(ap, double);
                VPM_ASSERT(d == 0.0, "VP_MODEL: vsnprintf %f supports only 0.0");
#ifndef VP_CBMC
                if (d != 0.0) vp_m_unsupported = 1;
#endif
                vp_put(buf, size, &pos, '0');
                int p = prec < 0 ? 6 : prec, k;
                if (p > 0) { vp_put(buf, size, &pos, '.'); for (k = 0; k < p; k++) vp_put(buf, size, &pos, '0'); }
                break; }
    default:
      VPM_ASSERT(0, "VP_MODEL: vsnprintf unsupported conversion");
#ifndef VP_CBMC
      vp_m_unsupported = 1;
#endif
      break;
    }
  }
  if (buf && size > 0) buf[vp_wc] = '\0';
  return (int) pos;
}

int VPM(snprintf)(char *buf, size_t size, const char *fmt, ...)
{ va_list ap; va_start(ap, fmt); int r = VPM(vsnprintf)(buf, size, fmt, ap); va_end(ap); return r; }

int VPM(sprintf)(char *buf, const char *fmt, ...)
{ va_list ap; va_start(ap, fmt); int r = VPM(vsnprintf)(buf, (size_t) INT_MAX, fmt, ap); va_end(ap); return r; }

static int vp_digitval(int c)
{
  if (c >= '0' && c <= '9') return c - '0';
  if (c >= 'a' && c <= 'z') return c - 'a' + 10;
  if (c >= 'A' && c <= 'Z') return c - 'A' + 10;
  return 99;
}

/* core of the strto* family; limit = largest magnitude representable */
static unsigned long long vp_strto(const char *nptr, char **endptr, int base, int *negp, int *ovfp)
{
#ifdef VP_CBMC
  /* the C contract of strto*: a NULL string is undefined behaviour. Reported once, here, and the path ends: reading through NULL would
   * otherwise go on with unconstrained bytes through every loop bound below */
  __CPROVER_assert(nptr != 0, "libc contract: strto*/ato* called with a NULL string");
  __CPROVER_assume(nptr != 0);
#endif
  const char *s = nptr; int neg = 0, any = 0, ovf = 0; unsigned long long acc = 0;
  while (*s == ' ' || (*s >= '\t' && *s <= '\r')) s++;
  if (*s == '-') { neg = 1; s++; } else if (*s == '+') s++;
  if ((base == 0 || base == 16) && s[0] == '0' && (s[1] == 'x' || s[1] == 'X') && vp_digitval(s[2]) < 16) { s += 2; base = 16; }
  else if (base == 0) base = s[0] == '0' ? 8 : 10;
  /* cut-off without division: acc*base+d overflows iff acc > cut || (acc == cut && d > lim) */
  unsigned long long cut, lim;
  if (base == 10) { cut = ULLONG_MAX / 10; lim = ULLONG_MAX % 10; }
  else if (base == 16) { cut = ULLONG_MAX / 16; lim = ULLONG_MAX % 16; }
  else if (base == 8) { cut = ULLONG_MAX / 8; lim = ULLONG_MAX % 8; }
  else { cut = ULLONG_MAX / (unsigned) base; lim = ULLONG_MAX % (unsigned) base; }
  for (;; s++) {
    int d = vp_digitval(*s);
    if (d >= base) break;
    any = 1;
    if (ovf || acc > cut || (acc == cut && (unsigned long long) d > lim)) ovf = 1;
    else acc = acc * (unsigned) base + (unsigned) d;
  }
  if (endptr) *endptr = (char *)(any ? s : nptr);
  *negp = neg; *ovfp = ovf;
  return acc;
}

unsigned long long VPM(strtoull)(const char *nptr, char **endptr, int base)
{
  int neg, ovf; unsigned long long acc = vp_strto(nptr, endptr, base, &neg, &ovf);
  if (ovf) { errno = ERANGE; return ULLONG_MAX; }
  return neg ? 0ULL - acc : acc;
}
unsigned long VPM(strtoul)(const char *nptr, char **endptr, int base)
{ return (unsigned long) VPM(strtoull)(nptr, endptr, base); }

long long VPM(strtoll)(const char *nptr, char **endptr, int base)
{
  int neg, ovf; unsigned long long acc = vp_strto(nptr, endptr, base, &neg, &ovf);
  if (!neg && (ovf || acc > (unsigned long long) LLONG_MAX)) { errno = ERANGE; return LLONG_MAX; }
  if (neg && (ovf || acc > (unsigned long long) LLONG_MAX + 1ULL)) { errno = ERANGE; return LLONG_MIN; }
  return neg ? (long long)(0ULL - acc) : (long long) acc;
}
long VPM(strtol)(const char *nptr, char **endptr, int base)
{ return (long) VPM(strtoll)(nptr, endptr, base); }
int VPM(atoi)(const char *s) { return (int) VPM(strtol)(s, 0, 10); }
long VPM(atol)(const char *s) { return VPM(strtol)(s, 0, 10); }

size_t VPM(strspn)(const char *s, const char *accept)
{
  size_t n = 0;
  for (;; n++) { char c = s[n]; if (!c) return n; int ok = 0; const char *a; for (a = accept; *a; a++) if (*a == c) ok = 1; if (!ok) return n; }
}
size_t VPM(strcspn)(const char *s, const char *reject)
{
  size_t n = 0;
  for (;; n++) { char c = s[n]; if (!c) return n; const char *a; for (a = reject; *a; a++) if (*a == c) return n; }
}
char *VPM(strstr)(const char *h, const char *n)
{
  size_t i, j;
  if (!*n) return (char *) h;
  for (i = 0; h[i]; i++) {
    for (j = 0; n[j] && h[i+j] == n[j]; j++) ;
    if (!n[j]) return (char *)(h + i);
    if (!h[i+j]) return 0;
  }
  return 0;
}

/* insertion sort: the comparator contract is all hwloc relies on (no stability assumption is made
 * by callers; harnesses that care assert on sortedness + permutation only) */
void VPM(qsort)(void *base, size_t nmemb, size_t size, int (*cmp)(const void *, const void *))
{
  char *b = (char *) base; size_t i, j, k;
  for (i = 1; i < nmemb; i++)
    for (j = i; j > 0 && cmp(b + (j-1)*size, b + j*size) > 0; j--)
      if ((size & 7) == 0) { for (k = 0; k < size / 8; k++) { unsigned long *x = (unsigned long *)(b + (j-1)*size), *y = (unsigned long *)(b + j*size), t = x[k]; x[k] = y[k]; y[k] = t; } }
      else for (k = 0; k < size; k++) { char t = b[(j-1)*size+k]; b[(j-1)*size+k] = b[j*size+k]; b[j*size+k] = t; }
}

/* sscanf for literals, whitespace, %u %x %d %lu %lx %ld %llu %llx with optional width, %n absent */
int VPM(vsscanf)(const char *str, const char *fmt, va_list ap)
{
  const char *s = str; int conv = 0;
  for (; *fmt; fmt++) {
    if (*fmt == ' ' || (*fmt >= '\t' && *fmt <= '\r')) { while (*s == ' ' || (*s >= '\t' && *s <= '\r')) s++; continue; }
    if (*fmt != '%') { if (*s != *fmt) return (conv == 0 && !*s) ? -1 : conv; s++; continue; }
    fmt++;
    int width = 0, lng = 0;
    while (*fmt >= '0' && *fmt <= '9') { width = width*10 + (*fmt - '0'); fmt++; }
    while (*fmt == 'l') { lng++; fmt++; }
    if (*fmt == '%') { while (*s == ' ' || (*s >= '\t' && *s <= '\r')) s++; if (*s != '%') return conv; s++; continue; }
    int base = (*fmt == 'x' || *fmt == 'X') ? 16 : 10;
    if (*fmt != 'u' && *fmt != 'x' && *fmt != 'X' && *fmt != 'd') { VPM_ASSERT(0, "VP_MODEL: sscanf unsupported conversion"); return conv; }
    while (*s == ' ' || (*s >= '\t' && *s <= '\r')) s++;
    if (!*s) return conv ? conv : -1;
    int w = width ? width : INT_MAX, neg = 0, any = 0; unsigned long long acc = 0; int ovf = 0;
    if ((*s == '-' || *s == '+') && w > 0) { neg = (*s == '-'); s++; w--; }
    if (base == 16 && w >= 2 && s[0] == '0' && (s[1] == 'x' || s[1] == 'X')) {
      /* glibc consumes the "0x" prefix; with no hex digit after it the conversion still succeeds with 0 */
      s += 2; w -= 2; any = 1;
    }
    while (w > 0 && vp_digitval(*s) < base) {
      unsigned d = (unsigned) vp_digitval(*s);
      if (acc > (ULLONG_MAX - d) / (unsigned) base) ovf = 1; else acc = acc * (unsigned) base + d;
      any = 1; s++; w--;
    }
    if (!any) return conv;
    if (*fmt == 'd') {
      long long v;
      if (ovf || acc > (unsigned long long) LLONG_MAX + (neg ? 1ULL : 0ULL)) v = neg ? LLONG_MIN : LLONG_MAX;
      else v = neg ? (long long)(0ULL - acc) : (long long) acc;
      if (lng >= 2) *va_arg(ap, long long *) = v; else if (lng) *va_arg(ap, long *) = (long) v; else *va_arg(ap, int *) = (int) v;
    } else {
      unsigned long long v = ovf ? ULLONG_MAX : (neg ? 0ULL - acc : acc);
      if (lng >= 2) *va_arg(ap, unsigned long long *) = v; else if (lng) *va_arg(ap, unsigned long *) = (unsigned long) v; else *va_arg(ap, unsigned *) = (unsigned) v;
    }
    conv++;
  }
  return conv;
}
int VPM(sscanf)(const char *str, const char *fmt, ...)
{ va_list ap; va_start(ap, fmt); int r = VPM(vsscanf)(str, fmt, ap); va_end(ap); return r; }

#ifdef VP_CBMC
/* floating point is outside the claim: atof/strtod return an arbitrary finite value */
double nondet_double(void);
double atof(const char *s) { (void) s; double d = nondet_double(); __CPROVER_assume(d == d && d > -1e300 && d < 1e300); return d; }
double strtod(const char *s, char **e) { double d = nondet_double(); __CPROVER_assume(d == d && d > -1e300 && d < 1e300); if (e) *e = (char *) s; return d; }
#endif
