/* vp_replay.c — native side of the harness API: inputs come from a file written by vp/check.py
 * out of the CBMC counterexample trace (one unsigned decimal per line, draw order). */
#include <stdio.h>
#include <stdlib.h>
#include <string.h>
#include <unistd.h>
#include <signal.h>
int vp_symbolic_phase = 0;
static unsigned long *vp_vals; static size_t vp_n, vp_pos;
unsigned long vp_in64(void)
{
  if (vp_pos < vp_n) return vp_vals[vp_pos++];
  fprintf(stderr, "VP_REPLAY: input %zu requested beyond the %zu recorded values, using 0\n", vp_pos, vp_n);
  vp_pos++;
  return 0;
}
#ifndef VP_ENTRY
#error "VP_ENTRY must name the harness function"
#endif
void VP_ENTRY(void);
static void on_alarm(int s) { (void)s; static const char m[] = "VP_REPLAY_TIMEOUT: harness did not terminate\n"; if (write(2, m, sizeof(m)-1)) {} _exit(98); }
int main(int argc, char **argv)
{
  if (argc < 2) { fprintf(stderr, "usage: %s inputs-file [timeout_s]\n", argv[0]); return 2; }
  FILE *f = fopen(argv[1], "r");
  if (!f) { perror(argv[1]); return 2; }
  char line[256]; size_t cap = 0;
  while (fgets(line, sizeof line, f)) {
    if (line[0] == '#' || line[0] == '\n') continue;
    if (vp_n == cap) { cap = cap ? 2*cap : 64; vp_vals = realloc(vp_vals, cap * sizeof *vp_vals); }
    vp_vals[vp_n++] = strtoul(line, NULL, 10);
  }
  fclose(f);
  signal(SIGALRM, on_alarm);
  alarm(argc > 2 ? (unsigned) atoi(argv[2]) : 20);
  VP_ENTRY();
  fprintf(stderr, "VP_REPLAY: completed without failure (%zu of %zu inputs consumed)\n", vp_pos, vp_n);
  free(vp_vals);
  return 0;
}
