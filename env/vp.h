/* vp.h — harness API shared by the CBMC build (goto-cc, VP_CBMC defined) and the native
 * replay build (gcc -fsanitize=address,undefined -DVP_REPLAY).
 *
 * Symbolic inputs are drawn ONLY through vp_in64()/VP_IN_*: under CBMC every draw is a fresh
 * nondeterministic 64-bit value that is also assigned to the global `vp_trace_in`, so that the
 * counterexample trace contains all inputs in draw order; under replay the same calls return the
 * recorded values in the same order (the program is deterministic given its inputs).
 */
#ifndef VP_H
#define VP_H
#include <stddef.h>
#include <stdint.h>

#if defined(VP_CBMC)

unsigned long nondet_ulong(void);
extern unsigned long vp_trace_in;
extern int vp_symbolic_phase;
static inline unsigned long vp_in64(void) { unsigned long v = nondet_ulong(); vp_trace_in = v; return v; }
#define VP_ASSUME(c)        __CPROVER_assume(c)
#define VP_CHECK(c, msg)    __CPROVER_assert((c), "VP_CHECK: " msg)
/* reachability witness: must come back FAILED (an unreachable one means the harness is vacuous) */
#define VP_WITNESS(msg)     __CPROVER_assert(0, "VP_WITNESS: " msg)
#define VP_WITNESS_IF(c, msg) do { if (c) __CPROVER_assert(0, "VP_WITNESS: " msg); } while (0)
#define VP_SYMBOLIC_PHASE(on) do { vp_symbolic_phase = (on); } while (0)
#define VP_SAME_OBJECT(p, q) __CPROVER_same_object((p), (q))
#define VP_NONNULL(p)       __CPROVER_assume((p) != 0)
#define VP_HARNESS(name)    void name(void)

#else /* native replay */

#include <stdio.h>
#include <stdlib.h>
unsigned long vp_in64(void);
extern int vp_symbolic_phase;
#define VP_ASSUME(c)        do { if (!(c)) { fprintf(stderr, "VP_REPLAY: assumption does not hold: %s (%s:%d)\n", #c, __FILE__, __LINE__); exit(77); } } while (0)
#define VP_CHECK(c, msg)    do { if (!(c)) { fprintf(stderr, "VP_REPLAY_CHECK_FAILED: %s [%s] (%s:%d)\n", msg, #c, __FILE__, __LINE__); fflush(stderr); abort(); } } while (0)
#define VP_WITNESS(msg)     do { } while (0)
#define VP_WITNESS_IF(c, msg) do { (void)(c); } while (0)
#define VP_SYMBOLIC_PHASE(on) do { vp_symbolic_phase = (on); } while (0)
#define VP_SAME_OBJECT(p, q) 1
#define VP_NONNULL(p)       do { if (!(p)) { fprintf(stderr, "VP_REPLAY: allocation failed\n"); exit(77); } } while (0)
#define VP_HARNESS(name)    void name(void)

#endif

static inline unsigned long vp_in_range(unsigned long lo, unsigned long hi) { unsigned long v = vp_in64(); VP_ASSUME(v >= lo && v <= hi); return v; }
static inline int vp_in_bool(void) { unsigned long v = vp_in64(); VP_ASSUME(v <= 1); return (int) v; }
static inline int vp_in_int(void) { return (int)(unsigned) vp_in64(); }
static inline unsigned vp_in_uint(void) { return (unsigned) vp_in64(); }
static inline unsigned char vp_in_byte(void) { unsigned long v = vp_in64(); VP_ASSUME(v <= 255); return (unsigned char) v; }

#endif
