/* vp_typed_realloc.h — force-included (goto-cc -include) for harnesses whose spec sets typed_realloc.
 * CBMC types a heap object from the size expression of its malloc: `malloc(k * sizeof(T))` is an array of T, while the block
 * behind realloc(p, n) is a byte array — pointers stored in it lose their points-to information and every later write
 * through them fans out over all objects. Every realloc() call of hwloc has a typed pointer argument, so the call is
 * rewritten into: allocate a typed array of n / sizeof(*p) elements, copy the old elements by assignment, free the old block.
 * Same observable behaviour as realloc (new block, old contents, old block freed); allocation never fails (as everywhere).
 */
#ifndef VP_TYPED_REALLOC_H
#define VP_TYPED_REALLOC_H
#if defined(VP_CBMC) && !defined(VP_NO_TYPED_REALLOC)
#include <stdlib.h>
#include <string.h>
#define realloc(p, n) ({ \
  __typeof__(p) vp_ro_ = (p); \
  size_t vp_rc_ = (n) / sizeof(*vp_ro_); \
  __typeof__(p) vp_rn_ = malloc(vp_rc_ * sizeof(*vp_ro_)); \
  __CPROVER_assume(vp_rn_ != 0); \
  if (vp_ro_) { \
    size_t vp_roc_ = __CPROVER_OBJECT_SIZE(vp_ro_) / sizeof(*vp_ro_); \
    for (size_t vp_ri_ = 0; vp_ri_ < vp_roc_ && vp_ri_ < vp_rc_; vp_ri_++) vp_rn_[vp_ri_] = vp_ro_[vp_ri_]; \
    free(vp_ro_); \
  } \
  vp_rn_; })
#endif
#endif
