/* vp_alloc.c — CBMC-side globals and the realloc model (DESIGN §3 rule 1).
 * Compiled only into goto binaries; the native replay uses the real libc. */
#include <stddef.h>
#include <stdlib.h>
#include <string.h>
unsigned long vp_trace_in;
int vp_symbolic_phase = 0;
#ifndef VP_REALLOC_K
#define VP_REALLOC_K 0       /* words copied by a loop model instead of the array primitives; harnesses that reallocate with SYMBOLIC sizes (C03 growth) set 64: exact there, pure cost elsewhere */
#endif
#ifndef VP_KEEP_CBMC_REALLOC
#undef realloc      /* the function itself stays available for code compiled without vp_typed_realloc.h */
void *realloc(void *p, size_t n)
{
  if (vp_symbolic_phase) {
    /* growth paths are proved unreachable inside the harness bound; they are covered by the
     * dedicated *_growth harnesses where sizes are concrete */
    __CPROVER_assert(0, "VP_BOUND: realloc reached in symbolic phase (growth path outside harness bound)");
    __CPROVER_assume(0);
    return 0;
  }
  void *q = malloc(n);
  __CPROVER_assume(q != 0);
  if (p) {
    /* set-up phase only: old and new sizes are concrete here, so CBMC's array primitives are exact (their defect
     * concerns symbolic lengths); first and last byte are re-checked as a guard against a silent miscopy */
    size_t o = __CPROVER_OBJECT_SIZE(p), m = o < n ? o : n;
    if (m && m <= 8 * VP_REALLOC_K && (m & 7) == 0) {
      /* word copy with a fixed trip count: exact for symbolic sizes too (CBMC's array primitives are not, see memcpy) */
#pragma CPROVER check push
#pragma CPROVER check disable "pointer"
#pragma CPROVER check disable "bounds"
#pragma CPROVER check disable "pointer-overflow"
#pragma CPROVER check disable "signed-overflow"
      for (size_t i = 0; i < VP_REALLOC_K && 8 * i < m; i++) ((unsigned long *) q)[i] = ((const unsigned long *) p)[i];
#pragma CPROVER check pop
    } else if (m) {
      char tmp[m];
      __CPROVER_array_copy(tmp, (const char *) p);
      __CPROVER_array_replace((char *) q, tmp);
      __CPROVER_assert(((const char *) q)[0] == ((const char *) p)[0] && ((const char *) q)[m - 1] == ((const char *) p)[m - 1], "VP_MODEL: realloc copy sanity");
    }
    free(p);
  }
  return q;
}
#endif

/* memcpy / memmove / memset.
 * CBMC 6.11's library memcpy (array_replace of a variable-length char array) returns WRONG data when
 * the length is symbolic and the destination was allocated with a typed size expression such as
 * malloc(8 * sizeof(unsigned long)) — found while building C03 (hwloc_bitmap_copy "kept" stale words
 * in the solver's counterexample, native replay disagreed; reduced to a 20-line program).
 * Lengths up to VP_MEM_K are therefore copied by an explicit loop with a fixed trip count; longer
 * (in practice: constant, e.g. sizeof(struct hwloc_topology)) lengths keep the array primitives. */
#ifndef VP_MEM_K
#define VP_MEM_K 128
#endif
/* second tier: whole-structure operations (memset(obj, 0, sizeof *obj), struct array shifts) of constant size up to
 * VP_MEM_BIG bytes are done word by word so that every field stays a known value. Only fixtures that run library
 * set-up code need it (the driver defines VP_MEM_BIG=4096 for harnesses built on vp_seed.h / vp_mini.h); with a
 * SYMBOLIC length the 512-iteration guarded loop is pure cost, so table harnesses leave it off. */
#ifndef VP_MEM_BIG
#define VP_MEM_BIG 0
#endif
#ifndef VP_KEEP_CBMC_MEMCPY
void *memcpy(void *dst, const void *src, size_t n)
{
  __CPROVER_precondition(__CPROVER_w_ok(dst, n), "memcpy destination region writeable");
  __CPROVER_precondition(__CPROVER_r_ok(src, n), "memcpy source region readable");
  __CPROVER_precondition(n == 0 || !__CPROVER_same_object(dst, src) ||
                         (const char *) src >= (const char *) dst + n || (const char *) dst >= (const char *) src + n, "memcpy src/dst overlap");
  __CPROVER_assume(__CPROVER_w_ok(dst, n) && __CPROVER_r_ok(src, n));
  if (n <= VP_MEM_K) {
#pragma CPROVER check push
#pragma CPROVER check disable "pointer"
#pragma CPROVER check disable "bounds"
#pragma CPROVER check disable "pointer-overflow"
#pragma CPROVER check disable "signed-overflow"
    if ((n & 7) == 0 && (__CPROVER_POINTER_OFFSET(dst) & 7) == 0 && (__CPROVER_POINTER_OFFSET(src) & 7) == 0) {
      /* word-wise: keeps pointer-typed fields whole instead of splitting them into bytes */
      for (size_t i = 0; i < VP_MEM_K / 8 && 8 * i < n; i++) ((unsigned long *) dst)[i] = ((const unsigned long *) src)[i];
    } else
    for (size_t i = 0; i < VP_MEM_K && i < n; i++) ((char *) dst)[i] = ((const char *) src)[i];
#pragma CPROVER check pop
  } else if (n <= VP_MEM_BIG && (n & 7) == 0 && (__CPROVER_POINTER_OFFSET(dst) & 7) == 0 && (__CPROVER_POINTER_OFFSET(src) & 7) == 0) {
    /* whole structures: word copies keep pointer fields whole and known (see memset) */
#pragma CPROVER check push
#pragma CPROVER check disable "pointer"
#pragma CPROVER check disable "bounds"
#pragma CPROVER check disable "pointer-overflow"
#pragma CPROVER check disable "signed-overflow"
    for (size_t i = 0; i < VP_MEM_BIG / 8 && 8 * i < n; i++) ((unsigned long *) dst)[i] = ((const unsigned long *) src)[i];
#pragma CPROVER check pop
  } else {
    char src_n[n];
    __CPROVER_array_copy(src_n, (const char *) src);
    __CPROVER_array_replace((char *) dst, src_n);
  }
  return dst;
}
#ifndef VP_CUSTOM_MEMMOVE
void *memmove(void *dst, const void *src, size_t n)
{
  __CPROVER_precondition(__CPROVER_w_ok(dst, n), "memmove destination region writeable");
  __CPROVER_precondition(__CPROVER_r_ok(src, n), "memmove source region readable");
  /* a copy that leaves its objects has been reported just above: do not execute it (what symex would compute from the
   * clobbered neighbours is meaningless and costs everything) */
  __CPROVER_assume(__CPROVER_w_ok(dst, n) && __CPROVER_r_ok(src, n));
  if (n <= VP_MEM_K) {
    char tmp[VP_MEM_K]; unsigned long wtmp[VP_MEM_K / 8];
#pragma CPROVER check push
#pragma CPROVER check disable "pointer"
#pragma CPROVER check disable "bounds"
#pragma CPROVER check disable "pointer-overflow"
#pragma CPROVER check disable "signed-overflow"
    if ((n & 7) == 0 && (__CPROVER_POINTER_OFFSET(dst) & 7) == 0 && (__CPROVER_POINTER_OFFSET(src) & 7) == 0) {
      for (size_t i = 0; i < VP_MEM_K / 8 && 8 * i < n; i++) wtmp[i] = ((const unsigned long *) src)[i];
      for (size_t i = 0; i < VP_MEM_K / 8 && 8 * i < n; i++) ((unsigned long *) dst)[i] = wtmp[i];
    } else {
    for (size_t i = 0; i < VP_MEM_K && i < n; i++) tmp[i] = ((const char *) src)[i];
    for (size_t i = 0; i < VP_MEM_K && i < n; i++) ((char *) dst)[i] = tmp[i];
    }
#pragma CPROVER check pop
  } else if (n <= VP_MEM_BIG && (n & 7) == 0 && (__CPROVER_POINTER_OFFSET(dst) & 7) == 0 && (__CPROVER_POINTER_OFFSET(src) & 7) == 0) {
    /* arrays of structures shifted in place (constant size): word copies in the safe direction keep every field known */
#pragma CPROVER check push
#pragma CPROVER check disable "pointer"
#pragma CPROVER check disable "bounds"
#pragma CPROVER check disable "pointer-overflow"
#pragma CPROVER check disable "signed-overflow"
    if (!__CPROVER_same_object(dst, src) || __CPROVER_POINTER_OFFSET(dst) <= __CPROVER_POINTER_OFFSET(src)) {
      for (size_t i = 0; i < VP_MEM_BIG / 8 && 8 * i < n; i++) ((unsigned long *) dst)[i] = ((const unsigned long *) src)[i];
    } else {
      for (size_t k = 0; k < VP_MEM_BIG / 8 && k < n / 8; k++) { size_t i = n / 8 - 1 - k; ((unsigned long *) dst)[i] = ((const unsigned long *) src)[i]; }
    }
#pragma CPROVER check pop
  } else {
    char src_n[n];
    __CPROVER_array_copy(src_n, (const char *) src);
    __CPROVER_array_replace((char *) dst, src_n);
  }
  return dst;
}
#endif
void *memset(void *s, int c, size_t n)
{
  __CPROVER_precondition(__CPROVER_w_ok(s, n), "memset destination region writeable");
  __CPROVER_assume(__CPROVER_w_ok(s, n));
  if (n <= VP_MEM_K) {
#pragma CPROVER check push
#pragma CPROVER check disable "pointer"
#pragma CPROVER check disable "bounds"
#pragma CPROVER check disable "pointer-overflow"
#pragma CPROVER check disable "signed-overflow"
    if ((n & 7) == 0 && (__CPROVER_POINTER_OFFSET(s) & 7) == 0) {
      /* word-wise: keeps pointer-typed fields whole (byte stores into pointer fields of a structure confuse symex) */
      unsigned long w8 = (unsigned char) c; w8 |= w8 << 8; w8 |= w8 << 16; w8 |= w8 << 32;
      for (size_t i = 0; i < VP_MEM_K / 8 && 8 * i < n; i++) ((unsigned long *) s)[i] = w8;
    } else
    for (size_t i = 0; i < VP_MEM_K && i < n; i++) ((char *) s)[i] = (char) c;
#pragma CPROVER check pop
  } else if (n <= VP_MEM_BIG && (n & 7) == 0 && (__CPROVER_POINTER_OFFSET(s) & 7) == 0) {
    /* whole structures (memset(obj, 0, sizeof *obj)): word stores keep every field a known constant for symex; the
     * array primitive below would make all of them opaque. With a constant n the loop unrolls exactly n/8 times. */
    unsigned long w = (unsigned char) c; w |= w << 8; w |= w << 16; w |= w << 32;
#pragma CPROVER check push
#pragma CPROVER check disable "pointer"
#pragma CPROVER check disable "bounds"
#pragma CPROVER check disable "pointer-overflow"
#pragma CPROVER check disable "signed-overflow"
    for (size_t i = 0; i < VP_MEM_BIG / 8 && 8 * i < n; i++) ((unsigned long *) s)[i] = w;
#pragma CPROVER check pop
  } else {
    unsigned char s_n[n];
    __CPROVER_array_set(s_n, (unsigned char) c);
    __CPROVER_array_replace((unsigned char *) s, s_n);
  }
  return s;
}
/* the compiler builtins (glibc's CPU_ZERO_S, fortified string.h, struct copies lowered by the front end) would
 * otherwise get CBMC's library bodies, i.e. the defective symbolic-length path: route them to the models above */
void *__builtin_memset(void *s, int c, size_t n) { return memset(s, c, n); }
void *__builtin_memcpy(void *d, const void *s, size_t n) { return memcpy(d, s, n); }
void *__builtin_memmove(void *d, const void *s, size_t n) { return memmove(d, s, n); }
void *__builtin___memset_chk(void *s, int c, size_t n, size_t os) { (void) os; return memset(s, c, n); }
void *__builtin___memcpy_chk(void *d, const void *s, size_t n, size_t os) { (void) os; return memcpy(d, s, n); }
void *__builtin___memmove_chk(void *d, const void *s, size_t n, size_t os) { (void) os; return memmove(d, s, n); }
#endif
