/* C20 — hwloc-calc's output modes describe the set it computed: -N (number of objects), -I (their indexes), --largest (and feeding
 * its output back through the location evaluator), --single, default formats.
 * Real code: utils/hwloc/hwloc-calc.c (hwloc_calc_output and its helpers; main() renamed, its option variables set by the harness)
 * on the hand-linked topology of vp_mini.h. stdout is captured: printf is redirected to a buffer.
 */
#include "private/autogen/config.h"
#include "hwloc.h"
#include "private/private.h"
#include "private/misc.h"
#include <string.h>
#include <stdio.h>
#include <stdarg.h>
#include <assert.h>
#include "vp_mini.h"
#include <ctype.h>
#ifdef VP_CBMC
void hwloc_internal_distances_refresh(hwloc_topology_t t) { (void) t; }
void hwloc_internal_memattrs_refresh(hwloc_topology_t t) { (void) t; }
int hwloc_hide_errors(void) { return 2; }
char *getenv(const char *n) { (void) n; return 0; }
#undef isdigit
#undef isspace
int isdigit(int c) { return c >= '0' && c <= '9'; }
int fprintf(FILE *f, const char *fmt, ...) { (void) f; (void) fmt; return 0; }
void perror(const char *s) { (void) s; }
#endif
#define vp_bm vp_mbm
#define vp_w vp_mw
#define OUTCAP 96
static char OUT[OUTCAP]; static unsigned OUTN;
static int vp_printf(const char *fmt, ...)
{ va_list ap; va_start(ap, fmt); int r = vsnprintf(OUT + OUTN, OUTCAP - OUTN, fmt, ap); va_end(ap); if (r > 0) OUTN = OUTN + (unsigned) r < OUTCAP ? OUTN + (unsigned) r : OUTCAP - 1; return r; }
#define printf vp_printf
#define main hwloc_calc_main
#include "utils/hwloc/hwloc-calc.c"
#undef main
#undef printf

#ifndef NSLICE
#define NSLICE 1
#endif
#ifndef SLICE
#define SLICE 0
#endif
#ifndef OTYPE
#define OTYPE 0      /* 0 PU, 1 Package, 2 NUMANode */
#endif
static const hwloc_obj_type_t otypes[3] = { HWLOC_OBJ_PU, HWLOC_OBJ_PACKAGE, HWLOC_OBJ_NUMANODE };
static void level_of(struct hwloc_topology *t, struct hwloc_calc_level *l, hwloc_obj_type_t ty)
{ memset(l, 0, sizeof *l); l->type = ty; l->depth = hwloc_get_type_depth(t, ty); l->memory_tier = -1; l->pci_vendor = l->pci_device = -1; l->only_hbm = -1; }
static void no_level(struct hwloc_calc_level *l) { memset(l, 0, sizeof *l); l->depth = HWLOC_TYPE_DEPTH_UNKNOWN; l->memory_tier = -1; l->pci_vendor = l->pci_device = -1; l->only_hbm = -1; }

/* ---- -N and -I on every set: the number printed by -N is the number of indexes -I lists, and both are the objects of the level that
 *      intersect the set --------------------------------------------------------------------------------------------------------------- */
VP_HARNESS(h_number_intersect)
{
  struct hwloc_topology *t = vp_mini_build();
  unsigned long q = vp_in64(), qn = vp_in64(); VP_ASSUME(q < 256 && qn < 16);
  int phys = vp_in_bool(), withtype = vp_in_bool();
  hwloc_obj_type_t ty = otypes[OTYPE];
  /* brute force over the level */
  unsigned n = 0, idx[4]; int d = hwloc_get_type_depth(t, ty);
  for (hwloc_obj_t o = hwloc_get_obj_by_depth(t, d, 0); o; o = o->next_cousin) { int hit = ty == HWLOC_OBJ_NUMANODE ? (vp_w(o->nodeset) & qn) != 0 : (vp_w(o->cpuset) & q) != 0; if (hit && n < 4) idx[n++] = phys ? o->os_index : o->logical_index; }
  logicalo = !phys; objecto = withtype; showlargestobjs = 0; singlify = 0; no_smt = -1; default_nodes = 0; hiernblevels = 0; local_numanodes = 0; cpukind_cpuset = NULL;
  /* -N */
  level_of(t, &numberof, ty); no_level(&intersect);
  OUTN = 0; OUT[0] = 0;
  hwloc_bitmap_t c = vp_bm(q), nd = vp_bm(qn);
  int r = hwloc_calc_output(t, NULL, c, nd);
  VP_CHECK(r == EXIT_SUCCESS && OUTN == 2 && OUT[0] == (char) ('0' + n) && OUT[1] == '\n', "-N prints the number of objects of the level that intersect the set");
  /* -I */
  no_level(&numberof); level_of(t, &intersect, ty);
  OUTN = 0; OUT[0] = 0;
  r = hwloc_calc_output(t, NULL, c, nd);
  VP_CHECK(r == EXIT_SUCCESS, "-I succeeds");
  /* expected text: [Type:]i,[Type:]j...\n */
  char ex[OUTCAP]; unsigned p = 0; const char *tn = ty == HWLOC_OBJ_PU ? "PU" : ty == HWLOC_OBJ_PACKAGE ? "Package" : "NUMANode";
  for (unsigned k = 0; k < 4; k++) if (k < n) { if (k) ex[p++] = ','; if (withtype) { for (unsigned j = 0; tn[j]; j++) ex[p++] = tn[j]; ex[p++] = ':'; } ex[p++] = (char) ('0' + idx[k]); }
  ex[p++] = '\n'; ex[p] = 0;
  VP_CHECK(OUTN == p, "-I lists exactly as many indexes as -N counts");
  for (unsigned k = 0; k < OUTCAP; k++) if (k < p) VP_CHECK(OUT[k] == ex[k], "-I lists the logical or physical indexes of exactly those objects, in order");
  VP_WITNESS_IF(n == 2, "two objects listed");
  VP_WITNESS_IF(n == 0, "no object");
}

/* ---- --largest: the objects printed are disjoint, cover the set exactly, and feeding the output back gives the same set --------------------- */
static unsigned lg_runs;
static void largest_case(struct hwloc_topology *t, unsigned long q, int phys)
{
  logicalo = !phys; objecto = 0; showlargestobjs = 1; singlify = 0; no_smt = -1; default_nodes = 0; hiernblevels = 0; local_numanodes = 0; cpukind_cpuset = NULL;
  no_level(&numberof); no_level(&intersect);
  OUTN = 0; OUT[0] = 0;
  hwloc_bitmap_t c = vp_bm(q), nd = vp_bm(0);
  int r = hwloc_calc_output(t, NULL, c, nd);
  lg_runs++;
  VP_CHECK(r == EXIT_SUCCESS && OUTN >= 2 && OUT[OUTN - 1] == '\n', "--largest prints a line");
  /* feed every printed token back through the location evaluator */
  struct hwloc_calc_location_context_s lc; lc.topology = t; lc.topodepth = hwloc_topology_get_depth(t); lc.only_hbm = -1; lc.logical = !phys; lc.verbose = -1;
  struct hwloc_calc_set_context_s sc; sc.nodeset_input = 0; sc.cpuset_input_format = HWLOC_UTILS_CPUSET_FORMAT_HWLOC; sc.output_cpuset = hwloc_bitmap_alloc(); sc.output_nodeset = hwloc_bitmap_alloc();
  unsigned long acc = 0; unsigned start = 0, tokens = 0;
  for (unsigned k = 0; k < OUTCAP; k++) if (k < OUTN && (OUT[k] == ' ' || OUT[k] == '\n')) {
    OUT[k] = 0;
    hwloc_bitmap_zero(sc.output_cpuset); hwloc_bitmap_zero(sc.output_nodeset);
    int e = hwloc_calc_process_location_as_set(&lc, &sc, &OUT[start]);
    VP_CHECK(e == 0, "--largest: every printed object is a location the evaluator accepts");
    unsigned long w = vp_w(sc.output_cpuset);
    VP_CHECK(w && !(w & acc), "--largest: the printed objects are non-empty and pairwise disjoint");
    acc |= w; start = k + 1; tokens++;
  }
  VP_CHECK(acc == q, "--largest: feeding the output back yields the same set");
  (void) tokens;
}
VP_HARNESS(h_largest)
{
  struct hwloc_topology *t = vp_mini_build();
  static const unsigned long sets[15] = { 0x01, 0x02, 0x04, 0x20, 0x03, 0x05, 0x21, 0x06, 0x22, 0x24, 0x07, 0x23, 0x25, 0x26, 0x27 };
  unsigned si = (unsigned) vp_in_range(0, 14); int phys = vp_in_bool(); unsigned ci = 0;
  for (unsigned k = 0; k < 15; k++) for (int p = 0; p < 2; p++) if ((ci++ % NSLICE) == SLICE && si == k && phys == p) largest_case(t, sets[k], p);
  VP_WITNESS_IF(lg_runs >= 1, "a --largest run of this slice executed");
}
