/* C17 — the component registry's reference count is balanced on every path of the XML diff entry points.
 * Threads working on distinct topologies share one thing: the component registry, kept alive by a reference count that
 * every topology and every "first XML call" entry point takes and releases. A path that releases without having taken
 * (or the reverse) unloads the components under another thread's feet, or leaks them.
 * Real code: hwloc_topology_diff_export_xml / _export_xmlbuffer / _load_xml / _load_xmlbuffer (hwloc/topology-xml.c,
 * textually included). The XML backends are recorders returning a symbolic result; the registry is a counter.
 */
#include "private/autogen/config.h"
#include "vp.h"
#include <locale.h>
#include <errno.h>
static int vp_refs, vp_inits, vp_finis, vp_min_refs;
void hwloc_components_init(void);
void hwloc_components_fini(void);
#ifdef VP_CBMC
locale_t newlocale(int m, const char *l, locale_t b) { (void) m; (void) l; (void) b; return (locale_t) 0; }
locale_t uselocale(locale_t l) { (void) l; return (locale_t) 0; }
void freelocale(locale_t l) { (void) l; }
char *getenv(const char *n) { (void) n; return 0; }
int hwloc_hide_errors(void) { return 2; }
#endif
#include "hwloc/topology-xml.c"
static int vp_ret, vp_errno, vp_backend_calls;
static int be_export_diff_file(union hwloc_topology_diff_u *d, const char *r, const char *f) { (void) d; (void) r; (void) f; vp_backend_calls++; VP_CHECK(vp_refs >= 1, "the backend runs while a reference is held"); errno = vp_errno; return vp_ret; }
static int be_export_diff_buffer(union hwloc_topology_diff_u *d, const char *r, char **b, int *l) { (void) d; (void) r; (void) b; (void) l; vp_backend_calls++; VP_CHECK(vp_refs >= 1, "the backend runs while a reference is held"); errno = vp_errno; return vp_ret; }
static int be_import_diff(struct hwloc__xml_import_state_s *s, const char *p, const char *b, int l, union hwloc_topology_diff_u **d, char **r) { (void) s; (void) p; (void) b; (void) l; (void) d; (void) r; vp_backend_calls++; VP_CHECK(vp_refs >= 1, "the backend runs while a reference is held"); errno = vp_errno; return vp_ret; }
static struct hwloc_xml_callbacks vp_nolibxml = { NULL, NULL, NULL, NULL, be_import_diff, be_export_diff_file, be_export_diff_buffer };
static struct hwloc_xml_callbacks vp_libxml = { NULL, NULL, NULL, NULL, be_import_diff, be_export_diff_file, be_export_diff_buffer };
static struct hwloc_xml_component vp_comp = { &vp_nolibxml, &vp_libxml };
static int vp_have_libxml;
/* the registry: a counter; the first reference registers the XML backends, the last release forgets them (what the real
 * registry does when it loads / unloads the xml components) */
void hwloc_components_init(void) { vp_inits++; vp_refs++; if (vp_refs == 1) { vp_comp.libxml_callbacks = vp_have_libxml ? &vp_libxml : NULL; hwloc_xml_callbacks_register(&vp_comp); } }
void hwloc_components_fini(void) { vp_finis++; vp_refs--; if (vp_refs < vp_min_refs) vp_min_refs = vp_refs; if (vp_refs == 0) hwloc_xml_callbacks_reset(); }

#ifndef EP
#define EP 0      /* 0 diff_export_xmlbuffer, 1 diff_export_xml (file), 2 diff_load_xmlbuffer, 3 diff_load_xml (file) */
#endif
#ifndef NE
#define NE 2
#endif
VP_HARNESS(h_refcount)
{
  /* a diff list of NE entries whose types are symbolic (attr / too complex / unknown) */
  struct hwloc_topology_diff_obj_attr_s *e[NE];
  for (unsigned i = 0; i < NE; i++) { e[i] = malloc(sizeof(*e[i])); VP_NONNULL(e[i]); static const struct hwloc_topology_diff_obj_attr_s z; *e[i] = z; }
  int complex = 0;
  for (unsigned i = 0; i < NE; i++) { unsigned ty = (unsigned) vp_in_range(0, 2); e[i]->type = ty == 0 ? HWLOC_TOPOLOGY_DIFF_OBJ_ATTR : ty == 1 ? HWLOC_TOPOLOGY_DIFF_TOO_COMPLEX : (hwloc_topology_diff_type_t) 99; if (ty == 1) complex = 1; e[i]->next = i + 1 < NE ? (hwloc_topology_diff_t) e[i + 1] : NULL; }
  int others = (int) vp_in_range(0, 2);                 /* references held by other topologies / threads */
  vp_have_libxml = vp_in_bool();
  for (int k = 0; k < 2; k++) if (k < others) hwloc_components_init();
  vp_ret = vp_in_bool() ? 0 : -1; vp_errno = vp_in_bool() ? ENOSYS : EINVAL;
  int before = vp_refs; vp_min_refs = vp_refs; vp_backend_calls = 0;
  char *buf = NULL; int len = 0; hwloc_topology_diff_t in = NULL; char *ref = NULL; static const char text[] = "<x/>";
  int r;
#if EP == 0
  r = hwloc_topology_diff_export_xmlbuffer((hwloc_topology_diff_t) e[0], "ref", &buf, &len);
#elif EP == 1
  r = hwloc_topology_diff_export_xml((hwloc_topology_diff_t) e[0], "ref", "/nonexistent/f.xml");
#elif EP == 2
  r = hwloc_topology_diff_load_xmlbuffer(text, (int) sizeof text, &in, &ref);
#else
  r = hwloc_topology_diff_load_xml("/nonexistent/f.xml", &in, &ref);
#endif
  VP_CHECK(vp_refs == before, "the reference count of the component registry is the same after the call as before it, on every path");
  VP_CHECK(vp_min_refs >= before, "the call never drops a reference it does not own (another thread's topology would lose its components)");
#if EP <= 1
  if (complex) VP_CHECK(r == -1 && vp_backend_calls == 0, "a TOO_COMPLEX entry cannot be exported: -1 before any backend runs");
#endif
  VP_WITNESS_IF(vp_backend_calls == 2, "libxml answered ENOSYS, the built-in backend took over");
#if EP <= 1
  VP_WITNESS_IF(complex && others == 0, "a too-complex list refused while nobody else holds a reference");
#endif
}
