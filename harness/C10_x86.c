/* C10 — "hwloc_topology_load() leaves the caller's binding as it found it": the x86 discovery binds the calling thread to every
 * processor in turn. Real code: look_procs() of hwloc/topology-x86.c — its body is copied out of the current source by the driver
 * (x86procs.inc, renamed look_procs__vp) and compiled here with the per-processor CPUID work (look_proc) and the summary redirected
 * to empty stand-ins; the binding callbacks are the harness's recording stubs.
 */
#include "vp.h"
#include "hwloc/topology-x86.c"

#ifndef NP
#define NP 3
#endif
static unsigned long vp_orig; static int vp_get_fails, vp_get_calls;
static unsigned vp_nset; static unsigned long vp_set_w[NP + 2]; static int vp_set_f[NP + 2]; static unsigned vp_fail_mask;
static int stub_get(hwloc_topology_t t, hwloc_cpuset_t set, int flags) { (void) t; (void) flags; vp_get_calls++; if (vp_get_fails) return -1; hwloc_bitmap_from_ulong(set, vp_orig); return 0; }
static int stub_set(hwloc_topology_t t, hwloc_const_cpuset_t set, int flags)
{ (void) t; unsigned k = vp_nset++; if (k < NP + 2) { vp_set_w[k] = hwloc_bitmap_to_ulong(set); vp_set_f[k] = flags; } return (vp_fail_mask >> (k < 8 ? k : 7)) & 1 ? -1 : 0; }
static unsigned vp_looked;
static void vp_look_proc(struct hwloc_backend *b, struct procinfo *infos, unsigned long flags, unsigned hc, unsigned hec, unsigned *features, enum cpuid_type ct, struct cpuiddump *d)
{ (void) b; (void) flags; (void) hc; (void) hec; (void) features; (void) ct; (void) d; infos->present = 1; vp_looked++; }
static void vp_summarize(struct hwloc_backend *b, struct procinfo *infos, unsigned long flags) { (void) b; (void) infos; (void) flags; }
#define look_proc vp_look_proc
#define summarize vp_summarize
#include "x86procs.inc"
#undef look_proc
#undef summarize

VP_HARNESS(h_x86_binding_restored)
{
  static struct { struct hwloc_backend be; struct hwloc_x86_backend_data_s d; } B;
  static struct hwloc_topology T; static struct procinfo infos[NP];
  memset(&B, 0, sizeof B); memset(&T, 0, sizeof T); memset(infos, 0, sizeof infos);
  B.be.topology = &T;
  unsigned np = (unsigned) vp_in_range(1, NP);
  B.d.nbprocs = np; B.d.apicid_unique = 0; B.d.src_cpuiddump_path = NULL;
  vp_orig = vp_in_range(1, 255); vp_get_fails = vp_in_bool(); vp_fail_mask = (unsigned) vp_in_range(0, 255);
  int use_restrict = vp_in_bool(); unsigned long rs = vp_in_range(0, 255);
  hwloc_bitmap_t restrict_set = NULL; if (use_restrict) { restrict_set = hwloc_bitmap_alloc(); VP_NONNULL(restrict_set); hwloc_bitmap_from_ulong(restrict_set, rs); }
  unsigned features[19]; memset(features, 0, sizeof features);
  int r = look_procs__vp(&B.be, infos, 0, 0, 0, features, unknown, stub_get, stub_set, restrict_set);
  if (vp_get_fails) { VP_CHECK(r == -1 && vp_nset == 0 && vp_looked == 0, "x86 discovery: when the current binding cannot be read nothing is bound and the discovery gives up"); }
  else {
    VP_CHECK(r == 0 && vp_get_calls == 1, "x86 discovery reads the caller's binding once");
    VP_CHECK(vp_nset >= 1 && vp_nset <= np + 1, "one binding call per processor plus the restoration");
    unsigned last = vp_nset - 1;
    VP_CHECK(last < NP + 2 && vp_set_w[last] == vp_orig, "x86 discovery ends by restoring the binding it found (hwloc_topology_load leaves the caller's binding as it found it)");
    unsigned long seen = 0;
    for (unsigned k = 0; k < NP + 1; k++) if (k < last) { unsigned long w = vp_set_w[k];
      VP_CHECK(w && !(w & (w - 1)) && w < (1UL << np) && !(w & seen) && (!use_restrict || (w & rs)) && vp_set_f[k] == HWLOC_CPUBIND_STRICT, "x86 discovery binds strictly to one processor at a time, each processor of the restrict set at most once");
      seen |= w; }
    VP_CHECK(vp_looked <= last, "a processor is only examined after a successful binding to it");
  }
  VP_WITNESS_IF(!vp_get_fails && vp_nset == np + 1 && np == NP, "every processor visited and the binding restored");
  VP_WITNESS_IF(vp_get_fails, "binding unreadable");
}
