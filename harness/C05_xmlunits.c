/* C05 / C06 — the XML leaf mechanisms that carry arbitrary bytes: base64, attribute escaping, userdata, attribute tokenizer.
 * Real code: hwloc/base64.c, hwloc/topology-xml.c (userdata export/import), hwloc/topology-xml-nolibxml.c (escape,
 * next_attr), all textually included. Whole-topology export->import is thousands of characters of text: outside.
 * The userdata round trip runs the real export and import logic against a RECORDING backend: the export callbacks
 * (new_child/new_prop/add_content/end_object) store what the common code emits, the import callbacks
 * (next_attr/get_content/close_*) replay it with the documented get_content contract.
 */
#include "private/autogen/config.h"
#include "vp.h"
#include <locale.h>
#include <errno.h>
#ifdef VP_CBMC
locale_t newlocale(int m, const char *l, locale_t b) { (void) m; (void) l; (void) b; return (locale_t) 0; }
locale_t uselocale(locale_t l) { (void) l; return (locale_t) 0; }
void freelocale(locale_t l) { (void) l; }
char *getenv(const char *n) { (void) n; return 0; }
int hwloc_hide_errors(void) { return 2; }
void hwloc_components_init(void) { }
void hwloc_components_fini(void) { }
#endif
#ifdef VP_CBMC
/* strlen with a contract for ONE registered string: the harness assumes "no NUL in the first n bytes, NUL at n", symex
 * cannot use that assumption, and a symbolic length makes malloc(fulllen*6+1) an object of symbolic size (array theory:
 * 13 GB for a 1-byte string). For the registered pointer the assumed length is returned as a constant. */
static const char *vp_known_str; static size_t vp_known_len;
size_t strlen(const char *p) { if (vp_known_str && p == vp_known_str) return vp_known_len; size_t n = 0; while (p[n]) n++; return n; }
#endif
#include "hwloc/base64.c"
#include "hwloc/topology-xml.c"
#include "hwloc/topology-xml-nolibxml.c"

#ifndef L
#define L 3
#endif

/* ---- base64: decode(encode(x)) == x for every byte string of length L ---------------------------------------------------- */
VP_HARNESS(h_base64_roundtrip)
{
  char *src = malloc(L + 1); VP_NONNULL(src);
  for (unsigned i = 0; i < L; i++) src[i] = (char) vp_in_byte();
  src[L] = 0;
  size_t el = BASE64_ENCODED_LENGTH(L);
  char *enc = malloc(el + 1); VP_NONNULL(enc);
  for (unsigned i = 0; i <= el; i++) enc[i] = 0x55;
  int r = hwloc_encode_to_base64(src, L, enc, el + 1);
  VP_CHECK(r == (int) el && enc[el] == 0, "base64: encoding L bytes gives exactly BASE64_ENCODED_LENGTH(L) characters and a terminator");
  for (unsigned i = 0; i < el; i++) { char c = enc[i]; VP_CHECK((c >= 'A' && c <= 'Z') || (c >= 'a' && c <= 'z') || (c >= '0' && c <= '9') || c == '+' || c == '/' || c == '=', "base64: only alphabet characters (nothing XML has to escape)"); }
  char *dec = malloc(L + 1); VP_NONNULL(dec);
  for (unsigned i = 0; i <= L; i++) dec[i] = 0x55;
  int d = hwloc_decode_from_base64(enc, dec, L + 1);
  VP_CHECK(d == L, "base64: decoding returns the original length");
  for (unsigned i = 0; i < L; i++) VP_CHECK(dec[i] == src[i], "base64: decode(encode(x)) == x");
  /* a target that is one byte too short for the payload must be refused, not overrun (exactly sized heap object) */
#if L > 0
  char *small = malloc(L - 1 + 1); VP_NONNULL(small);
  int ds = hwloc_decode_from_base64(enc, small, L - 1);
  VP_CHECK(ds == -1, "base64: a target shorter than the payload is refused");
#endif
  VP_WITNESS("round trip executed");
}

/* ---- base64 decode of arbitrary text ------------------------------------------------------------------------------------------- */
VP_HARNESS(h_base64_decode_bytes)
{
  char *txt = malloc(L + 1); VP_NONNULL(txt);
  for (unsigned i = 0; i < L; i++) txt[i] = (char) vp_in_byte();
  txt[L] = 0;
  size_t ts = (size_t) vp_in_range(0, 4);
  char *dst = malloc(4 + 1); VP_NONNULL(dst);
  for (unsigned i = 0; i <= 4; i++) dst[i] = 0x55;
  int d = hwloc_decode_from_base64(txt, dst, ts);
  VP_CHECK(d == -1 || (d >= 0 && (size_t) d <= ts), "base64 decode of arbitrary text: -1 or at most targsize bytes");
  for (unsigned i = 0; i <= 4; i++) if (i >= ts) VP_CHECK(dst[i] == 0x55, "base64 decode never writes at or beyond target+targsize");
  VP_WITNESS_IF(d == 2, "two bytes decoded");
  VP_WITNESS_IF(d == -1, "rejected");
}

/* ---- attribute text: unescape(escape(s)) == s, and the escaped text is well-formed attribute content ----------------------------- */
VP_HARNESS(h_escape_roundtrip)
{
  char *s = malloc(L + 1); VP_NONNULL(s);
  for (unsigned i = 0; i < L; i++) { char c = (char) vp_in_byte(); VP_ASSUME(c != 0); s[i] = c; }
  s[L] = 0;
#ifdef VP_CBMC
  vp_known_str = s; vp_known_len = L;
#endif
  char *e = hwloc__nolibxml_export_escape_string(s);
  const char *t = e ? e : s;
  /* well-formedness: no raw character that ends or breaks an attribute value, every '&' starts one of the 7 entities */
  unsigned tl = 0; while (tl < 6 * L + 1 && t[tl]) tl++;
  VP_CHECK(tl <= 6 * L, "escape: at most 6 characters per input character");
  for (unsigned i = 0; i < 6 * L; i++) if (i < tl) {
    char c = t[i];
    VP_CHECK(c != '"' && c != '<' && c != '>' && c != '\n' && c != '\r' && c != '\t', "escape: no raw quote, angle bracket, newline or tab is left in an attribute value");
  }
  /* build  a="<t>"  and run the real attribute tokenizer on it */
  char *buf = malloc(3 + 6 * L + 2 + 1); VP_NONNULL(buf);
  unsigned p = 0; buf[p++] = 'a'; buf[p++] = '='; buf[p++] = '"';
  for (unsigned i = 0; i < 6 * L; i++) if (i < tl) buf[p++] = t[i];
  buf[p++] = '"'; buf[p++] = ' '; buf[p] = 0;
  struct hwloc__xml_import_state_s st; memset(&st, 0, sizeof st);
  hwloc__nolibxml_import_state_data_t ns = (void *) st.data; ns->attrbuffer = buf; ns->tagbuffer = NULL; ns->tagname = NULL; ns->closed = 0;
  char *name = NULL, *value = NULL;
  int r = hwloc__nolibxml_import_next_attr(&st, &name, &value);
  VP_CHECK(r == 0 && name && name[0] == 'a' && name[1] == 0, "unescape: the attribute is recognised");
  for (unsigned i = 0; i <= L; i++) VP_CHECK(value[i] == s[i], "unescape(escape(s)) == s, byte for byte");
  VP_CHECK(ns->attrbuffer == buf + p, "the tokenizer stops right after the attribute");
  VP_WITNESS_IF(e != NULL && s[0] == '>' , "a '>' escaped");
  VP_WITNESS_IF(e == NULL, "nothing to escape");
}

/* ---- attribute tokenizer on arbitrary bytes (C06) ------------------------------------------------------------------------------ */
VP_HARNESS(h_next_attr_bytes)
{
  char *buf = malloc(L + 1); VP_NONNULL(buf);
  for (unsigned i = 0; i < L; i++) buf[i] = (char) vp_in_byte();
  buf[L] = 0;
  struct hwloc__xml_import_state_s st; memset(&st, 0, sizeof st);
  hwloc__nolibxml_import_state_data_t ns = (void *) st.data; ns->attrbuffer = buf;
  char *name = (char *) 1, *value = (char *) 1;
  int r = hwloc__nolibxml_import_next_attr(&st, &name, &value);
  VP_CHECK(r == 0 || r == -1, "next_attr returns 0 or -1");
  if (r == 0) {
    VP_CHECK(name >= buf && name < buf + L && value > name && value <= buf + L, "next_attr: name and value point inside the buffer");
    VP_CHECK(ns->attrbuffer > value && ns->attrbuffer <= buf + L, "next_attr: progress, and the cursor stays inside the buffer");
    unsigned nl = 0; while (nl < L && name[nl]) nl++;
    VP_CHECK(name + nl < buf + L, "next_attr: the name is terminated inside the buffer");
  }
  VP_WITNESS_IF(r == 0 && name[0] == 'a', "an attribute accepted");
  VP_WITNESS_IF(r == -1, "rejected");
}

/* ---- the built-in parser's entry: a caller buffer of any small size, and a truncated <topology ...> start tag (C06) ------------------------ */
#ifndef NIMODE
#define NIMODE 0      /* 0: buffers of 0..2 arbitrary bytes; 1: <topology version="2.0" followed by 0..2 arbitrary bytes */
#endif
static unsigned ni_runs, ni_ok, ni_refused;
static void nolibxml_init_case(unsigned len)
{
  static const char head[] = "<topology version=\"2.0\"";
  unsigned hl = NIMODE ? (unsigned) (sizeof head - 1) : 0, total = hl + len + (NIMODE ? 1 : 0);
  char *src = malloc(total ? total : 1); VP_NONNULL(src);
  for (unsigned i = 0; i < hl; i++) src[i] = head[i];
  for (unsigned i = 0; i < len; i++) src[hl + i] = (char) vp_in_byte();
  if (NIMODE) src[hl + len] = 0;
  struct hwloc_xml_backend_data_s bd; memset(&bd, 0, sizeof bd);
  errno = 0;
  int r = hwloc_nolibxml_backend_init(&bd, NULL, src, (int) total);
  ni_runs++;
  VP_CHECK(r == 0 || r == -1, "nolibxml backend_init returns 0 or -1");
  if (r) { ni_refused++; return; }
  struct hwloc__xml_import_state_s st; memset(&st, 0, sizeof st); st.global = &bd;
  int rr = bd.look_init(&bd, &st);
  VP_CHECK(rr == 0 || rr == -1, "nolibxml look_init returns 0 or -1");
  if (rr == 0) {
    hwloc__nolibxml_import_state_data_t ns = (void *) st.data;
    struct hwloc__nolibxml_backend_data_s *nb = bd.data;
    VP_CHECK(ns->tagbuffer >= nb->buffer && ns->tagbuffer <= nb->buffer + total, "look_init: the cursor points inside the copy of the buffer");
    ni_ok++;
  } else ni_refused++;
  bd.backend_exit(&bd);
}
VP_HARNESS(h_nolibxml_init)
{
  unsigned sel = (unsigned) vp_in_range(0, 2);
  for (unsigned l = 0; l <= 2; l++) if (sel == l) nolibxml_init_case(l);
#if NIMODE
  VP_WITNESS_IF(ni_ok >= 1, "a complete start tag accepted");
#endif
  VP_WITNESS_IF(ni_refused >= 1, "a buffer refused");
}

/* ---- userdata: exported once, imported once, same name / bytes / length ------------------------------------------------------------ */
/* recorded attribute names/values live in six separate one-dimensional arrays: with a 3-dimensional array inside the
 * structure CBMC 6.11 read back a different byte than the one stored (solver counterexample not reproducible natively) */
static char vp_pn0[16], vp_pv0[16], vp_pn1[16], vp_pv1[16], vp_pn2[16], vp_pv2[16];
static char *pn(unsigned k) { return k == 0 ? vp_pn0 : k == 1 ? vp_pn1 : vp_pn2; }
static char *pv(unsigned k) { return k == 0 ? vp_pv0 : k == 1 ? vp_pv1 : vp_pv2; }
struct rec { int children, ended; unsigned nprops; char content[16]; size_t clen; int has_content; unsigned cursor; int closed_content, closed_tag; };
static struct rec R;
static void x_new_child(hwloc__xml_export_state_t ps, hwloc__xml_export_state_t s_, const char *name);
static void x_new_prop(hwloc__xml_export_state_t s_, const char *name, const char *value)
{ (void) s_; if (R.nprops < 3) { unsigned i; char *dn = pn(R.nprops), *dv = pv(R.nprops); for (i = 0; i < 15 && name[i]; i++) dn[i] = name[i]; dn[i] = 0; for (i = 0; i < 15 && value[i]; i++) dv[i] = value[i]; dv[i] = 0; } R.nprops++; }
static void x_add_content(hwloc__xml_export_state_t s_, const char *b, size_t l) { (void) s_; R.has_content++; R.clen = l; for (size_t i = 0; i < 15; i++) if (i < l) R.content[i] = b[i]; }
static void x_end_object(hwloc__xml_export_state_t s_, const char *name) { (void) s_; (void) name; R.ended++; }
static void x_new_child(hwloc__xml_export_state_t ps, hwloc__xml_export_state_t s_, const char *name)
{ (void) name; R.children++; s_->parent = ps; s_->new_child = x_new_child; s_->new_prop = x_new_prop; s_->add_content = x_add_content; s_->end_object = x_end_object; s_->global = ps->global; }
static int i_next_attr(hwloc__xml_import_state_t st, char **n, char **v) { (void) st; if (R.cursor >= R.nprops || R.cursor >= 3) return -1; *n = pn(R.cursor); *v = pv(R.cursor); R.cursor++; return 0; }
/* contract of private/xml.h: 0 on empty content (beginp = ""), 1 on actual content, -1 on unexpected length */
static int i_get_content(hwloc__xml_import_state_t st, const char **b, size_t expected) { (void) st; if (!R.has_content) { if (expected) return -1; *b = ""; return 0; } if (R.clen != expected) return -1; R.content[R.clen < 15 ? R.clen : 15] = 0; *b = R.content; return 1; }
static void i_close_content(hwloc__xml_import_state_t st) { (void) st; R.closed_content++; }
static int i_close_tag(hwloc__xml_import_state_t st) { (void) st; R.closed_tag++; return 0; }
static unsigned cb_calls; static const char *cb_name; static char cb_bytes[8]; static size_t cb_len;
static void import_cb(struct hwloc_topology *t, struct hwloc_obj *o, const char *name, const void *buffer, size_t length)
{ (void) t; (void) o; cb_calls++; cb_name = name; cb_len = length; for (size_t i = 0; i < 8; i++) if (i < length) cb_bytes[i] = ((const char *) buffer)[i]; }
#ifndef NAMED
#define NAMED 0
#endif
#ifndef B64
#define B64 1       /* 1: hwloc_export_obj_userdata_base64, 0: hwloc_export_obj_userdata (printable bytes only) */
#endif
VP_HARNESS(h_userdata_roundtrip)
{
  struct hwloc_topology *T = malloc(sizeof *T); VP_NONNULL(T); static const struct hwloc_topology tz; *T = tz;
  struct hwloc_obj *O = malloc(sizeof *O); VP_NONNULL(O); static const struct hwloc_obj oz; *O = oz;
  /* R is static: zero-initialised */
  char *data = malloc(L + 1); VP_NONNULL(data);
  for (unsigned i = 0; i < L; i++) { char c = (char) vp_in_byte(); data[i] = c;
#if !B64
    VP_ASSUME(c >= 0x20 && c <= 0x7e);      /* what hwloc__xml_export_check_buffer accepts without encoding */
#endif
  }
  data[L] = 0;
  int named = NAMED; const char *name = named ? "nm" : NULL;      /* compile-time: a symbolic choice makes every store into the recording table a store at a symbolic index */
  struct hwloc__xml_export_state_s parent; memset(&parent, 0, sizeof parent); struct hwloc__xml_export_data_s ed; parent.global = &ed;
  parent.new_child = x_new_child; parent.new_prop = x_new_prop; parent.add_content = x_add_content; parent.end_object = x_end_object;
#if B64
  int r = hwloc_export_obj_userdata_base64(&parent, T, O, name, data, L);
#else
  int r = hwloc_export_obj_userdata(&parent, T, O, name, data, L);
#endif
  VP_CHECK(r == 0 && R.children == 1 && R.ended == 1 && R.nprops <= 3, "userdata export: one <userdata> element");
  /* import what was recorded */
  struct hwloc_xml_backend_data_s bd; memset(&bd, 0, sizeof bd);
  bd.next_attr = i_next_attr; bd.get_content = i_get_content; bd.close_content = i_close_content; bd.close_tag = i_close_tag;
  struct hwloc__xml_import_state_s is; memset(&is, 0, sizeof is); is.global = &bd;
  T->userdata_import_cb = import_cb;
  int ir = hwloc__xml_import_userdata(T, O, &is);
  VP_CHECK(ir == 0, "userdata import accepts what export produced");
  VP_CHECK(cb_calls == 1, "userdata is delivered to the import callback exactly as many times as it was exported");
  VP_CHECK(cb_len == L, "userdata: same length");
  for (unsigned i = 0; i < L; i++) VP_CHECK(cb_bytes[i] == data[i], "userdata: same bytes");
  VP_CHECK(named ? (cb_name && cb_name[0] == 'n' && cb_name[1] == 'm' && cb_name[2] == 0) : cb_name == NULL, "userdata: same name (or none)");
  VP_CHECK(R.closed_content == 1 && R.closed_tag == 1, "userdata import consumes the element");
  VP_WITNESS("export + import of one userdata element");
}
