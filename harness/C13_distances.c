/* C13 — distances: what is added is what is returned, and it follows the objects.
 * Real code: hwloc/distances.c (textually included). Matrices have NB objects (NB is a compile-time
 * constant per query: exhaustive split over the stated sizes, array sizes stay concrete); everything
 * else (values, kinds, flags, NULL entries, types, filters, *nr) is symbolic.
 */
#include "vp.h"
#include "hwloc/distances.c"

#ifndef NB
#define NB 3
#endif
#ifndef VMAX
#define VMAX (1UL << 20)
#endif

/* fake objects: the distances code only reads type, gp_index, os_index, subtype, depth */
static struct hwloc_obj FO[NB];
#ifdef POOL_OS      /* the types that are identified by os_index (add harness only: refresh of such matrices needs the level tables) */
static const hwloc_obj_type_t tpool[3] = { HWLOC_OBJ_PU, HWLOC_OBJ_NUMANODE, HWLOC_OBJ_CORE };
#else
static const hwloc_obj_type_t tpool[3] = { HWLOC_OBJ_CORE, HWLOC_OBJ_PACKAGE, HWLOC_OBJ_OS_DEVICE };
#endif
static char nvswitch[] = "NVSwitch", other[] = "GPU";
static void mk_objs(int symbolic_types)
{
  for (unsigned i = 0; i < NB; i++) {
    memset(&FO[i], 0, sizeof FO[i]);
    FO[i].type = symbolic_types ? tpool[vp_in_range(0, 2)] : HWLOC_OBJ_CORE;
    FO[i].gp_index = 100 + i; FO[i].os_index = 10 + i;
    unsigned st = (unsigned) vp_in_range(0, 2);
    FO[i].subtype = st == 0 ? NULL : st == 1 ? nvswitch : other;
  }
}
static int is_sw(unsigned i) { return FO[i].subtype == nvswitch; }

static int vp_reconnects;      /* natively the real hwloc__reconnect is linked (never reached: grouping is off) */
#ifdef VP_CBMC
int hwloc__reconnect(struct hwloc_topology *t, unsigned long f) { (void) t; (void) f; vp_reconnects++; return 0; }
int hwloc_hide_errors(void) { return 2; }
#endif
/* object lookup by gp_index for refresh: object k "exists" iff bit k of vp_exists */
static unsigned vp_exists;
hwloc_obj_t hwloc_get_obj_by_type_and_gp_index(hwloc_topology_t t, hwloc_obj_type_t type, uint64_t gp)
{
  (void) t;
  for (unsigned i = 0; i < NB; i++) if (FO[i].gp_index == gp && FO[i].type == type) return (vp_exists >> i) & 1 ? &FO[i] : NULL;
  return NULL;
}
static hwloc_obj_type_t vp_depth_type_ret;
hwloc_obj_type_t hwloc_get_depth_type(hwloc_topology_t t, int depth) { (void) t; (void) depth; return vp_depth_type_ret; }

static struct hwloc_topology T;
static void mk_topology(void)
{
  memset(&T, 0, sizeof T);
  T.state = HWLOC_TOPOLOGY_STATE_IS_LOADED;
  T.grouping = 0;
}

/* ---- sub-matrix extraction -------------------------------------------------------------------------- */
VP_HARNESS(h_submatrix)
{
  mk_objs(1);
  hwloc_obj_t objs[NB]; uint64_t idx[NB], val[NB * NB], oval[NB * NB]; hwloc_obj_type_t dt[NB];
  unsigned keep = (unsigned) vp_in_range(0, (1U << NB) - 1), gone = 0;
  for (unsigned i = 0; i < NB; i++) { objs[i] = (keep >> i) & 1 ? &FO[i] : NULL; if (!objs[i]) gone++; idx[i] = vp_in64(); dt[i] = FO[i].type; }
  for (unsigned i = 0; i < NB * NB; i++) oval[i] = val[i] = vp_in64();
  uint64_t oidx[NB]; for (unsigned i = 0; i < NB; i++) oidx[i] = idx[i];
  int with_idx = vp_in_bool(), with_dt = vp_in_bool();
  VP_SYMBOLIC_PHASE(1);
  hwloc_internal_distances_restrict(objs, with_idx ? idx : NULL, with_dt ? dt : NULL, val, NB, gone);
  unsigned n = NB - gone, ni = 0;
  for (unsigned i = 0; i < NB; i++) if ((keep >> i) & 1) {
    VP_CHECK(objs[ni] == &FO[i], "restrict: surviving objects keep their order");
    if (with_idx) VP_CHECK(idx[ni] == oidx[i], "restrict: indexes follow their objects");
    if (with_dt) VP_CHECK(dt[ni] == FO[i].type, "restrict: per-object types follow their objects");
    unsigned nj = 0;
    for (unsigned j = 0; j < NB; j++) if ((keep >> j) & 1) { VP_CHECK(val[ni * n + nj] == oval[i * NB + j], "restrict: exact sub-matrix of the survivors"); nj++; }
    ni++;
  }
  VP_WITNESS_IF(gone == 1 && !(keep & 1), "first object removed");
}

/* ---- refresh of one structure + list surgery ------------------------------------------------------------ */
static struct hwloc_internal_distances_s *mk_dist(unsigned id, int hetero)
{
  struct hwloc_internal_distances_s *d = calloc(1, sizeof(*d));
  VP_NONNULL(d);
  d->id = id; d->nbobjs = NB;
  d->objs = malloc(NB * sizeof(hwloc_obj_t)); d->indexes = malloc(NB * sizeof(uint64_t)); d->values = malloc(NB * NB * sizeof(uint64_t));
  VP_NONNULL(d->objs); VP_NONNULL(d->indexes); VP_NONNULL(d->values);
  d->different_types = NULL; d->unique_type = HWLOC_OBJ_CORE;
  if (hetero) { d->different_types = malloc(NB * sizeof(hwloc_obj_type_t)); VP_NONNULL(d->different_types); d->unique_type = HWLOC_OBJ_TYPE_NONE; }
  for (unsigned i = 0; i < NB; i++) { d->objs[i] = &FO[i]; d->indexes[i] = FO[i].gp_index; if (hetero) d->different_types[i] = FO[i].type; }
  for (unsigned i = 0; i < NB * NB; i++) d->values[i] = vp_in64();
  d->kind = vp_in64();
  return d;
}
static void link2(struct hwloc_internal_distances_s *a, struct hwloc_internal_distances_s *b)
{ T.first_dist = a; a->prev = NULL; a->next = b; if (b) { b->prev = a; b->next = NULL; T.last_dist = b; } else T.last_dist = a; T.next_dist_id = 2; }

VP_HARNESS(h_refresh)
{
#ifdef HET
  int hetero = HET;      /* exhaustive split: homogeneous / heterogeneous */
#else
  int hetero = vp_in_bool();
#endif
  mk_objs(hetero); mk_topology();
  struct hwloc_internal_distances_s *a = mk_dist(0, hetero), *b = mk_dist(1, 0);
  if (!hetero) for (unsigned i = 0; i < NB; i++) VP_ASSUME(FO[i].type == HWLOC_OBJ_CORE);
  uint64_t av[NB * NB]; for (unsigned i = 0; i < NB * NB; i++) av[i] = a->values[i];
  link2(a, b);
  a->iflags = vp_in_bool() ? HWLOC_INTERNAL_DIST_FLAG_OBJS_VALID : 0;
  b->iflags = HWLOC_INTERNAL_DIST_FLAG_OBJS_VALID;
  vp_exists = (unsigned) vp_in_range(0, (1U << NB) - 1);
#ifdef EX
  VP_ASSUME(vp_exists == EX);   /* exhaustive split over the 2^NB survivor sets, one query each */
#endif
  int was_valid = !!(a->iflags & HWLOC_INTERNAL_DIST_FLAG_OBJS_VALID);
  unsigned surv = 0; for (unsigned i = 0; i < NB; i++) if ((vp_exists >> i) & 1) surv++;
  VP_SYMBOLIC_PHASE(1);
  hwloc_internal_distances_refresh(&T);
  if (was_valid) { VP_CHECK(T.first_dist == a && a->nbobjs == NB, "refresh: a valid structure is left alone"); }
  else if (surv < 2) {
    VP_CHECK(T.first_dist == b && T.last_dist == b && b->prev == NULL && b->next == NULL, "refresh: a structure with fewer than 2 surviving objects is dropped, list stays consistent");
  } else {
    VP_CHECK(T.first_dist == a && a->next == b && b->prev == a && T.last_dist == b, "refresh: list unchanged when the structure survives");
    VP_CHECK(a->nbobjs == surv && (a->iflags & HWLOC_INTERNAL_DIST_FLAG_OBJS_VALID), "refresh: surviving structure holds the survivors and is valid");
    unsigned ni = 0;
    for (unsigned i = 0; i < NB; i++) if ((vp_exists >> i) & 1) {
      VP_CHECK(a->objs[ni] == &FO[i] && a->indexes[ni] == FO[i].gp_index, "refresh: objects and indexes of the survivors in order");
      if (hetero) VP_CHECK(a->different_types[ni] == FO[i].type, "refresh: types of the survivors in order");
      unsigned nj = 0;
      for (unsigned j = 0; j < NB; j++) if ((vp_exists >> j) & 1) { VP_CHECK(a->values[ni * surv + nj] == av[i * NB + j], "refresh: exact sub-matrix"); nj++; }
      ni++;
    }
  }
  VP_WITNESS_IF(!was_valid, "a structure that needed a refresh");
}

/* ---- get filters, *nr convention, deep copies ---------------------------------------------------------------- */
static char n0[] = "a", n1[] = "b";
VP_HARNESS(h_get)
{
  mk_objs(0); mk_topology();
  for (unsigned i = 0; i < NB; i++) VP_ASSUME(FO[i].type == HWLOC_OBJ_CORE);
  struct hwloc_internal_distances_s *a = mk_dist(0, 0), *b = mk_dist(1, 0);
  link2(a, b);
  a->iflags = b->iflags = HWLOC_INTERNAL_DIST_FLAG_OBJS_VALID;
  a->unique_type = tpool[vp_in_range(0, 1)]; b->unique_type = tpool[vp_in_range(0, 1)];
  unsigned na = (unsigned) vp_in_range(0, 2), nb = (unsigned) vp_in_range(0, 2);
  a->name = na == 0 ? NULL : na == 1 ? n0 : n1; b->name = nb == 0 ? NULL : nb == 1 ? n0 : n1;
  unsigned long kind = vp_in64(), flags = vp_in64();
  unsigned qn = (unsigned) vp_in_range(0, 2); const char *qname = qn == 0 ? NULL : qn == 1 ? n0 : n1;
  unsigned qt = (unsigned) vp_in_range(0, 2); hwloc_obj_type_t qtype = qt == 2 ? HWLOC_OBJ_TYPE_NONE : tpool[qt];
  unsigned nr = (unsigned) vp_in_range(0, 3), nr0 = nr;
  struct hwloc_distances_s *out[3] = { (void *) 1, (void *) 1, (void *) 1 };
  VP_SYMBOLIC_PHASE(1);
  errno = 0;
  int r = hwloc__distances_get(&T, qname, qtype, &nr, out, kind, flags);
  if (flags) VP_CHECK(r == -1 && errno == EINVAL, "get: non-zero flags -> EINVAL");
  else {
    VP_CHECK(r == 0, "get succeeds");
    unsigned long kf = kind & HWLOC_DISTANCES_KIND_FROM_ALL, kv = kind & HWLOC_DISTANCES_KIND_VALUE_ALL;
    struct hwloc_internal_distances_s *ds[2] = { a, b }; unsigned m = 0;
    for (unsigned k = 0; k < 2; k++) {
      struct hwloc_internal_distances_s *d = ds[k];
      int match = (!qname || (d->name && d->name == qname)) && (qtype == HWLOC_OBJ_TYPE_NONE || qtype == d->unique_type) && (!kf || (kf & d->kind)) && (!kv || (kv & d->kind));
      if (match) {
        if (m < nr0) {
          struct hwloc_distances_s *o = out[m];
          VP_CHECK(o != NULL && o != (void *) 1, "get: matching structures are returned in list order");
          VP_CHECK(o->nbobjs == NB && o->kind == d->kind, "get: same size and kind");
          VP_CHECK(o->objs != d->objs && o->values != d->values, "get: returned arrays are copies");
          for (unsigned i = 0; i < NB; i++) VP_CHECK(o->objs[i] == d->objs[i], "get: same objects");
          for (unsigned i = 0; i < NB * NB; i++) VP_CHECK(o->values[i] == d->values[i], "get: same values");
          VP_CHECK(hwloc_distances_get_name(&T, o) == d->name, "get_name: the name of the internal structure");
        }
        m++;
      }
    }
    VP_CHECK(nr == m, "get: *nr reports the number of matches even when the array is smaller");
    for (unsigned i = 0; i < 3; i++) if (i >= m && i < nr0) VP_CHECK(out[i] == NULL, "get: slots beyond the matches are NULL");
    for (unsigned i = 0; i < 3; i++) if (i >= nr0) VP_CHECK(out[i] == (void *) 1, "get: nothing written beyond the caller's array");
  }
  VP_WITNESS_IF(r == 0 && nr == 2 && nr0 == 1, "two matches, room for one");
  VP_WITNESS_IF(r == 0 && nr == 1 && nr0 == 3 && qname == n1 && out[0] && out[0]->kind == b->kind && a->name != n1, "only the second structure matches by name");
}

/* ---- add_create / add_values / add_commit ---------------------------------------------------------------------- */
#ifndef NADD
#define NADD NB    /* number of objects passed to add_values (0..NB) */
#endif
VP_HARNESS(h_add)
{
  mk_objs(1); mk_topology();
  struct hwloc_internal_distances_s *pre = mk_dist(7, 0);
  link2(pre, NULL); T.next_dist_id = 8;
  pre->iflags = HWLOC_INTERNAL_DIST_FLAG_OBJS_VALID;
  unsigned long kind = vp_in64(), cflags = vp_in64(), vflags = vp_in64(), mflags = vp_in64();
  hwloc_obj_t objs[NB + 1]; uint64_t vals[NB * NB + 1];
  unsigned nullmask = (unsigned) vp_in_range(0, (1U << NB) - 1);
  for (unsigned i = 0; i < NB; i++) objs[i] = (nullmask >> i) & 1 ? NULL : &FO[i];
  for (unsigned i = 0; i < NB * NB; i++) vals[i] = vp_in64();
  int loaded = vp_in_bool(), adopted = vp_in_bool();
  T.state = loaded ? HWLOC_TOPOLOGY_STATE_IS_LOADED : 0;
  T.adopted_shmem_addr = adopted ? (void *) &T : NULL;
  VP_ASSUME(!(mflags & HWLOC_DISTANCES_ADD_FLAG_GROUP));   /* grouping (floating point + tree insertion) is outside the claim */
  errno = 0;
  void *h = hwloc_distances_add_create(&T, "n", kind, cflags);
  int kind_ok = !(kind & ~HWLOC_DISTANCES_KIND_ALL) && !((kind & HWLOC_DISTANCES_KIND_FROM_OS) && (kind & HWLOC_DISTANCES_KIND_FROM_USER))
    && ((kind & HWLOC_DISTANCES_KIND_VALUE_ALL) == 0 || ((kind & HWLOC_DISTANCES_KIND_VALUE_ALL) & ((kind & HWLOC_DISTANCES_KIND_VALUE_ALL) - 1)) == 0);
  if (!loaded || adopted || !kind_ok || cflags) {
    VP_CHECK(h == NULL, "add_create: unloaded/adopted topology, invalid kind or flags are rejected");
    if (loaded && adopted) VP_CHECK(errno == EPERM, "add_create: EPERM on an adopted topology");
    else VP_CHECK(errno == EINVAL, "add_create: EINVAL otherwise");
    VP_CHECK(T.first_dist == pre && T.last_dist == pre && pre->next == NULL, "add_create: list unchanged on rejection");
  } else {
    VP_CHECK(h != NULL, "add_create succeeds");
    VP_CHECK(T.first_dist == pre && T.last_dist == pre, "add_create: nothing committed yet");
    errno = 0;
    int rv = hwloc_distances_add_values(&T, h, NADD, objs, vals, vflags);
    unsigned nonnull = 0; for (unsigned i = 0; i < NADD; i++) if (objs[i]) nonnull++;
    if (vflags || NADD < 2 || nonnull != NADD) {
      VP_CHECK(rv == -1, "add_values: flags, fewer than 2 objects or a NULL object are rejected");
      VP_CHECK(T.first_dist == pre && T.last_dist == pre && pre->next == NULL, "add_values: list unchanged on rejection");
    } else {
      VP_CHECK(rv == 0, "add_values succeeds");
      errno = 0;
      int rc = hwloc_distances_add_commit(&T, h, mflags);
      if (mflags & ~HWLOC_DISTANCES_ADD_FLAG_ALL) {
        VP_CHECK(rc == -1 && errno == EINVAL, "add_commit: unknown flags -> EINVAL");
        VP_CHECK(T.first_dist == pre && T.last_dist == pre && pre->next == NULL, "add_commit: list unchanged on rejection");
      } else {
        VP_CHECK(rc == 0, "add_commit succeeds");
        struct hwloc_internal_distances_s *d = T.last_dist;
        VP_CHECK(T.first_dist == pre && pre->next == d && d != pre && d->prev == pre && d->next == NULL, "add_commit: appended at the end of the list");
        VP_CHECK(d->id == 8 && d->name && d->name[0] == 'n' && d->nbobjs == NADD, "committed structure: fresh id, name copy, size");
        int hetero = 0; for (unsigned i = 1; i < NADD; i++) if (FO[i].type != FO[0].type) hetero = 1;
        VP_CHECK(d->kind == (kind | (hetero ? HWLOC_DISTANCES_KIND_HETEROGENEOUS_TYPES : 0)), "committed structure: kind plus HETEROGENEOUS_TYPES iff object types differ");
        for (unsigned i = 0; i < NADD; i++) VP_CHECK(d->objs[i] == &FO[i], "committed structure: same objects");
        /* the persistent identity that later refreshes resolve: os_index for matrices made only of PUs or only of NUMA nodes, gp_index
         * (with the per-object type) otherwise (private.h) */
        int by_os = !hetero && (FO[0].type == HWLOC_OBJ_PU || FO[0].type == HWLOC_OBJ_NUMANODE);
        VP_CHECK(d->unique_type == (hetero ? HWLOC_OBJ_TYPE_NONE : FO[0].type) && !d->different_types == !hetero, "committed structure: unique type, or per-object types when they differ");
        for (unsigned i = 0; i < NADD; i++) { VP_CHECK(d->indexes[i] == (by_os ? FO[i].os_index : FO[i].gp_index), "committed structure: objects are recorded by os_index (PU-only / NUMA-only matrices) or by gp_index (anything else)"); if (hetero) VP_CHECK(d->different_types[i] == FO[i].type, "committed structure: per-object types"); }
        for (unsigned i = 0; i < NADD * NADD; i++) VP_CHECK(d->values[i] == vals[i], "committed structure: same values");
        VP_CHECK(!(d->iflags & HWLOC_INTERNAL_DIST_FLAG_NOT_COMMITTED), "committed");
      }
    }
  }
#if NADD >= 2
  VP_WITNESS_IF(T.last_dist != pre && (T.last_dist->kind & HWLOC_DISTANCES_KIND_HETEROGENEOUS_TYPES), "a heterogeneous matrix committed");
#endif
  VP_WITNESS_IF(h != NULL && T.last_dist == pre, "a handle rejected after creation");
}

/* ---- removals ------------------------------------------------------------------------------------------------------ */
VP_HARNESS(h_remove)
{
  mk_objs(0); mk_topology();
  for (unsigned i = 0; i < NB; i++) VP_ASSUME(FO[i].type == HWLOC_OBJ_CORE);
  struct hwloc_internal_distances_s *a = mk_dist(0, 0), *b = mk_dist(1, 0);
  link2(a, b);
  a->iflags = b->iflags = HWLOC_INTERNAL_DIST_FLAG_OBJS_VALID;
  a->unique_type = tpool[vp_in_range(0, 1)]; b->unique_type = tpool[vp_in_range(0, 1)];
  hwloc_obj_type_t ta = a->unique_type, tb = b->unique_type;
  int which = (int) vp_in_range(0, 1);
  if (which == 0) {
    vp_depth_type_ret = vp_in_bool() ? (hwloc_obj_type_t) -1 : tpool[vp_in_range(0, 1)];
    errno = 0;
    int r = hwloc_distances_remove_by_depth(&T, 3);
    if (vp_depth_type_ret == (hwloc_obj_type_t) -1) { VP_CHECK(r == -1 && errno == EINVAL && T.first_dist == a && a->next == b && T.last_dist == b, "remove_by_depth: invalid depth -> EINVAL, list unchanged"); }
    else {
      VP_CHECK(r == 0, "remove_by_depth succeeds");
      int ka = ta != vp_depth_type_ret, kb = tb != vp_depth_type_ret;
      struct hwloc_internal_distances_s *f = ka ? a : kb ? b : NULL, *l = kb ? b : ka ? a : NULL;
      VP_CHECK(T.first_dist == f && T.last_dist == l, "remove_by_depth: exactly the structures of that type are removed");
      if (f) VP_CHECK(f->prev == NULL && l->next == NULL && (f == l || (f->next == l && l->prev == f)), "remove_by_depth: list links consistent");
    }
    VP_WITNESS_IF(T.first_dist == b && T.last_dist == b, "first structure removed");
  } else {
    /* release_remove through a public copy of a or b, or a stale one */
    int pick = (int) vp_in_range(0, 2);
    struct hwloc_distances_container_s *c = malloc(sizeof(*c));
    VP_NONNULL(c);
    c->id = pick == 0 ? 0 : pick == 1 ? 1 : 55;
    c->distances.objs = malloc(NB * sizeof(hwloc_obj_t)); c->distances.values = malloc(NB * NB * sizeof(uint64_t)); c->distances.nbobjs = NB;
    errno = 0;
    int r = hwloc_distances_release_remove(&T, &c->distances);
    if (pick == 2) VP_CHECK(r == -1 && errno == EINVAL && T.first_dist == a && a->next == b && T.last_dist == b, "release_remove: unknown structure -> EINVAL, list unchanged");
    else {
      struct hwloc_internal_distances_s *k = pick == 0 ? b : a;
      VP_CHECK(r == 0 && T.first_dist == k && T.last_dist == k && k->prev == NULL && k->next == NULL, "release_remove deletes exactly the targeted structure");
    }
    VP_WITNESS_IF(r == 0 && pick == 1, "second structure removed");
  }
}

/* ---- transforms ------------------------------------------------------------------------------------------------------ */
VP_HARNESS(h_transform)
{
  mk_objs(1);
  struct hwloc_distances_s d; hwloc_obj_t objs[NB]; uint64_t val[NB * NB], ov[NB * NB];
  unsigned nullmask = (unsigned) vp_in_range(0, (1U << NB) - 1);
  for (unsigned i = 0; i < NB; i++) objs[i] = (nullmask >> i) & 1 ? NULL : &FO[i];
  for (unsigned i = 0; i < NB * NB; i++) { ov[i] = val[i] = vp_in64(); VP_ASSUME(val[i] < VMAX); }
  d.nbobjs = NB; d.objs = objs; d.values = val; d.kind = vp_in64();
  unsigned long okind = d.kind;
  int tr = (int) vp_in_range(0, 5); unsigned long flags = vp_in64(); int attr = vp_in_bool();
#ifdef TR
  VP_ASSUME(tr == TR || (TR == 4 && tr >= 4));   /* exhaustive split over the transform ids, one query each */
#endif
  VP_SYMBOLIC_PHASE(1);
  errno = 0;
  int r = hwloc_distances_transform(&T, &d, (enum hwloc_distances_transform_e) tr, attr ? &d : NULL, flags);
  if (flags || attr || tr > HWLOC_DISTANCES_TRANSFORM_TRANSITIVE_CLOSURE) { VP_CHECK(r == -1 && errno == EINVAL, "transform: flags, attribute or unknown transform -> EINVAL"); }
  else if (tr == HWLOC_DISTANCES_TRANSFORM_REMOVE_NULL) {
    unsigned nn = 0; for (unsigned i = 0; i < NB; i++) if (!((nullmask >> i) & 1)) nn++;
    if (nn < 2) VP_CHECK(r == -1 && errno == EINVAL, "REMOVE_NULL: fewer than 2 objects left -> EINVAL");
    else {
      VP_CHECK(r == 0 && d.nbobjs == nn, "REMOVE_NULL keeps exactly the non-NULL objects");
      unsigned ni = 0; int hetero = 0; hwloc_obj_type_t t0 = HWLOC_OBJ_TYPE_NONE;
      for (unsigned i = 0; i < NB; i++) if (!((nullmask >> i) & 1)) {
        VP_CHECK(d.objs[ni] == &FO[i], "REMOVE_NULL: objects in order");
        if (t0 == HWLOC_OBJ_TYPE_NONE) t0 = FO[i].type; else if (FO[i].type != t0) hetero = 1;
        unsigned nj = 0; for (unsigned j = 0; j < NB; j++) if (!((nullmask >> j) & 1)) { VP_CHECK(d.values[ni * nn + nj] == ov[i * NB + j], "REMOVE_NULL: the values between the kept objects"); nj++; }
        ni++;
      }
      if (nn < NB) VP_CHECK(!!(d.kind & HWLOC_DISTANCES_KIND_HETEROGENEOUS_TYPES) == hetero, "REMOVE_NULL: HETEROGENEOUS_TYPES recomputed");
    }
  } else if (tr == HWLOC_DISTANCES_TRANSFORM_LINKS) {
    if (!(okind & HWLOC_DISTANCES_KIND_VALUE_BANDWIDTH)) VP_CHECK(r == -1 && errno == EINVAL, "LINKS needs a bandwidth matrix");
    else {
      uint64_t div = 0; for (unsigned i = 0; i < NB * NB; i++) if (i / NB != i % NB && ov[i] && (!div || ov[i] < div)) div = ov[i];
      int divides = 1; if (div) for (unsigned i = 0; i < NB * NB; i++) if (i / NB != i % NB && ov[i] % div) divides = 0;
      if (!divides) VP_CHECK(r == -1 && errno == ENOENT, "LINKS: ENOENT when the smallest positive value does not divide them all");
      else { VP_CHECK(r == 0, "LINKS succeeds");
        for (unsigned i = 0; i < NB * NB; i++) VP_CHECK(d.values[i] == (i / NB == i % NB ? 0 : div ? ov[i] / div : ov[i]), "LINKS: diagonal zeroed, every value divided by the smallest positive one"); }
    }
  } else if (tr == HWLOC_DISTANCES_TRANSFORM_MERGE_SWITCH_PORTS) {
    unsigned first = NB, nsw = 0, nkeep = 0;
    for (unsigned i = 0; i < NB; i++) if (!((nullmask >> i) & 1) && is_sw(i)) { if (first == NB) first = i; nsw++; }
    for (unsigned i = 0; i < NB; i++) if (!((nullmask >> i) & 1) && (!is_sw(i) || i == first)) nkeep++;
    if (first == NB) VP_CHECK(r == -1 && errno == ENOENT, "MERGE_SWITCH_PORTS: ENOENT without a switch port");
    else if (nkeep < 2) VP_CHECK(r == -1, "MERGE_SWITCH_PORTS: fails when fewer than 2 objects would remain");
    else {
      VP_CHECK(r == 0 && d.nbobjs == nkeep, "MERGE_SWITCH_PORTS keeps every non-switch object and one merged port");
      unsigned ni = 0;
      for (unsigned i = 0; i < NB; i++) if (!((nullmask >> i) & 1) && (!is_sw(i) || i == first)) {
        VP_CHECK(d.objs[ni] == &FO[i], "MERGE_SWITCH_PORTS: kept objects in order");
        unsigned nj = 0;
        for (unsigned j = 0; j < NB; j++) if (!((nullmask >> j) & 1) && (!is_sw(j) || j == first)) {
          /* value between kept objects: sums over the merged ports where i or j is the port */
          uint64_t e = 0;
          for (unsigned a = 0; a < NB; a++) for (unsigned b = 0; b < NB; b++) {
            int am = (a == i) || (i == first && !((nullmask >> a) & 1) && is_sw(a)), bm = (b == j) || (j == first && !((nullmask >> b) & 1) && is_sw(b));
            if (am && bm) e += ov[a * NB + b];
          }
          /* the merged port's own diagonal entry is not specified by the documentation (port-to-port links): not asserted */
          if (!(i == first && j == first)) VP_CHECK(d.values[ni * nkeep + nj] == e, "MERGE_SWITCH_PORTS: values between non-switch objects kept, port rows/columns summed");
          nj++;
        }
        ni++;
      }
    }
  } else if (tr == HWLOC_DISTANCES_TRANSFORM_TRANSITIVE_CLOSURE) {
    VP_CHECK(r == 0 && d.nbobjs == NB, "TRANSITIVE_CLOSURE succeeds and keeps every object");
    for (unsigned i = 0; i < NB; i++) for (unsigned j = 0; j < NB; j++) {
      int swi = objs[i] && is_sw(i), swj = objs[j] && is_sw(j);
      uint64_t e = ov[i * NB + j];
      if (i != j && !swi && !swj) { uint64_t a = 0, b = 0; for (unsigned k = 0; k < NB; k++) if (objs[k] && is_sw(k)) { a += ov[i * NB + k]; b += ov[k * NB + j]; } e += a > b ? b : a; }
      VP_CHECK(d.values[i * NB + j] == e, "TRANSITIVE_CLOSURE: direct value plus min(bandwidth to the switch, bandwidth from the switch)");
    }
  }
#if !defined(TR) || TR == 2
  VP_WITNESS_IF(r == 0 && tr == HWLOC_DISTANCES_TRANSFORM_MERGE_SWITCH_PORTS && d.nbobjs == 2 && nullmask == 0 && is_sw(0) && !is_sw(1), "a port merged while a later non-switch object is kept");
#endif
#if !defined(TR) || TR == 1
  VP_WITNESS_IF(r == 0 && tr == HWLOC_DISTANCES_TRANSFORM_LINKS && d.values[1] == 3, "a divided link matrix");
#endif
#if !defined(TR) || TR == 0
  VP_WITNESS_IF(r == 0 && tr == HWLOC_DISTANCES_TRANSFORM_REMOVE_NULL && d.nbobjs == NB - 1, "one NULL object removed");
#endif
#if defined(TR) && TR == 3
  VP_WITNESS_IF(r == 0 && d.values[1] == ov[1] + 2, "indirect bandwidth through a switch added");
#endif
#if defined(TR) && TR == 4
  VP_WITNESS_IF(r == -1 && !flags && !attr, "an unknown transform id rejected");
#endif
}

/* ---- dup of the list (also C12) ------------------------------------------------------------------------------------ */
VP_HARNESS(h_dup)
{
  int hetero = vp_in_bool();
  mk_objs(hetero); mk_topology();
  if (!hetero) for (unsigned i = 0; i < NB; i++) VP_ASSUME(FO[i].type == HWLOC_OBJ_CORE);
  struct hwloc_internal_distances_s *a = mk_dist(3, hetero), *b = mk_dist(5, 0);
  link2(a, b); T.next_dist_id = (unsigned) vp_in_range(6, 9);
  a->name = n0; b->name = NULL;
  a->iflags = vp_in_bool() ? HWLOC_INTERNAL_DIST_FLAG_OBJS_VALID : 0; b->iflags = HWLOC_INTERNAL_DIST_FLAG_OBJS_VALID;
  static struct hwloc_topology N;
  memset(&N, 0, sizeof N);
  hwloc_internal_distances_init(&N);
  int r = hwloc_internal_distances_dup(&N, &T);
  VP_CHECK(r == 0, "dup succeeds");
  struct hwloc_internal_distances_s *x = N.first_dist, *y = N.last_dist;
  VP_CHECK(x && y && x != y && x->next == y && y->prev == x && x->prev == NULL && y->next == NULL, "dup: same list shape");
  VP_CHECK(x != a && y != b, "dup: fresh structures");
  VP_CHECK(N.next_dist_id == T.next_dist_id, "dup: the id counter is inherited so that later additions get fresh ids");
  struct hwloc_internal_distances_s *os[2] = { a, b }, *ns[2] = { x, y };
  for (unsigned k = 0; k < 2; k++) {
    struct hwloc_internal_distances_s *o = os[k], *n = ns[k];
    VP_CHECK(n->id == o->id && n->kind == o->kind && n->nbobjs == o->nbobjs && n->unique_type == o->unique_type, "dup: id, kind, size, type");
    VP_CHECK((n->name == NULL) == (o->name == NULL) && (!o->name || (n->name != o->name && n->name[0] == o->name[0] && n->name[1] == 0)), "dup: name copied");
    VP_CHECK(n->values != o->values && n->indexes != o->indexes && n->objs != o->objs, "dup: arrays are not shared");
    VP_CHECK(!(n->iflags & HWLOC_INTERNAL_DIST_FLAG_OBJS_VALID), "dup: objects must be re-resolved in the new topology");
    for (unsigned i = 0; i < NB; i++) { VP_CHECK(n->indexes[i] == o->indexes[i], "dup: indexes"); if (o->different_types) VP_CHECK(n->different_types && n->different_types != o->different_types && n->different_types[i] == o->different_types[i], "dup: per-object types"); }
    for (unsigned i = 0; i < NB * NB; i++) VP_CHECK(n->values[i] == o->values[i], "dup: values");
  }
  /* independence: mutating the copy does not change the original */
  x->values[0] ^= 1; VP_CHECK(a->values[0] == (x->values[0] ^ 1), "dup: value storage independent");
  VP_WITNESS_IF(hetero, "a heterogeneous structure duplicated");
}

/* ---- C17: a consulting call on a refreshed topology writes nothing ---------------------------------------------------------- */
/* Both structures claim OBJS_VALID (the state hwloc_topology_refresh leaves) while the object table says that some objects
 * are gone: a reader that refreshed anyway would drop them (observable, also natively). Concurrent readers are race-free
 * only if none of them writes: every field of the internal structures must be exactly as before the call. */
VP_HARNESS(h_reader_pure)
{
  mk_objs(0); mk_topology();
  for (unsigned i = 0; i < NB; i++) VP_ASSUME(FO[i].type == HWLOC_OBJ_CORE);
  struct hwloc_internal_distances_s *a = mk_dist(0, 0), *b = mk_dist(1, 0);
  link2(a, b);
  a->iflags = b->iflags = HWLOC_INTERNAL_DIST_FLAG_OBJS_VALID;
  vp_exists = (unsigned) vp_in_range(0, (1 << NB) - 1);          /* stale on purpose */
  unsigned long kind = vp_in64();
  unsigned nr = (unsigned) vp_in_range(0, 3);
  struct hwloc_distances_s *out[3] = { NULL, NULL, NULL };
  hwloc_obj_t *ao = a->objs, *bo = b->objs; uint64_t *av = a->values; uint64_t v0 = a->values[0], v1 = b->values[NB * NB - 1];
  int r = hwloc_distances_get(&T, &nr, out, kind, 0);
  VP_CHECK(r == 0, "get succeeds on a refreshed topology");
  VP_CHECK(a->iflags == HWLOC_INTERNAL_DIST_FLAG_OBJS_VALID && b->iflags == HWLOC_INTERNAL_DIST_FLAG_OBJS_VALID && a->nbobjs == NB && b->nbobjs == NB && a->objs == ao && b->objs == bo && a->values == av && a->values[0] == v0 && b->values[NB * NB - 1] == v1, "reader purity: hwloc_distances_get() on a refreshed topology does not touch the internal structures");
  for (unsigned i = 0; i < NB; i++) VP_CHECK(a->objs[i] == &FO[i] && b->objs[i] == &FO[i], "reader purity: no object pointer of a valid structure is re-resolved by a reader");
  VP_CHECK(T.first_dist == a && T.last_dist == b && a->next == b && vp_reconnects == 0, "reader purity: the list and the tree are untouched");
  VP_WITNESS_IF(nr == 2 && vp_exists == 0, "two structures returned while every object is stale");
}
