/* C07 / C01 — a synthetic description through the REAL pipeline: hwloc_backend_synthetic_init (parser) ->
 * hwloc_look_synthetic inside the real hwloc_discover (insertion, set propagation, connection, level building, filtering) ->
 * independent C01 checker -> expectations written in the description -> hwloc_topology_export_synthetic -> the exported
 * string loaded again -> same structure, and exporting that one gives the same string.
 * The descriptions are concrete (a stated bound): CBMC interprets the whole run and checks every access; which description
 * runs is a compile-time constant per harness instance.
 */
#define VP_SEED_DISCOVER_HOOK vp_s_discover
#define VP_SEED_FILTER_HOOK(t) do { (t)->type_filter[HWLOC_OBJ_MEMCACHE] = HWLOC_TYPE_FILTER_KEEP_ALL; } while (0)
#include "private/autogen/config.h"
#include "vp.h"
#include "hwloc/topology-synthetic.c"
#define VP_SEED_BACKEND_EXTRA struct hwloc_synthetic_backend_data_s
static int vp_s_discover(struct hwloc_backend *b, struct hwloc_disc_status *d);
#include "vp_seed.h"
#include "vp_wf.h"

#ifndef DESC
#define DESC 0
#endif
struct expect { const char *text; unsigned nb_levels; hwloc_obj_type_t types[6]; unsigned widths[6]; unsigned nnuma; uint64_t numa_mem; unsigned long pus; int pu_order_known; unsigned pu_os[8]; unsigned long pkg0; };
static const struct expect EX[] = {
  /* 0 */ { "pack:2 core:2 pu:2", 4, { HWLOC_OBJ_MACHINE, HWLOC_OBJ_PACKAGE, HWLOC_OBJ_CORE, HWLOC_OBJ_PU }, { 1, 2, 4, 8 }, 1, 1024UL * 1024 * 1024, 0xff, 1, { 0, 1, 2, 3, 4, 5, 6, 7 }, 0x0f },
  /* 1 */ { "pack:2 [numa(memory=8192)] pu:2(indexes=3,1,2,0)", 3, { HWLOC_OBJ_MACHINE, HWLOC_OBJ_PACKAGE, HWLOC_OBJ_PU }, { 1, 2, 4 }, 2, 8192, 0xf, 0, { 0 }, 0x5 },
  /* 2 */ { "numa:2(memory=4096) l3:1(size=8192) core:2 pu:1", 4, { HWLOC_OBJ_MACHINE, HWLOC_OBJ_L3CACHE, HWLOC_OBJ_CORE, HWLOC_OBJ_PU }, { 1, 2, 4, 4 }, 2, 4096, 0xf, 1, { 0, 1, 2, 3 }, 0 },
  /* 3 */ { "group:2 pack:1 pu:2", 3, { HWLOC_OBJ_MACHINE, HWLOC_OBJ_PACKAGE, HWLOC_OBJ_PU }, { 1, 2, 4 }, 1, 1024UL * 1024 * 1024, 0xf, 1, { 0, 1, 2, 3 }, 0x3 },
  /* 4 */ { "pack:1 pu:1", 3, { HWLOC_OBJ_MACHINE, HWLOC_OBJ_PACKAGE, HWLOC_OBJ_PU }, { 1, 1, 1 }, 1, 1024UL * 1024 * 1024, 0x1, 1, { 0 }, 0x1 },
  /* 5 */ { "pack:2 l2:2(size=1024) pu:2(indexes=2*4:1*2)", 4, { HWLOC_OBJ_MACHINE, HWLOC_OBJ_PACKAGE, HWLOC_OBJ_L2CACHE, HWLOC_OBJ_PU }, { 1, 2, 4, 8 }, 1, 1024UL * 1024 * 1024, 0xff, 0, { 0 }, 0 },
  /* 6 */ { "pack:2 [numa(memory=4096)] [numa(memory=4096)] pu:2", 3, { HWLOC_OBJ_MACHINE, HWLOC_OBJ_PACKAGE, HWLOC_OBJ_PU }, { 1, 2, 4 }, 4, 4096, 0xf, 1, { 0, 1, 2, 3 }, 0x3 },
};
static int vp_s_discover(struct hwloc_backend *b, struct hwloc_disc_status *d) { d->phase = HWLOC_DISC_PHASE_GLOBAL; return hwloc_look_synthetic(b, d); }
static struct hwloc_topology *syn_load(const char *text)
{
  int r = hwloc_backend_synthetic_init(&vp_be_s.extra, text);
  if (r < 0) return NULL;
  struct hwloc_topology *t = vp_seed_build(200, 0);
  return vp_seed_err == 0 ? t : NULL;
}
#define CAP 96
VP_HARNESS(h_synload)
{
  const struct expect *e = &EX[DESC];
  struct hwloc_topology *A = syn_load(e->text);
  VP_CHECK(A != NULL, "a valid description is accepted and loads");
  if (!A) return;
  vp_wf_check(A, 0);
  /* what the description says */
  VP_CHECK(A->nb_levels == e->nb_levels, "as many normal levels as written (a Group that brings no structure is merged)");
  for (unsigned d = 0; d < e->nb_levels && d < A->nb_levels; d++) VP_CHECK(A->levels[d][0]->type == e->types[d] && A->level_nbobjects[d] == e->widths[d], "level types and widths as written");
  VP_CHECK(A->slevels[HWLOC_SLEVEL_NUMANODE].nbobjs == e->nnuma, "as many NUMA nodes as written (one below the machine when none is written)");
  unsigned long nseen = 0;
  for (unsigned k = 0; k < e->nnuma && k < A->slevels[HWLOC_SLEVEL_NUMANODE].nbobjs; k++) { hwloc_obj_t n = A->slevels[HWLOC_SLEVEL_NUMANODE].objs[k];
    /* the NUMA level is ordered by locality: with a permuted PU numbering the os_index sequence is a permutation of 0..n-1 */
    VP_CHECK((e->pu_order_known ? n->os_index == k : n->os_index < e->nnuma) && !(nseen & (1UL << n->os_index)) && n->attr->numanode.local_memory == e->numa_mem, "NUMA os_index values and memory size as written (or the documented default)"); nseen |= 1UL << n->os_index; }
  VP_CHECK(vp_w(A->levels[0][0]->cpuset) == e->pus, "the PU os_index values are exactly those written");
  unsigned npu = A->level_nbobjects[A->nb_levels - 1];
  if (e->pu_order_known) for (unsigned k = 0; k < npu && k < 8; k++) VP_CHECK(A->levels[A->nb_levels - 1][k]->os_index == e->pu_os[k], "PU os_index sequence as written");
  if (e->pkg0) VP_CHECK(vp_w(A->levels[1][0]->cpuset) == e->pkg0, "the first object of level 1 holds the PUs the index list gives it");
#if DESC == 2
  VP_CHECK(A->levels[1][0]->attr->cache.size == 8192 && A->levels[1][0]->attr->cache.depth == 3 && A->levels[1][0]->memory_arity == 1, "cache size as written; the NUMA node hangs off the first level below it");
#endif
#if DESC == 5
  /* indexes=2*4:1*2 : 2 consecutive values 4 apart, then step 1: 0 4 1 5 2 6 3 7 are the os indexes in creation order */
  VP_CHECK(vp_w(A->levels[2][0]->cpuset) == 0x11 && vp_w(A->levels[1][0]->cpuset) == 0x33 && A->levels[2][0]->attr->cache.size == 1024, "interleaved os_index ordering as written");
#endif
#if DESC == 6
  VP_CHECK(A->levels[1][0]->memory_arity == 2 && A->levels[1][1]->memory_arity == 2, "two NUMA nodes attached to each package");
#endif
  /* export, reload, compare, export again */
  char *s1 = malloc(CAP), *s2 = malloc(CAP); VP_NONNULL(s1); VP_NONNULL(s2);
  for (unsigned i = 0; i < CAP; i++) s1[i] = s2[i] = 0;
  int n1 = hwloc_topology_export_synthetic(A, s1, CAP, 0);
  VP_CHECK(n1 > 0 && n1 < CAP, "export_synthetic succeeds on a topology loaded from a synthetic description");
  if (n1 <= 0 || n1 >= CAP) return;
  struct hwloc_topology *B = syn_load(s1);
  VP_CHECK(B != NULL, "the exported description is accepted and loads");
  if (!B) return;
  VP_CHECK(B->nb_levels == A->nb_levels, "reloaded: same number of levels");
  for (unsigned d = 0; d < A->nb_levels && d < B->nb_levels; d++) {
    VP_CHECK(B->levels[d][0]->type == A->levels[d][0]->type && B->level_nbobjects[d] == A->level_nbobjects[d], "reloaded: same level types and widths");
    for (unsigned k = 0; k < A->level_nbobjects[d] && k < B->level_nbobjects[d] && k < 8; k++) {
      hwloc_obj_t a = A->levels[d][k], b = B->levels[d][k];
      VP_CHECK(vp_w(a->cpuset) == vp_w(b->cpuset) && vp_w(a->nodeset) == vp_w(b->nodeset) && a->memory_arity == b->memory_arity, "reloaded: same sets and memory children");
      if (a->type == HWLOC_OBJ_PU) VP_CHECK(a->os_index == b->os_index, "reloaded: same PU os_index sequence");
      if (hwloc__obj_type_is_cache(a->type)) VP_CHECK(a->attr->cache.size == b->attr->cache.size && a->attr->cache.depth == b->attr->cache.depth, "reloaded: same cache sizes");
    }
  }
  VP_CHECK(B->slevels[HWLOC_SLEVEL_NUMANODE].nbobjs == A->slevels[HWLOC_SLEVEL_NUMANODE].nbobjs, "reloaded: same number of NUMA nodes");
  for (unsigned k = 0; k < A->slevels[HWLOC_SLEVEL_NUMANODE].nbobjs && k < B->slevels[HWLOC_SLEVEL_NUMANODE].nbobjs && k < 4; k++) { hwloc_obj_t a = A->slevels[HWLOC_SLEVEL_NUMANODE].objs[k], b = B->slevels[HWLOC_SLEVEL_NUMANODE].objs[k];
    VP_CHECK(a->os_index == b->os_index && a->attr->numanode.local_memory == b->attr->numanode.local_memory && vp_w(a->cpuset) == vp_w(b->cpuset), "reloaded: same NUMA os_index sequence, sizes and locality"); }
  int n2 = hwloc_topology_export_synthetic(B, s2, CAP, 0);
  VP_CHECK(n2 == n1, "exporting the reloaded topology returns the same length");
  for (unsigned i = 0; i < CAP; i++) VP_CHECK(s1[i] == s2[i], "exporting the reloaded topology returns the same string");
  VP_WITNESS("load, check, export, reload, compare, export executed");
}
