/* C15 — CPU kinds always partition the registered PUs and are ranked consistently.
 * Real code: hwloc/cpukinds.c (textually included), hwloc/bitmap.c, hwloc/traversal.c (root lookup).
 * Pre-state: ANY table satisfying the representation invariant (N <= NK kinds, non-empty pairwise
 * disjoint cpusets inside a UNIV-bit universe, info arrays without exact duplicates, arbitrary forced
 * efficiencies): one register/restrict/rank step from it covers histories of any length.
 */
#include "vp.h"
#include "hwloc/cpukinds.c"

#ifndef NK
#define NK 2
#endif
#ifndef UBITS
#define UBITS 6
#endif
#define UNIV ((1UL << UBITS) - 1)
#define SLOTS 16
#define ICAP 4

/* info pool: three distinct (name,value) pairs, two sharing the name, two sharing the value */
static const char *const pool_name[3] = { "a", "a", "b" };
static const char *const pool_value[3] = { "1", "2", "1" };

/* infos are stored by reference in fixed-capacity arrays (the real hwloc__add_info strdup()s into a
 * growing array; string ownership is not what C15 is about) */
static struct hwloc_info_s istore[SLOTS + 2][ICAP];
int hwloc__add_info(struct hwloc_infos_s *infos, const char *name, const char *value)
{
  if (!infos->array) { infos->array = malloc(ICAP * sizeof(struct hwloc_info_s)); VP_NONNULL(infos->array); infos->allocated = ICAP; infos->count = 0; }
  VP_CHECK(infos->count < ICAP, "an info array never holds more than the 3 distinct pool pairs");
  infos->array[infos->count].name = (char *) name;
  infos->array[infos->count].value = (char *) value;
  infos->count++;
  return 0;
}
void hwloc__free_infos(struct hwloc_infos_s *infos) { (void) infos; }      /* like the real one it releases the pairs and leaves the fields alone */

static const char *vp_env;
#ifdef VP_CBMC
char *getenv(const char *n) { (void) n; return (char *) vp_env; }
int hwloc_hide_errors(void) { return 2; } /* no diagnostics on stderr */
#endif


#if defined(VP_CBMC) && defined(KIND_MEMMOVE)
/* typed element-wise memmove for the kinds table (restrict moves whole entries down): the generic
 * byte/word model splits the pointer-carrying entries and exhausts the SAT solver's memory */
void *memmove(void *dst, const void *src, size_t n)
{
  struct hwloc_internal_cpukind_s *d = dst; const struct hwloc_internal_cpukind_s *s = src;
  __CPROVER_assert(__CPROVER_w_ok(dst, n) && __CPROVER_r_ok(src, n), "memmove regions valid");
  __CPROVER_assert((const char *) dst <= (const char *) src, "VP_MODEL: typed memmove only moves entries down");
  for (size_t j = 0; j < NK; j++) if ((j + 1) * sizeof(*d) <= n) d[j] = s[j];
  __CPROVER_assert(n <= NK * sizeof(*d), "VP_MODEL: typed memmove length within the table");
  return dst;
}
#endif
static hwloc_bitmap_t bm(unsigned long m) { hwloc_bitmap_t b = hwloc_bitmap_alloc(); VP_NONNULL(b); hwloc_bitmap_from_ulong(b, m); return b; }

static struct hwloc_topology T;
static struct hwloc_internal_cpukind_s KK[SLOTS];
static struct hwloc_obj ROOT; static struct hwloc_obj *lv0[1]; static struct hwloc_obj **lvs[1]; static unsigned lvn[1];

/* info set of a table entry as a 3-bit mask over the pool; asserts every entry is a pool pair, no duplicates */
static unsigned infomask(const struct hwloc_infos_s *infos)
{
  unsigned m = 0;
  VP_CHECK(infos->count <= 3, "info array: at most the 3 distinct pool pairs");
  for (unsigned i = 0; i < 3; i++) if (i < infos->count) {
    unsigned k, hit = 9;
    for (k = 0; k < 3; k++) if (!strcmp(infos->array[i].name, pool_name[k]) && !strcmp(infos->array[i].value, pool_value[k])) hit = k;
    VP_CHECK(hit < 3, "info array: every pair comes from a registration");
    VP_CHECK(!(m & (1U << hit)), "info array: no exact duplicate pair");
    m |= 1U << hit;
  }
  return m;
}

static void set_infos(struct hwloc_infos_s *infos, struct hwloc_info_s *store, unsigned mask)
{
  infos->array = store; infos->allocated = ICAP; infos->count = 0;
  for (unsigned k = 0; k < 3; k++) if (mask & (1U << k)) { store[infos->count].name = (char *) pool_name[k]; store[infos->count].value = (char *) pool_value[k]; infos->count++; }
}

static unsigned n0; static unsigned long old_set[NK]; static unsigned old_info[NK]; static int old_forced[NK]; static unsigned long old_union;

static void mk_state(int with_infos)
{
  memset(&T, 0, sizeof T);
  T.cpukinds = KK; T.nr_cpukinds_allocated = SLOTS;
  n0 = (unsigned) vp_in_range(0, NK);
  old_union = 0;
  for (unsigned i = 0; i < NK; i++) if (i < n0) {
    unsigned long m = vp_in64();
    VP_ASSUME(m && !(m & ~UNIV) && !(m & old_union));
    old_union |= m; old_set[i] = m;
    KK[i].cpuset = bm(m);
    old_forced[i] = KK[i].forced_efficiency = vp_in_int();
    VP_ASSUME(old_forced[i] >= -1);
    KK[i].efficiency = vp_in_int();
    KK[i].ranking_value = vp_in64();
    old_info[i] = with_infos ? (unsigned) vp_in_range(0, 7) : 0;
    set_infos(&KK[i].infos, istore[i], old_info[i]);
  }
  T.nr_cpukinds = n0;
  lv0[0] = &ROOT; lvs[0] = lv0; lvn[0] = 1; T.levels = lvs; T.level_nbobjects = lvn; T.nb_levels = 1; T.nb_levels_allocated = 1;
}

static unsigned long kset(unsigned i) { return hwloc_bitmap_to_ulong(T.cpukinds[i].cpuset); }

/* table invariant after any step */
static unsigned long check_partition(void)
{
  unsigned long u = 0;
  VP_CHECK(T.nr_cpukinds <= T.nr_cpukinds_allocated, "table: nr <= allocated");
  /* the slots beyond the kinds in use are clean: the next registration builds its new kinds there and ADDS info pairs to whatever
   * they hold (the table is zeroed when it is allocated or grown) */
  for (unsigned i = 0; i < 2 * NK + 1; i++) if (i >= T.nr_cpukinds && i < T.nr_cpukinds_allocated && i < SLOTS)
    VP_CHECK(T.cpukinds[i].infos.count == 0 && T.cpukinds[i].infos.array == NULL, "table: the unused slots hold no info pairs (a later registration would inherit them, and the array would be shared by two kinds)");
  for (unsigned i = 0; i < 2 * NK + 1; i++) if (i < T.nr_cpukinds) {
    unsigned long w = kset(i);
    VP_CHECK(hwloc_bitmap_weight(T.cpukinds[i].cpuset) >= 1, "kind cpusets are non-empty and finite");
    VP_CHECK(!(w & u), "kind cpusets are pairwise disjoint");
    u |= w;
  }
  return u;
}

/* ---------------------------------------------------------------------------------------------- */
/* register: INFOS=0 partition only (larger NK), INFOS=1 with info accumulation */
#ifndef INFOS
#define INFOS 0
#endif
VP_HARNESS(h_register)
{
  mk_state(INFOS);
  unsigned long m = vp_in64();
  VP_ASSUME(!(m & ~UNIV));
  int forced = vp_in_int();
  unsigned long flags = vp_in64();
  unsigned newinfo = INFOS ? (unsigned) vp_in_range(0, 7) : 0;
  int pass_infos = INFOS ? vp_in_bool() : 0;
  struct hwloc_infos_s ni; struct hwloc_info_s nstore[ICAP];
  set_infos(&ni, nstore, newinfo);
  if (!pass_infos) newinfo = 0;
  hwloc_bitmap_t set = bm(m);
  VP_SYMBOLIC_PHASE(1);
  errno = 0;
  int r = hwloc_internal_cpukinds_register(&T, set, forced, pass_infos ? &ni : NULL, flags);
  if (m == 0 || (flags & ~HWLOC_CPUKINDS_REGISTER_FLAG_OVERWRITE_FORCED_EFFICIENCY)) {
    VP_CHECK(r == -1 && errno == EINVAL, "register: empty cpuset or unknown flags are rejected with EINVAL");
    VP_CHECK(T.nr_cpukinds == n0, "register: a rejected call leaves the number of kinds unchanged");
    for (unsigned i = 0; i < NK; i++) if (i < n0) {
      VP_CHECK(kset(i) == old_set[i], "register: a rejected call leaves the kinds unchanged");
      VP_CHECK(T.cpukinds[i].forced_efficiency == old_forced[i], "register: a rejected call leaves forced efficiencies unchanged");
    }
  } else {
    VP_CHECK(r == 0, "register: a valid registration succeeds");
    unsigned long u = check_partition();
    VP_CHECK(u == (old_union | m), "register: union of kinds = old union + registered cpuset");
    VP_CHECK(T.nr_cpukinds <= 2 * n0 + 1, "register: at most 2N+1 kinds");
    for (unsigned i = 0; i < 2 * NK + 1; i++) if (i < T.nr_cpukinds) {
      unsigned long w = kset(i);
      VP_CHECK((w & m) == w || (w & m) == 0, "register: every kind is inside or outside the registered cpuset");
      unsigned from = NK, cnt = 0;
      for (unsigned j = 0; j < NK; j++) if (j < n0 && (w & old_set[j])) { VP_CHECK((w & ~old_set[j]) == 0, "register: a kind never straddles two previous kinds"); from = j; cnt++; }
      VP_CHECK(cnt <= 1, "register: a kind comes from at most one previous kind");
#if INFOS
      unsigned expect = (from < NK ? old_info[from] : 0) | ((w & m) ? newinfo : 0);
      VP_CHECK(infomask(&T.cpukinds[i].infos) == expect, "register: infos = infos of the previous kind + infos of the covering registration, no duplicates");
#endif
      if ((w & m) && ((flags & HWLOC_CPUKINDS_REGISTER_FLAG_OVERWRITE_FORCED_EFFICIENCY) || from == NK || old_forced[from] == HWLOC_CPUKIND_EFFICIENCY_UNKNOWN))
        VP_CHECK(T.cpukinds[i].forced_efficiency == forced, "register: covered kinds take the forced efficiency when overwriting or previously unknown");
      if (!(w & m)) VP_CHECK(from < NK && T.cpukinds[i].forced_efficiency == old_forced[from], "register: kinds outside the registration keep their forced efficiency");
    }
  }
  VP_WITNESS_IF(r == 0 && T.nr_cpukinds == 2 * NK + 1, "every previous kind was split and a new one appended");
#if INFOS
  VP_WITNESS_IF(r == 0 && T.nr_cpukinds == 2 && n0 == 1 && infomask(&T.cpukinds[1].infos) == 7, "a split kind accumulating all three pairs");
#endif
}

/* public entry point: argument validation + ranking is invoked */
VP_HARNESS(h_register_public)
{
  mk_state(0);
  unsigned long m = vp_in64();
  VP_ASSUME(!(m & ~UNIV));
  int forced = vp_in_int();
  unsigned long flags = vp_in64();
  int null_set = vp_in_bool();
  hwloc_bitmap_t set = bm(m);
  vp_env = NULL;
  VP_SYMBOLIC_PHASE(1);
  errno = 0;
  int r = hwloc_cpukinds_register(&T, null_set ? NULL : set, forced, NULL, flags);
  if (flags || null_set || m == 0) {
    VP_CHECK(r == -1 && errno == EINVAL, "cpukinds_register: non-zero flags, NULL or empty cpuset -> EINVAL");
    VP_CHECK(T.nr_cpukinds == n0, "cpukinds_register: rejected call leaves the table unchanged");
    for (unsigned i = 0; i < NK; i++) if (i < n0) VP_CHECK(kset(i) == old_set[i], "cpukinds_register: rejected call leaves the kinds unchanged");
  } else {
    VP_CHECK(r == 0, "cpukinds_register: valid call succeeds");
    VP_CHECK(hwloc_bitmap_to_ulong(set) == m, "cpukinds_register: the caller's bitmap is not consumed or modified");
    unsigned long u = check_partition();
    VP_CHECK(u == (old_union | m), "cpukinds_register: union grows by the registered cpuset");
#ifndef RANK_STUB
    /* efficiencies: all -1 or identity permutation (with RANK_STUB the ranking step is cut on the goto
     * binary and decided separately by h_rank from an arbitrary valid table) */
    int allunk = 1, ident = 1;
    for (unsigned i = 0; i < 2 * NK + 1; i++) if (i < T.nr_cpukinds) { if (T.cpukinds[i].efficiency != -1) allunk = 0; if (T.cpukinds[i].efficiency != (int) i) ident = 0; }
    VP_CHECK(allunk || ident, "efficiencies are all -1 or 0..nr-1 increasing with the kind index");
#endif
    for (unsigned i = 0; i < 2 * NK + 1; i++) if (i < T.nr_cpukinds && (kset(i) & m)) VP_CHECK(T.cpukinds[i].forced_efficiency == (forced < 0 ? -1 : forced), "negative forced efficiency means unknown");
  }
  VP_WITNESS_IF(r == 0 && T.nr_cpukinds == 3, "three kinds after a public registration");
}

/* ---------------------------------------------------------------------------------------------- */
VP_HARNESS(h_restrict)
{
  mk_state(0);
  unsigned long root = vp_in64();
  ROOT.cpuset = bm(root);
  vp_env = NULL;
  unsigned long expect[NK]; unsigned ne = 0;
  for (unsigned i = 0; i < NK; i++) if (i < n0 && (old_set[i] & root)) expect[ne++] = old_set[i] & root;
  VP_SYMBOLIC_PHASE(1);
  hwloc_internal_cpukinds_restrict(&T);
  check_partition();
  VP_CHECK(T.nr_cpukinds == ne, "restrict: exactly the kinds that keep a PU survive");
  /* survivors are the old kinds intersected with the root cpuset; their relative order may only
   * change through the re-ranking that restrict performs when something was removed */
  unsigned long seen = 0;
  for (unsigned i = 0; i < NK; i++) if (i < T.nr_cpukinds) {
    unsigned long w = kset(i); unsigned hit = 0;
    for (unsigned j = 0; j < NK; j++) if (j < ne && expect[j] == w) hit = 1;
    VP_CHECK(hit, "restrict: every surviving kind is an old kind intersected with the topology cpuset");
    seen |= w;
  }
  VP_CHECK(seen == (old_union & root), "restrict: union of kinds = old union intersected with the topology cpuset");
  if (ne == n0) for (unsigned i = 0; i < NK; i++) if (i < ne) VP_CHECK(kset(i) == expect[i], "restrict: order unchanged when no kind disappears");
  VP_WITNESS_IF(n0 == NK && ne == NK - 1 && (old_set[0] & root) == 0, "first kind removed, others shifted down");
}

/* ---------------------------------------------------------------------------------------------- */
/* ranking: forced efficiencies and info-based strategies, HWLOC_CPUKINDS_RANKING symbolic */
static const char *const envs[13] = { NULL, "default", "none", "coretype+frequency", "coretype+frequency_strict", "coretype", "frequency",
                                      "frequency_max", "frequency_base", "forced_efficiency", "no_forced_efficiency", "bogus", "" };
static const char *const fpool[3] = { "1000", "2000", "0" };
/* restrict + re-ranking: the real body of hwloc_internal_cpukinds_restrict (copied out of the current cpukinds.c by the driver,
 * restrict.inc, renamed *__vp) compiled against a CONTRACT of hwloc_internal_cpukinds_rank — what the rank harness decides
 * for every valid table: no kind -> nothing, one kind -> efficiency 0, otherwise all -1 or 0..nr-1 by index. Asserted: after any
 * restrict of a ranked table the efficiencies are again all -1 or 0..nr-1 (the real rank on symbolic cpusets composed with the
 * entry-moving restrict exhausts the solver's memory). */
#ifdef RESTRICT_COPY
static unsigned vp_rank_calls;
static int vp_rank_contract(struct hwloc_topology *t)
{
  vp_rank_calls++;
  if (!t->nr_cpukinds) return 0;
  if (t->nr_cpukinds == 1) { t->cpukinds[0].efficiency = 0; return 0; }
  int unk = vp_in_bool();
  for (unsigned i = 0; i < NK; i++) if (i < t->nr_cpukinds) t->cpukinds[i].efficiency = unk ? -1 : (int) i;
  return 0;
}
#define hwloc_internal_cpukinds_rank vp_rank_contract
#include "restrict.inc"
#undef hwloc_internal_cpukinds_rank
VP_HARNESS(h_restrict_rank)
{
  mk_state(0);
  VP_ASSUME(n0 == NK);      /* stated bound: exactly NK kinds before the restrict (partition clauses: the restrict harness) */
  /* pre-state: a table as ranking leaves it */
  int unk = vp_in_bool();
  for (unsigned i = 0; i < NK; i++) if (i < n0) KK[i].efficiency = (unk && n0 >= 2) ? -1 : (int) i;
  unsigned long root = vp_in64();
  ROOT.cpuset = bm(root);
  vp_env = NULL;
  unsigned ne = 0;
  for (unsigned i = 0; i < NK; i++) if (i < n0 && (old_set[i] & root)) ne++;
  VP_SYMBOLIC_PHASE(1);
  hwloc_internal_cpukinds_restrict__vp(&T);
  VP_CHECK(T.nr_cpukinds == ne, "restrict: exactly the kinds that keep a PU survive");
  int allunk = 1, ident = 1;
  for (unsigned i = 0; i < NK; i++) if (i < T.nr_cpukinds) { if (T.cpukinds[i].efficiency != -1) allunk = 0; if (T.cpukinds[i].efficiency != (int) i) ident = 0; }
  if (T.nr_cpukinds >= 2) VP_CHECK(allunk || ident, "after restrict the efficiencies are all -1 or 0..nr-1 increasing with the kind index");
  if (T.nr_cpukinds == 1) VP_CHECK(T.cpukinds[0].efficiency == 0 || (T.cpukinds[0].efficiency == -1 && ne == n0), "after restrict a single remaining kind has efficiency 0 (a permutation of 0..nr-1)");
  VP_WITNESS_IF(n0 == NK && ne == 1 && !unk && (old_set[0] & root) == 0, "only the last kind survives");
  VP_WITNESS_IF(n0 == NK && ne == NK, "nothing removed");
}
#endif

VP_HARNESS(h_rank)
{
  memset(&T, 0, sizeof T);
  T.cpukinds = KK; T.nr_cpukinds_allocated = SLOTS;
  unsigned n = (unsigned) vp_in_range(0, NK);
  hwloc_bitmap_t sets[NK]; int forced[NK]; unsigned maxf[NK], basef[NK], ctype[NK];
  for (unsigned i = 0; i < NK; i++) if (i < n) {
    sets[i] = KK[i].cpuset = bm(1UL << i);
    forced[i] = KK[i].forced_efficiency = vp_in_int();
    VP_ASSUME(forced[i] >= -1);
    KK[i].efficiency = vp_in_int();
    KK[i].ranking_value = vp_in64();
    KK[i].infos.array = istore[i]; KK[i].infos.allocated = ICAP; KK[i].infos.count = 0;
    maxf[i] = (unsigned) vp_in_range(0, 3); basef[i] = (unsigned) vp_in_range(0, 3); ctype[i] = (unsigned) vp_in_range(0, 2);
    if (maxf[i] < 3) { istore[i][KK[i].infos.count].name = (char *) "FrequencyMaxMHz"; istore[i][KK[i].infos.count].value = (char *) fpool[maxf[i]]; KK[i].infos.count++; }
    if (basef[i] < 3) { istore[i][KK[i].infos.count].name = (char *) "FrequencyBaseMHz"; istore[i][KK[i].infos.count].value = (char *) fpool[basef[i]]; KK[i].infos.count++; }
    if (ctype[i] < 2) { istore[i][KK[i].infos.count].name = (char *) "CoreType"; istore[i][KK[i].infos.count].value = (char *) (ctype[i] ? "IntelCore" : "IntelAtom"); KK[i].infos.count++; }
  }
  T.nr_cpukinds = n;
  unsigned e = (unsigned) vp_in_range(0, 12);
  vp_env = envs[e];
  VP_SYMBOLIC_PHASE(1);
  int r = hwloc_internal_cpukinds_rank(&T);
  VP_CHECK(r == 0, "rank returns 0");
  VP_CHECK(T.nr_cpukinds == n, "rank keeps the number of kinds");
  int allunk = 1, ident = 1; unsigned seen = 0;
  for (unsigned i = 0; i < NK; i++) if (i < n) {
    if (T.cpukinds[i].efficiency != -1) allunk = 0;
    if (T.cpukinds[i].efficiency != (int) i) ident = 0;
    unsigned long w = kset(i);
    VP_CHECK(w && !(w & (w - 1)) && w < (1UL << NK) && !(seen & w), "rank permutes the kinds (nothing lost, nothing duplicated)");
    seen |= (unsigned) w;
  }
  if (n) VP_CHECK(allunk || ident, "efficiencies are all -1 or 0..nr-1 increasing with the kind index");
  /* consistency with forced efficiencies when all are known and distinct, under the default strategy */
  int allknown = 1, distinct = 1;
  for (unsigned i = 0; i < NK; i++) if (i < n) { if (forced[i] == -1) allknown = 0; for (unsigned j = 0; j < i; j++) if (forced[j] == forced[i]) distinct = 0; }
  if (n >= 2 && allknown && distinct && (e <= 1 || e == 9 || e >= 11)) {
    VP_CHECK(ident, "known distinct forced efficiencies always produce a ranking");
    for (unsigned i = 1; i < NK; i++) if (i < n) VP_CHECK(T.cpukinds[i-1].forced_efficiency < T.cpukinds[i].forced_efficiency, "ranking follows the forced efficiencies");
  }
  if (n >= 2 && e == 2) VP_CHECK(allunk, "HWLOC_CPUKINDS_RANKING=none leaves efficiencies unknown");
  #if NK <= 2
  VP_WITNESS_IF(n == NK && ident && e == 6 && kset(0) != 1, "kinds reordered by frequency");
#else      /* the pool has two non-zero frequencies: three kinds cannot all differ by frequency alone */
  VP_WITNESS_IF(n == NK && ident && kset(0) != 1, "kinds reordered");
#endif
  VP_WITNESS_IF(n == NK && allunk && e == 4, "strict strategy failing");
}

/* ---------------------------------------------------------------------------------------------- */
VP_HARNESS(h_query)
{
  mk_state(0);
  unsigned long q = vp_in64(); int qinf = vp_in_bool(), qnull = vp_in_bool();
  unsigned long flags = vp_in64();
  unsigned id = vp_in_uint();
  hwloc_bitmap_t set = bm(q); if (qinf) hwloc_bitmap_set_range(set, 64, -1);
  for (unsigned i = 0; i < NK; i++) if (i < n0) T.cpukinds[i].efficiency = (int) i;
  VP_SYMBOLIC_PHASE(1);
  errno = 0;
  int r = hwloc_cpukinds_get_by_cpuset(&T, qnull ? NULL : set, flags);
  if (flags || qnull || (q == 0 && !qinf)) VP_CHECK(r == -1 && errno == EINVAL, "get_by_cpuset: flags, NULL or empty set -> EINVAL");
  else {
    unsigned inside = NK; unsigned touched = 0;
    for (unsigned i = 0; i < NK; i++) if (i < n0) { if (q & old_set[i]) touched++; if (!qinf && !(q & ~old_set[i])) inside = i; }
    if (inside < NK) VP_CHECK(r == (int) inside, "get_by_cpuset: index of the kind containing the set");
    else if (touched) VP_CHECK(r == -1 && errno == EXDEV, "get_by_cpuset: EXDEV when straddling kinds or partially covered");
    else VP_CHECK(r == -1 && errno == ENOENT, "get_by_cpuset: ENOENT when no kind is touched");
  }
  errno = 0;
  VP_CHECK(hwloc_cpukinds_get_nr(&T, flags) == (flags ? -1 : (int) n0), "get_nr");
  if (flags) VP_CHECK(errno == EINVAL, "get_nr: flags -> EINVAL");
  hwloc_bitmap_t out = bm(0x55); int eff = 77; struct hwloc_infos_s *ip = NULL;
  errno = 0;
  int g = hwloc_cpukinds_get_info(&T, id, out, &eff, &ip, flags);
  if (flags) VP_CHECK(g == -1 && errno == EINVAL, "get_info: flags -> EINVAL");
  else if (id >= n0) VP_CHECK(g == -1 && errno == ENOENT, "get_info: unknown id -> ENOENT");
  else {
    VP_CHECK(g == 0 && hwloc_bitmap_to_ulong(out) == old_set[id] && hwloc_bitmap_weight(out) >= 1, "get_info: cpuset of the kind");
    VP_CHECK(eff == (int) id && ip == &T.cpukinds[id].infos, "get_info: efficiency and infos of the kind");
  }
  VP_WITNESS_IF(r == 1, "set inside the second kind");
  VP_WITNESS_IF(r == -1 && errno == 0 && g == 0 && id == NK - 1, "last kind queried");
}

/* ---------------------------------------------------------------------------------------------- */
/* growth of the table through the real realloc sizing (2N+1 -> next power of two, 8 minimum): N concrete */
#ifndef GN
#define GN 0
#endif
VP_HARNESS(h_growth)
{
  memset(&T, 0, sizeof T);
  struct hwloc_internal_cpukind_s *arr = GN ? malloc(GN * sizeof(*arr)) : NULL;
  unsigned long uni = 0;
  for (unsigned i = 0; i < GN; i++) { memset(&arr[i], 0, sizeof(*arr)); arr[i].cpuset = bm(3UL << (2 * i)); arr[i].forced_efficiency = -1; uni |= 3UL << (2 * i); }
  T.cpukinds = arr; T.nr_cpukinds = GN; T.nr_cpukinds_allocated = GN;
  unsigned long m = vp_in64();
  VP_ASSUME(m && m < (1UL << (2 * GN + 1)));
  hwloc_bitmap_t set = bm(m);
  int r = hwloc_internal_cpukinds_register(&T, set, -1, NULL, 0);
  VP_CHECK(r == 0, "register with growth succeeds");
  VP_CHECK(T.nr_cpukinds_allocated >= 2 * GN + 1 && T.nr_cpukinds_allocated >= 8 && !(T.nr_cpukinds_allocated & (T.nr_cpukinds_allocated - 1)), "allocation: power of two >= max(8, 2N+1)");
  unsigned long u = 0;
  for (unsigned i = 0; i < 2 * GN + 1; i++) if (i < T.nr_cpukinds) { unsigned long w = kset(i); VP_CHECK(w && !(w & u), "growth: still a partition"); u |= w; }
  VP_CHECK(u == (uni | m), "growth: union preserved");
  VP_WITNESS_IF(T.nr_cpukinds == 2 * GN + 1, "maximal split after growth");
}

/* ---------------------------------------------------------------------------------------------- */
/* info accumulation in isolation: the real hwloc__cpukind_add_infos on one kind with concrete storage
 * (the full-table variant h_register INFOS=1 indexes the table symbolically and is a stretch harness) */
VP_HARNESS(h_add_infos)
{
  struct hwloc_internal_cpukind_s kind; struct hwloc_infos_s a, b; struct hwloc_info_s s0[ICAP], s1[ICAP], s2[ICAP];
  memset(&kind, 0, sizeof kind);
  unsigned m0 = (unsigned) vp_in_range(0, 7), m1 = (unsigned) vp_in_range(0, 7), m2 = (unsigned) vp_in_range(0, 7);
  int fresh = vp_in_bool();            /* a newly created kind starts with a NULL array */
  if (fresh) m0 = 0; else set_infos(&kind.infos, s0, m0);
  set_infos(&a, s1, m1); set_infos(&b, s2, m2);
  VP_SYMBOLIC_PHASE(1);
  hwloc__cpukind_add_infos(&kind, &a);     /* infos of the kind being split */
  hwloc__cpukind_add_infos(&kind, &b);     /* infos of the new registration */
  VP_CHECK(infomask(&kind.infos) == (m0 | m1 | m2), "add_infos: union of the pairs, no exact duplicate, nothing lost");
  VP_CHECK(infomask(&a) == m1 && infomask(&b) == m2, "add_infos: sources unchanged");
  VP_WITNESS_IF(fresh && m1 == 5 && m2 == 3, "a fresh kind receiving overlapping info sets");
}
