/* C19 (pipeline) — get_length -> write -> adopt -> allow -> destroy on the hand-linked topology of vp_mini.h.
 * Real code: hwloc/shmem.c (textually included); topology.c (hwloc__topology_dup and everything below it, destroy),
 * bitmap.c, traversal.c, distances.c, memattrs.c, cpukinds.c linked. The mapping is a heap object of EXACTLY
 * get_length() bytes: any store beyond the announced length is a bounds violation for the solver.
 * OS: lseek/read/write/ftruncate/mmap/munmap/sysconf are harness stubs (page size 8).
 */
#include "private/autogen/config.h"
#include "hwloc.h"
#include "private/private.h"
#include "private/misc.h"
#include <string.h>
#include <assert.h>
#include "vp_mini.h"
#include <sys/mman.h>
#include <unistd.h>
#ifdef VP_CBMC
int hwloc_hide_errors(void) { return 2; }
char *getenv(const char *n) { (void) n; return 0; }
void hwloc_pci_discovery_init(struct hwloc_topology *t) { (void) t; }
void hwloc_pci_discovery_prepare(struct hwloc_topology *t) { (void) t; }
void hwloc_pci_discovery_exit(struct hwloc_topology *t) { (void) t; }
#endif
#define vp_w vp_mw
#ifndef PAGESZ
#define PAGESZ 8      /* a tiny page: the round-up in get_length hides nothing */
#endif
/* ---- OS / component environment -------------------------------------------------------------------------- */
static char *vp_region; static size_t vp_region_len;      /* what mmap hands out */
static int vp_mmap_mode;                                  /* 0 requested address, 1 another address, 2 MAP_FAILED */
static int vp_mmaps, vp_munmaps; static void *vp_unmapped; static char vp_other[64];
static char vp_file[32];                                  /* the first bytes of the file (header) */
static int vp_components;
#ifdef VP_CBMC
void hwloc_components_init(void) { vp_components++; }
void hwloc_components_fini(void) { vp_components--; }
void hwloc_topology_components_init(struct hwloc_topology *t) { (void) t; }
void hwloc_topology_components_fini(struct hwloc_topology *t) { (void) t; }
void hwloc_backends_disable_all(struct hwloc_topology *t) { (void) t; }
void hwloc_set_binding_hooks(struct hwloc_topology *t) { (void) t; }
long sysconf(int name) { (void) name; return PAGESZ; }
off_t lseek(int fd, off_t off, int wh) { (void) fd; (void) wh; return off; }
ssize_t write(int fd, const void *buf, size_t n) { (void) fd; for (size_t i = 0; i < 24; i++) if (i < n) vp_file[i] = ((const char *) buf)[i]; return (ssize_t) n; }
ssize_t read(int fd, void *buf, size_t n) { (void) fd; for (size_t i = 0; i < 24; i++) if (i < n) ((char *) buf)[i] = vp_file[i]; return (ssize_t) n; }
int ftruncate(int fd, off_t len) { (void) fd; (void) len; return 0; }
void *mmap(void *addr, size_t len, int prot, int fl, int fd, off_t off)
{ (void) prot; (void) fl; (void) fd; (void) off; (void) len; (void) addr; vp_mmaps++; return vp_mmap_mode == 0 ? (void *) vp_region : vp_mmap_mode == 1 ? (void *) vp_other : MAP_FAILED; }
int munmap(void *addr, size_t len) { (void) len; vp_munmaps++; vp_unmapped = addr; return 0; }
#endif
#include "hwloc/shmem.c"

static void info1(struct hwloc_infos_s *infos, const char *n, const char *v)
{
  struct hwloc_info_s *a = malloc(8 * sizeof(struct hwloc_info_s)); VP_NONNULL(a);
  a[0].name = strdup(n); a[0].value = strdup(v); VP_NONNULL(a[0].name); VP_NONNULL(a[0].value);
  infos->array = a; infos->count = 1; infos->allocated = 8;
}

#ifndef INCL
#define INCL 0       /* 1: the original carries INCLUDE_DISALLOWED with PU#1 and NUMA#1 disallowed; allow(ALL) is then run on the adopted copy */
#endif
VP_HARNESS(h_pipeline)
{
  struct hwloc_topology *t = vp_mini_build();
  info1(&t->infos, "k", "v");
  vp_mini.pu[0]->name = strdup("pu");
#if INCL
  t->flags |= HWLOC_TOPOLOGY_FLAG_INCLUDE_DISALLOWED;
  hwloc_bitmap_clr(t->allowed_cpuset, 1); hwloc_bitmap_clr(t->allowed_nodeset, 1);
#endif
  size_t len = 0;
  int r = hwloc_shmem_topology_get_length(t, &len, 0);
  VP_CHECK(r == 0 && len > 0 && len % PAGESZ == 0, "get_length succeeds with a page-rounded length");
  vp_region = malloc(len); vp_region_len = len;
  VP_NONNULL(vp_region);
  vp_mmap_mode = 0;
  r = hwloc_shmem_topology_write(t, 3, 0, vp_region, len, 0);
  VP_CHECK(r == 0, "write succeeds into a mapping of exactly the announced length");
  hwloc_topology_t a = NULL;
  r = hwloc_shmem_topology_adopt(&a, 3, 0, vp_region, len, 0);
  VP_CHECK(r == 0 && a != NULL, "adopt with the same file, offset, address and length succeeds");
  VP_CHECK(a->adopted_shmem_addr == vp_region && a->adopted_shmem_length == len, "the adopted topology remembers its mapping");
  hwloc_obj_t root = a->levels[0][0];
#define INSIDE(p) ((char *) (p) >= vp_region && (char *) (p) < vp_region + len)
  VP_CHECK(INSIDE(root) && INSIDE(a->levels) && INSIDE(a->levels[2]) && INSIDE(root->cpuset) && INSIDE(root->children), "adopted objects, level arrays and sets live inside the mapping");
  VP_CHECK(vp_w(root->cpuset) == 0x27 && vp_w(root->nodeset) == 0x3 && a->nb_levels == 3 && a->level_nbobjects[2] == 4 && root->arity == 2, "adopted topology: same root sets, depth and widths");
  hwloc_obj_t apu = a->levels[2][0], anuma = a->slevels[HWLOC_SLEVEL_NUMANODE].objs[1];
  VP_CHECK(INSIDE(apu) && apu->os_index == 0 && apu->parent == a->levels[1][0] && apu->next_cousin == a->levels[2][1] && a->levels[2][3]->os_index == 5, "adopted PUs: indexes and links");
  VP_CHECK(apu->name && INSIDE(apu->name) && apu->name[0] == 'p' && apu->name[1] == 'u' && apu->name[2] == 0, "object names are copied into the mapping");
  VP_CHECK(INSIDE(anuma) && anuma->os_index == 1 && anuma->attr->numanode.local_memory == 2048 && anuma->parent == a->levels[1][1] && a->levels[1][1]->memory_first_child == anuma, "adopted NUMA nodes: attributes and attachment");
  VP_CHECK(a->infos.count == 1 && a->infos.array[0].name[0] == 'k' && a->infos.array[0].value[0] == 'v', "topology infos are carried over");
  VP_CHECK(a->tma == NULL && !INSIDE(a) && !INSIDE(a->support.cpubind), "what must stay writable (the topology header, support arrays) is a private copy");
#if INCL
  struct hwloc_topology *stored = (struct hwloc_topology *) (vp_region + 24);
  unsigned long before_c = vp_w(stored->allowed_cpuset), before_n = vp_w(stored->allowed_nodeset);
  VP_CHECK(before_c == 0x25 && before_n == 0x1, "the stored copy carries the restricted allowed sets");
  r = hwloc_topology_allow(a, NULL, NULL, HWLOC_ALLOW_FLAG_ALL);
  VP_CHECK(r == 0, "allow(ALL) works on an adopted topology loaded with INCLUDE_DISALLOWED");
  VP_CHECK(vp_w(a->allowed_cpuset) == 0x27 && vp_w(a->allowed_nodeset) == 0x3, "allow(ALL): everything allowed in the adopter's view");
  VP_CHECK(vp_w(stored->allowed_cpuset) == before_c && vp_w(stored->allowed_nodeset) == before_n && !INSIDE(a->allowed_cpuset) && !INSIDE(a->allowed_nodeset), "allow() does not write into the (read-only, shared) mapping");
#endif
  vp_munmaps = 0;
  hwloc_topology_destroy(a);
  VP_CHECK(vp_munmaps == 1 && vp_unmapped == vp_region, "destroy of an adopted topology unmaps its mapping exactly once");
  VP_WITNESS("get_length + write + adopt + destroy completed");
}
