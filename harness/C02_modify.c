/* C02 — well-formedness is preserved by modifying calls (one step from a valid state per entry point).
 * Real code: hwloc/topology.c (textually included): hwloc_topology_allow, the infos family,
 * insert_misc / alloc+insert_group argument phases, on seeds built by the real core.
 */
#ifndef SEED
#define SEED 4
#endif
#include "vp_seed.h"

static struct hwloc_topology *T; static struct vp_seed S;
static hwloc_bitmap_t in_set_or_null(unsigned long *wp, int *nullp)
{
  unsigned long q = vp_in64(); int isnull = vp_in_bool();
  VP_ASSUME(q < 256);
  *wp = q; *nullp = isnull;
  return isnull ? NULL : vp_bm(q);
}

/* ---- hwloc_topology_allow ------------------------------------------------------------------------------------ */
#ifndef INCL
#define INCL 1
#endif
static unsigned long hook_c, hook_n; static int hook_calls;
static int vp_allowed_hook(hwloc_topology_t t) { hook_calls++; hwloc_bitmap_from_ulong(t->allowed_cpuset, hook_c); hwloc_bitmap_from_ulong(t->allowed_nodeset, hook_n); return 0; }
VP_HARNESS(h_allow)
{
  int incl = INCL;         /* compile-time: the flag decides which objects the core keeps while building the seed */
  T = vp_seed_build(4, incl ? HWLOC_TOPOLOGY_FLAG_INCLUDE_DISALLOWED : 0); S = vp_seed;
  hwloc_obj_t root = T->levels[0][0];
  unsigned long rc = vp_w(root->cpuset), rn = vp_w(root->nodeset), rcc = vp_w(root->complete_cpuset), rcn = vp_w(root->complete_nodeset);
  unsigned long ac = vp_w(T->allowed_cpuset), an = vp_w(T->allowed_nodeset);
  unsigned long qc, qn; int nc, nn;
  hwloc_bitmap_t cs = in_set_or_null(&qc, &nc), ns = in_set_or_null(&qn, &nn);
  unsigned long flags = vp_in64();
  int thissystem = vp_in_bool(), hook = vp_in_bool(), loaded = vp_in_bool();
  hook_c = vp_in64(); hook_n = vp_in64(); VP_ASSUME(hook_c < 256 && hook_n < 16);
  if (thissystem) T->state |= HWLOC_TOPOLOGY_STATE_IS_THISSYSTEM; else T->state &= ~HWLOC_TOPOLOGY_STATE_IS_THISSYSTEM;
  if (!loaded) T->state &= ~HWLOC_TOPOLOGY_STATE_IS_LOADED;
  T->binding_hooks.get_allowed_resources = hook ? vp_allowed_hook : NULL;
  uint64_t gp = S.pu[0]->gp_index; S.pu[0]->userdata = (void *) 0x77;
  VP_SYMBOLIC_PHASE(1);
  errno = 0;
  int r = hwloc_topology_allow(T, cs, ns, flags);
  unsigned long nac = vp_w(T->allowed_cpuset), nan = vp_w(T->allowed_nodeset);
  VP_CHECK(vp_w(root->cpuset) == rc && vp_w(root->nodeset) == rn && vp_w(root->complete_cpuset) == rcc && vp_w(root->complete_nodeset) == rcn
           && S.pu[0]->gp_index == gp && S.pu[0]->userdata == (void *) 0x77 && !T->modified, "allow never touches the object tree, gp_index or userdata");
  if (r == 0) {
    VP_CHECK(loaded && incl, "allow only works on a loaded topology with INCLUDE_DISALLOWED");
    VP_CHECK(!(nac & ~rc) && !(nan & ~rn) && hwloc_bitmap_weight(T->allowed_cpuset) >= 0, "allow: allowed sets stay included in the root sets");
    if (flags == HWLOC_ALLOW_FLAG_ALL) VP_CHECK(nac == rcc && nan == rcn, "allow(ALL): everything allowed");
    if (flags == HWLOC_ALLOW_FLAG_CUSTOM) {
      VP_CHECK(nac == (nc ? ac : (rc & qc)) && nan == (nn ? an : (rn & qn)), "allow(CUSTOM): allowed sets = given sets intersected with the topology, untouched when NULL");
      VP_CHECK(nac && nan, "allow(CUSTOM): never empties an allowed set");
    }
    if (flags == HWLOC_ALLOW_FLAG_LOCAL_RESTRICTIONS) VP_CHECK(hook_calls == 1 && nac == (hook_c & rc) && nan == (hook_n & rn), "allow(LOCAL_RESTRICTIONS): what the OS reports, clipped to the topology");
  } else {
    VP_CHECK(r == -1 && (errno == EINVAL || errno == ENOSYS), "allow fails with EINVAL or ENOSYS");
    VP_CHECK(nac == ac && nan == an, "a failing allow leaves every observable attribute unchanged");
  }
#if !INCL
  VP_WITNESS_IF(r == -1 && errno == EINVAL && flags == HWLOC_ALLOW_FLAG_ALL && loaded, "allow(ALL) refused without INCLUDE_DISALLOWED");
#else
  VP_WITNESS_IF(r == 0 && flags == HWLOC_ALLOW_FLAG_CUSTOM && !nc && !nn && nac == 0x4, "custom cpuset and nodeset accepted");
  VP_WITNESS_IF(r == -1 && flags == HWLOC_ALLOW_FLAG_CUSTOM && !nc && !nn && (rc & qc) && !(rn & qn), "valid cpuset with a nodeset outside the topology");
  VP_WITNESS_IF(r == 0 && flags == HWLOC_ALLOW_FLAG_LOCAL_RESTRICTIONS, "local restrictions from the hook");
#endif
}

/* ---- infos family from an arbitrary valid table ------------------------------------------------------------------ */
#define NI 3
static const char *const ipool[3] = { "a", "b", "c" };
VP_HARNESS(h_infos)
{
  struct hwloc_infos_s I; unsigned cnt = (unsigned) vp_in_range(0, NI); unsigned in_n[NI], in_v[NI];
  I.array = malloc(8 * sizeof(struct hwloc_info_s)); VP_NONNULL(I.array); I.allocated = 8; I.count = cnt;
  for (unsigned i = 0; i < NI; i++) { in_n[i] = (unsigned) vp_in_range(0, 2); in_v[i] = (unsigned) vp_in_range(0, 2);
    if (i < cnt) { I.array[i].name = strdup(ipool[in_n[i]]); I.array[i].value = strdup(ipool[in_v[i]]); } }
  unsigned long op = vp_in64();
  unsigned qn = (unsigned) vp_in_range(0, 3), qv = (unsigned) vp_in_range(0, 3);
  const char *name = qn == 3 ? NULL : ipool[qn], *value = qv == 3 ? NULL : ipool[qv];
  errno = 0;
  int r = hwloc_modify_infos(&I, op, name, value);
  /* table invariant */
  VP_CHECK(I.count <= I.allocated && I.count <= NI + 1, "infos: count <= allocated");
  for (unsigned i = 0; i < NI + 1; i++) if (i < I.count) VP_CHECK(I.array[i].name && I.array[i].value && I.array[i].name[1] == 0 && I.array[i].value[1] == 0, "infos: no NULL name or value, strings intact");
  /* reference semantics on (name,value) index pairs */
  unsigned en[NI + 1], ev[NI + 1], ec = 0; int expect_ret = 0, einval = 0;
  if (op == HWLOC_MODIFY_INFOS_OP_ADD || op == HWLOC_MODIFY_INFOS_OP_ADD_UNIQUE) {
    if (!name || !value) einval = 1;
    else { int dup = 0; for (unsigned i = 0; i < NI; i++) if (i < cnt) { en[ec] = in_n[i]; ev[ec] = in_v[i]; ec++; if (in_n[i] == qn && in_v[i] == qv) dup = 1; }
      if (op == HWLOC_MODIFY_INFOS_OP_ADD_UNIQUE && dup) expect_ret = 0; else { en[ec] = qn; ev[ec] = qv; ec++; expect_ret = 1; } }
  } else if (op == HWLOC_MODIFY_INFOS_OP_REPLACE) {
    if (!name || !value) einval = 1;
    else { int found = 0; for (unsigned i = 0; i < NI; i++) if (i < cnt) { if (in_n[i] == qn) { if (!found) { en[ec] = qn; ev[ec] = qv; ec++; } found++; } else { en[ec] = in_n[i]; ev[ec] = in_v[i]; ec++; } }
      if (!found) { en[ec] = qn; ev[ec] = qv; ec++; expect_ret = 1; } else expect_ret = 1 + found; }
  } else if (op == HWLOC_MODIFY_INFOS_OP_REMOVE) {
    int found = 0; for (unsigned i = 0; i < NI; i++) if (i < cnt) { if ((!name || in_n[i] == qn) && (!value || in_v[i] == qv)) found++; else { en[ec] = in_n[i]; ev[ec] = in_v[i]; ec++; } }
    expect_ret = found;
  } else einval = 1;
  if (einval) { VP_CHECK(r == -1 && errno == EINVAL && I.count == cnt, "modify_infos: unknown operation or a missing name/value -> EINVAL, table unchanged"); }
  else {
    VP_CHECK(r == expect_ret, "modify_infos: documented return value (pairs added / 1+replaced / removed)");
    VP_CHECK(I.count == ec, "modify_infos: resulting number of pairs");
    for (unsigned i = 0; i < NI + 1; i++) if (i < ec) VP_CHECK(I.array[i].name[0] == ipool[en[i]][0] && I.array[i].value[0] == ipool[ev[i]][0], "modify_infos: ADD appends, ADD_UNIQUE skips exact duplicates, REPLACE keeps the first match and drops the others, REMOVE honours NULL wildcards; order of the rest preserved");
  }
  VP_WITNESS_IF(op == HWLOC_MODIFY_INFOS_OP_REPLACE && r == 3 && cnt == 3, "two entries of the same name collapsed by REPLACE");
  VP_WITNESS_IF(op == HWLOC_MODIFY_INFOS_OP_REMOVE && !name && value && r == 2, "REMOVE with a NULL name wildcard");
  VP_WITNESS_IF(op == HWLOC_MODIFY_INFOS_OP_ADD_UNIQUE && r == 0, "ADD_UNIQUE skipping a duplicate");
}

/* growth of the info array through the real realloc sizing (count concrete = allocated) */
VP_HARNESS(h_infos_growth)
{
  struct hwloc_infos_s I; I.array = NULL; I.allocated = 0; I.count = 0;
  for (unsigned i = 0; i < 9; i++) VP_CHECK(hwloc__add_info(&I, "k", "v") == 1, "add_info grows the array");
  VP_CHECK(I.count == 9 && I.allocated == 16 && I.array[8].name[0] == 'k' && I.array[0].value[0] == 'v', "9 pairs: capacity rounded to a multiple of 8, contents kept across realloc");
  struct hwloc_infos_s D; D.array = NULL; D.allocated = 0; D.count = 0;
  VP_CHECK(hwloc__add_info(&D, "d", "1") == 1 && hwloc__move_infos(&D, &I) == 0, "move_infos");
  VP_CHECK(D.count == 10 && D.allocated >= 10 && D.array[0].name[0] == 'd' && D.array[9].name[0] == 'k' && I.count == 0 && I.array == NULL, "move_infos appends the source pairs and empties the source");
  VP_WITNESS("growth path executed");
}

/* ---- Misc insertion and Group allocation/insertion: argument phase ---------------------------------------------------- */
#ifndef WHICH
#define WHICH 0
#endif
#ifndef LOADED
#define LOADED 1
#endif
#ifndef GC
#define GC 0           /* refusal case of insert_group: 0 Groups filtered out, 1 no set given, 2 a set outside the topology */
#endif
VP_HARNESS(h_misc_group_args)
{
  T = vp_seed_build(1, 0); S = vp_seed;
  /* the loaded state is symbolic for the Misc case; for Groups it is a compile-time constant: alloc_group returns
   * loaded ? object : NULL, and a pointer that may be NULL makes every field read through it an unknown for symex */
  int loaded = WHICH == 0 ? vp_in_bool() : LOADED; int mfilter = (int) vp_in_range(0, 3), gfilter = (int) vp_in_range(0, 3);
  if (!loaded) T->state &= ~HWLOC_TOPOLOGY_STATE_IS_LOADED;
  T->type_filter[HWLOC_OBJ_MISC] = (enum hwloc_type_filter_e) mfilter; T->type_filter[HWLOC_OBJ_GROUP] = (enum hwloc_type_filter_e) gfilter;
  unsigned nroot = T->levels[0][0]->arity; unsigned long rc = S.cpus; uint64_t gpn = T->next_gp_index;
#if WHICH == 0       /* compile-time: Misc insertion (0) or Group allocation + refused insertion (1) */
  {
    errno = 0;
    hwloc_obj_t m = hwloc_topology_insert_misc_object(T, S.pu[0], "m");
    if (!loaded || mfilter == HWLOC_TYPE_FILTER_KEEP_NONE) VP_CHECK(m == NULL && errno == EINVAL && S.pu[0]->misc_first_child == NULL, "insert_misc: unloaded topology or filtered-out Misc -> EINVAL, nothing attached");
    else { VP_CHECK(m && m->type == HWLOC_OBJ_MISC && m->parent == S.pu[0] && S.pu[0]->misc_first_child == m && S.pu[0]->misc_arity == 1 && m->name && m->name[0] == 'm', "insert_misc: attached below its parent");
      VP_CHECK(m->gp_index == gpn && T->next_gp_index == gpn + 1, "insert_misc: a fresh gp_index");
      VP_CHECK(T->slevels[HWLOC_SLEVEL_MISC].nbobjs == 1 && T->slevels[HWLOC_SLEVEL_MISC].objs[0] == m && m->depth == HWLOC_TYPE_DEPTH_MISC, "insert_misc: the Misc level is rebuilt"); }
    VP_WITNESS_IF(m != NULL, "a Misc object inserted");
  }
#else
  {
    errno = 0;
    hwloc_obj_t g = hwloc_topology_alloc_group_object(T);
    if (!loaded) VP_CHECK(g == NULL && errno == EINVAL, "alloc_group: unloaded topology -> EINVAL");
    else {
      VP_CHECK(g && g->type == HWLOC_OBJ_GROUP, "alloc_group gives a Group");
      /* a Group without any set, or with sets that are empty after clipping to the topology, is rejected and freed */
      /* stated bound: only the refusal paths are explored here, one per compile-time case (a successful insertion
       * restructures the tree: C01 insert harness). The set of case 2 is masked, not assumed, so that symex sees an
       * empty intersection with the topology (0x27) and does not walk the insertion */
      static const unsigned long outside[6] = { 0x08, 0x10, 0x40, 0x80, 0xD8, 0x18 };     /* no bit of the topology (0x27) */
      unsigned sel = (unsigned) vp_in_range(0, 5); int give = GC == 1 ? 0 : GC == 2 ? 1 : vp_in_bool();
      if (GC == 0) { VP_ASSUME(gfilter == HWLOC_TYPE_FILTER_KEEP_NONE); T->type_filter[HWLOC_OBJ_GROUP] = HWLOC_TYPE_FILTER_KEEP_NONE; gfilter = HWLOC_TYPE_FILTER_KEEP_NONE; }
      /* the set is picked among concrete candidates, each inserted in its own guarded run: symex then sees the empty
       * intersection with the topology and does not walk the insertion (it has no way to learn it from a mask or an
       * assumption on a symbolic word) */
      hwloc_obj_t res = (hwloc_obj_t) 1; int done = 0;
      for (unsigned k = 0; k < 6; k++) if (sel == k) {
        if (k > 0) { g = hwloc_topology_alloc_group_object(T); VP_NONNULL(g); }
        if (give) g->cpuset = vp_bm(GC == 2 ? outside[k] : (0x01UL << k));
        errno = 0;
        res = hwloc_topology_insert_group_object(T, g); done = 1;
      }
      VP_CHECK(done, "one case executed");
      VP_CHECK(res == NULL && errno == EINVAL, "insert_group: filtered-out Groups, no set, or a set outside the topology -> EINVAL");
      VP_CHECK(T->levels[0][0]->arity == nroot && T->nb_levels == 3 && vp_w(T->levels[0][0]->cpuset) == rc, "insert_group: a refused Group leaves the hierarchy untouched");
    }
#if LOADED
    VP_WITNESS_IF(g != NULL, "a Group allocated");
#else
    VP_WITNESS_IF(g == NULL, "alloc_group refused on an unloaded topology");
#endif
  }
#endif
}

/* ---- sibling-list surgery used when a level is merged away (restrict / filter keep_structure) ------------------------- */
/* two well-formed doubly linked lists of NA and NB objects (ranks 0.., prev/next consistent, each with its own parent) */
#ifndef NA
#define NA 2
#endif
#ifndef NB
#define NB 2
#endif
#ifndef OPL
#define OPL 0          /* 0 prepend_siblings_list, 1 append_siblings_list */
#endif
static hwloc_obj_t mk_list(unsigned n, hwloc_obj_t parent, hwloc_obj_t *all)
{
  hwloc_obj_t first = NULL, prev = NULL;
  for (unsigned i = 0; i < n; i++) {
    hwloc_obj_t o = malloc(sizeof *o); VP_NONNULL(o); static const struct hwloc_obj oz; *o = oz;
    o->type = HWLOC_OBJ_MISC; o->parent = parent; o->sibling_rank = i; o->prev_sibling = prev; if (prev) prev->next_sibling = o; else first = o; prev = o; all[i] = o;
  }
  return first;
}
VP_HARNESS(h_siblings)
{
  struct hwloc_obj PA, PB; hwloc_obj_t a[4], b[4];
  hwloc_obj_t la = mk_list(NA, &PA, a), lb = mk_list(NB, &PB, b);
  hwloc_obj_t first = la;                       /* the list that stays: children of PA */
#if OPL == 0
  prepend_siblings_list(&first, lb, &PA);       /* documented precondition: the new list is non-NULL (NB >= 1) */
  hwloc_obj_t expect[8]; unsigned ne = 0; for (unsigned i = 0; i < NB; i++) expect[ne++] = b[i]; for (unsigned i = 0; i < NA; i++) expect[ne++] = a[i];
#else
  append_siblings_list(&first, lb, &PA);
  hwloc_obj_t expect[8]; unsigned ne = 0; for (unsigned i = 0; i < NA; i++) expect[ne++] = a[i]; for (unsigned i = 0; i < NB; i++) expect[ne++] = b[i];
#endif
  unsigned k = 0; hwloc_obj_t prev = NULL;
  for (hwloc_obj_t o = first; o && k < 8; prev = o, o = o->next_sibling, k++) {
    VP_CHECK(k < ne && o == expect[k], "siblings: the merged list is the two lists in order");
    VP_CHECK(o->prev_sibling == prev, "siblings: prev_sibling is the predecessor in the merged list");
    VP_CHECK(o->sibling_rank == k, "siblings: sibling_rank is the position in the merged list");
    VP_CHECK(o->parent == &PA, "siblings: every element belongs to the new parent");
  }
  VP_CHECK(k == ne, "siblings: no element lost");
  VP_WITNESS("lists merged");
}

/* ---- successful (and conflicting) Group insertion on whole trees: enumerated cpusets as concrete runs selected by symbolic inputs ------------- */
#include "vp_wf.h"
#ifndef NSLICE
#define NSLICE 1
#endif
#ifndef SLICE
#define SLICE 0
#endif
#ifndef NG1
#define NG1 4       /* first Group among the first NG1 sets, second among the first NG2 (or none) */
#endif
#ifndef NG2
#define NG2 8
#endif
#define GMAXO 12
struct gsnap { unsigned n; uint64_t gp[GMAXO]; int type[GMAXO]; unsigned long c[GMAXO], nd[GMAXO]; uint64_t pgp[GMAXO]; unsigned rank[GMAXO]; void *ud[GMAXO]; };
static void gsnap_walk(hwloc_obj_t o, struct gsnap *s, int tag)
{
  if (s->n >= GMAXO) return;
  if (tag) o->userdata = (void *) (0x2000 + o->gp_index);
  unsigned k = s->n++; s->gp[k] = o->gp_index; s->type[k] = (int) o->type; s->c[k] = vp_w(o->cpuset); s->nd[k] = vp_w(o->nodeset); s->pgp[k] = o->parent ? o->parent->gp_index : 0; s->rank[k] = o->sibling_rank; s->ud[k] = o->userdata;
  for (hwloc_obj_t c = o->memory_first_child; c; c = c->next_sibling) gsnap_walk(c, s, tag);
  for (hwloc_obj_t c = o->first_child; c; c = c->next_sibling) gsnap_walk(c, s, tag);
}
static int gsnap_same(const struct gsnap *a, const struct gsnap *b)
{ if (a->n != b->n) return 0; for (unsigned i = 0; i < a->n && i < GMAXO; i++) if (a->gp[i] != b->gp[i] || a->type[i] != b->type[i] || a->c[i] != b->c[i] || a->nd[i] != b->nd[i] || a->pgp[i] != b->pgp[i] || a->rank[i] != b->rank[i] || a->ud[i] != b->ud[i]) return 0; return 1; }
static int gpop(unsigned long x) { int n = 0; for (unsigned i = 0; i < 8; i++) if (x & (1UL << i)) n++; return n; }
static unsigned ge_runs, ge_new, ge_conflict;
static hwloc_obj_t insert_group(struct hwloc_topology *t, unsigned long set, int dont_merge)
{ hwloc_obj_t g = hwloc_topology_alloc_group_object(t); VP_NONNULL(g); g->cpuset = vp_bm(set); g->attr->group.dont_merge = (unsigned char) dont_merge; errno = 0; return hwloc_topology_insert_group_object(t, g); }
static void group_case(unsigned long g1, unsigned long g2)
{
  struct hwloc_topology *t = vp_seed_build(9, 0);
  static struct gsnap A, B, C; A.n = B.n = C.n = 0;
  gsnap_walk(t->levels[0][0], &A, 1);
  hwloc_obj_t r1 = insert_group(t, g1, 0);
  ge_runs++;
  /* on the flat seed every subset is consistent with the hierarchy: a singleton is a PU, the full set is the machine, anything else a new Group */
  VP_CHECK(r1 != NULL && vp_w(r1->cpuset) == g1, "insert_group: the result is an object whose cpuset is the requested one");
  if (!r1) return;
  if (gpop(g1) == 1) VP_CHECK(r1->type == HWLOC_OBJ_PU, "insert_group: a Group equal to an existing object is merged into it");
  else if (g1 == 0x27) VP_CHECK(r1 == t->levels[0][0], "insert_group: a Group covering the machine is the root");
  else { VP_CHECK(r1->type == HWLOC_OBJ_GROUP && r1->parent == t->levels[0][0] && (int) r1->arity == gpop(g1) && r1->depth == 1 && t->nb_levels == 3, "insert_group: a new Group between the machine and exactly the PUs of its cpuset"); ge_new++; }
  vp_wf_check(t, 0);
  gsnap_walk(t->levels[0][0], &B, 0);
  for (unsigned i = 0; i < A.n && i < GMAXO; i++) { int found = 0; for (unsigned j = 0; j < B.n && j < GMAXO; j++) if (B.gp[j] == A.gp[i]) { found = 1; VP_CHECK(B.type[j] == A.type[i] && B.c[j] == A.c[i] && B.ud[j] == A.ud[i], "insert_group: existing objects keep their gp_index, sets and userdata"); }
    VP_CHECK(found, "insert_group: no existing object is lost"); }
  if (!g2) return;
  hwloc_obj_t r2 = insert_group(t, g2, 0);
#ifndef VP_CBMC
  fprintf(stderr, "group_case g1=%#lx g2=%#lx r2=%p errno=%d\n", g1, g2, (void *) r2, errno);
#endif
  int is_new1 = gpop(g1) > 1 && g1 != 0x27;
  int conflict = is_new1 && (g1 & g2) && (g1 & ~g2) && (g2 & ~g1);
  if (conflict) {
    VP_CHECK(r2 == NULL, "insert_group: a Group that intersects an existing one without inclusion conflicts with the hierarchy -> NULL");
    gsnap_walk(t->levels[0][0], &C, 0);
    VP_CHECK(gsnap_same(&B, &C), "insert_group: a conflicting Group leaves every observable attribute unchanged");
    ge_conflict++;
  } else {
    VP_CHECK(r2 != NULL && vp_w(r2->cpuset) == g2, "insert_group: a second consistent Group is inserted or merged");
    if (r2 && is_new1 && gpop(g2) > 1 && g2 != 0x27 && g2 != g1 && !(g2 & ~g1)) VP_CHECK(r2->type == HWLOC_OBJ_GROUP && r2->parent == r1 && t->nb_levels == 4, "insert_group: a Group inside a Group nests below it");
    if (r2 && is_new1 && g2 == g1) VP_CHECK(r2 == r1, "insert_group: the same Group twice is merged");
  }
  vp_wf_check(t, 0);
}
VP_HARNESS(h_group_enum)
{
  static const unsigned long sets[12] = { 0x03, 0x06, 0x24, 0x05, 0x07, 0x26, 0x23, 0x25, 0x01, 0x27, 0x21, 0x22 };
  unsigned a = (unsigned) vp_in_range(0, 11), b = (unsigned) vp_in_range(0, 12), ci = 0;
  for (unsigned i = 0; i < NG1; i++) for (unsigned j = 0; j <= 12; j++) { if (j < 12 && j >= NG2) continue; if ((ci++ % NSLICE) == SLICE && a == i && b == j) group_case(sets[i], j < 12 ? sets[j] : 0); }
  VP_WITNESS_IF(ge_runs >= 1, "a Group insertion of this slice executed");
}

/* ---- a Group (dont_merge 0/1) on trees whose objects carry memory children: a new Group with the sets of an existing object takes that
 *      object's memory children; totals, arities and sets must follow ---------------------------------------------------------------------- */
#ifndef GM_SEED
#define GM_SEED 1
#endif
static unsigned gm_runs, gm_above;
static void group_mem_case(unsigned long g, int dont_merge)
{
  struct hwloc_topology *t = vp_seed_build(GM_SEED, 0);
  static struct gsnap A, B; A.n = B.n = 0;
  gsnap_walk(t->levels[0][0], &A, 1);
  unsigned long long total = t->levels[0][0]->total_memory;
  hwloc_obj_t r = insert_group(t, g, dont_merge);
  gm_runs++;
  /* the seeds' Packages are {0,1} and {2,5}: consistent sets are those that do not cut a Package */
  int cuts = ((g & 0x03) && (g & 0x03) != 0x03 && (g & ~0x03UL)) || ((g & 0x24) && (g & 0x24) != 0x24 && (g & ~0x24UL));
  if (cuts) VP_CHECK(r == NULL, "insert_group(mem): a Group that cuts a Package conflicts with the hierarchy -> NULL");
  else {
    VP_CHECK(r != NULL && vp_w(r->cpuset) == g, "insert_group(mem): the result is an object whose cpuset is the requested one");
    if (r && dont_merge && g != 0x27) { VP_CHECK(r->type == HWLOC_OBJ_GROUP, "insert_group(mem): a dont_merge Group inside the machine is inserted as such"); if (g == 0x03 || g == 0x24) gm_above++; }
    if (r && !dont_merge && (g == 0x03 || g == 0x24)) VP_CHECK(r->type == HWLOC_OBJ_PACKAGE, "insert_group(mem): a mergeable Group equal to a Package is merged into it");
  }
  VP_CHECK(t->levels[0][0]->total_memory == total, "insert_group(mem): the machine's total memory is unchanged");
  vp_wf_check(t, 0);
  gsnap_walk(t->levels[0][0], &B, 0);
  for (unsigned i = 0; i < A.n && i < GMAXO; i++) { int found = 0; for (unsigned j = 0; j < B.n && j < GMAXO; j++) if (B.gp[j] == A.gp[i]) { found = 1; VP_CHECK(B.type[j] == A.type[i] && B.c[j] == A.c[i] && B.nd[j] == A.nd[i] && B.ud[j] == A.ud[i], "insert_group(mem): existing objects keep their gp_index, sets and userdata"); }
    VP_CHECK(found, "insert_group(mem): no existing object is lost"); }
  if (cuts) VP_CHECK(gsnap_same(&A, &B), "insert_group(mem): a conflicting Group leaves every observable attribute unchanged");
}
VP_HARNESS(h_group_mem)
{
  static const unsigned long sets[8] = { 0x03, 0x24, 0x01, 0x20, 0x27, 0x07, 0x22, 0x04 };
  unsigned a = (unsigned) vp_in_range(0, 7), dm = (unsigned) vp_in_range(0, 1), ci = 0;
  for (unsigned i = 0; i < 8; i++) for (unsigned d = 0; d < 2; d++) if ((ci++ % NSLICE) == SLICE && a == i && dm == d) group_mem_case(sets[i], (int) d);
  VP_WITNESS_IF(gm_runs >= 1, "a Group insertion of this slice executed");
#if NSLICE == 4 && (SLICE % 2) == 1      /* the dont_merge runs over the first two sets fall into the odd slices */
  VP_WITNESS_IF(gm_above >= 1, "a dont_merge Group with the sets of a Package was inserted above it");
#endif
}
