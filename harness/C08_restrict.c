/* C08 — hwloc_topology_restrict removes exactly what the set excludes, or nothing.
 * (a) front end: the REAL hwloc_topology_restrict on a seed whose PU nodesets / NUMA cpusets are made
 *     symbolic, with the recursive workers, reconnect and propagation bodies cut on the goto binary: the
 *     dropped sets it computes are observed through the allowed sets; every EINVAL path must leave the
 *     allowed sets untouched.
 * (b) leaf step: the REAL restrict_object_by_cpuset / _by_nodeset on one leaf of a connected seed with a
 *     symbolic dropped set, symbolic flags and symbolic own sets: exact set update, exact removal rule,
 *     Misc adoption. Object free bodies are cut on the goto binary (reclamation is outside the harness).
 */
#ifndef SEED
#define SEED 1
#endif
#include "vp_seed.h"

static struct hwloc_topology *T; static struct vp_seed S;

static hwloc_bitmap_t in_set(unsigned long *wp, int *infp)
{
  unsigned long q = vp_in64(); int inf = vp_in_bool();
  VP_ASSUME(q < 256);
  hwloc_bitmap_t b = vp_bm(q);
  if (inf) hwloc_bitmap_set_range(b, 64, -1);
  *wp = q; *infp = inf;
  return b;
}

/* ---- (a) front end ---------------------------------------------------------------------------------------- */
VP_HARNESS(h_front)
{
  T = vp_seed_build(1, 0); S = vp_seed;
  /* S1: PUs 0,1,2,5; NUMA 0 (cpuset {0,1}) and 1 (cpuset {2,5}). Make locality symbolic. */
  unsigned long pun[4], ncs[2];
  for (unsigned i = 0; i < 4; i++) { pun[i] = vp_in_range(0, 3); hwloc_bitmap_from_ulong(S.pu[i]->nodeset, pun[i]); }
  for (unsigned i = 0; i < 2; i++) { ncs[i] = vp_in64(); VP_ASSUME(!(ncs[i] & ~0x27UL)); hwloc_bitmap_from_ulong(S.numa[i]->cpuset, ncs[i]); }
  unsigned long ac = vp_in64(), an = vp_in_range(0, 3);
  VP_ASSUME(!(ac & ~0x27UL));
  hwloc_bitmap_from_ulong(T->allowed_cpuset, ac); hwloc_bitmap_from_ulong(T->allowed_nodeset, an);
  unsigned long q; int inf; hwloc_bitmap_t set = in_set(&q, &inf);
  unsigned long flags = vp_in64();
  int loaded = vp_in_bool(), adopted = vp_in_bool();
  if (!loaded) T->state = 0;
  if (adopted) T->adopted_shmem_addr = (void *) T;
  T->modified = 0;
  VP_SYMBOLIC_PHASE(1);
  errno = 0;
  int r = hwloc_topology_restrict(T, set, flags);
  unsigned long known = HWLOC_RESTRICT_FLAG_REMOVE_CPULESS | HWLOC_RESTRICT_FLAG_ADAPT_MISC | HWLOC_RESTRICT_FLAG_ADAPT_IO | HWLOC_RESTRICT_FLAG_BYNODESET | HWLOC_RESTRICT_FLAG_REMOVE_MEMLESS;
  int bynode = !!(flags & HWLOC_RESTRICT_FLAG_BYNODESET);
  int inconsistent = (flags & ~known) || (bynode && (flags & HWLOC_RESTRICT_FLAG_REMOVE_CPULESS)) || (!bynode && (flags & HWLOC_RESTRICT_FLAG_REMOVE_MEMLESS));
  int nothing = bynode ? !(q & an) : !(q & ac);
  /* resources that become empty with the optional REMOVE flags */
  unsigned long dropc = 0, dropn = 0;
  if (bynode) { if (flags & HWLOC_RESTRICT_FLAG_REMOVE_MEMLESS) { static const unsigned os[4] = { 0, 1, 2, 5 }; for (unsigned i = 0; i < 4; i++) if (!(pun[i] & q)) dropc |= 1UL << os[i]; } }
  else { if (flags & HWLOC_RESTRICT_FLAG_REMOVE_CPULESS) for (unsigned i = 0; i < 2; i++) if (!(ncs[i] & q)) dropn |= 1UL << i; }
  int all_gone = bynode ? ((flags & HWLOC_RESTRICT_FLAG_REMOVE_MEMLESS) && !(ac & ~dropc)) : ((flags & HWLOC_RESTRICT_FLAG_REMOVE_CPULESS) && !(an & ~dropn));
  if (!loaded || adopted || inconsistent || nothing || all_gone) {
    VP_CHECK(r == -1, "restrict: unloaded/adopted topology, inconsistent flags, a set outside the allowed set, or a set that would remove every PU/node fails");
    if (loaded && adopted) VP_CHECK(errno == EPERM, "restrict: EPERM on an adopted topology"); else VP_CHECK(errno == EINVAL, "restrict: EINVAL");
    VP_CHECK(vp_w(T->allowed_cpuset) == ac && vp_w(T->allowed_nodeset) == an && !T->modified, "restrict: a failing call leaves the topology observably unchanged");
  } else {
    VP_CHECK(r == 0, "restrict succeeds");
    if (bynode) {
      VP_CHECK(vp_w(T->allowed_nodeset) == (an & q), "restrict by nodeset: allowed nodeset = previous value intersected with S");
      VP_CHECK(vp_w(T->allowed_cpuset) == (ac & ~dropc), "restrict by nodeset: exactly the PUs left without any node are dropped (only with REMOVE_MEMLESS)");
    } else {
      VP_CHECK(vp_w(T->allowed_cpuset) == (ac & q), "restrict: allowed cpuset = previous value intersected with S");
      VP_CHECK(vp_w(T->allowed_nodeset) == (an & ~dropn), "restrict: exactly the nodes left without any CPU are dropped (only with REMOVE_CPULESS)");
    }
  }
  VP_WITNESS_IF(r == 0 && bynode && dropc == 0x2 && pun[1] == 0x2 && pun[0] == 0x3 && q == 0x1, "a PU local to two nodes is kept while a PU local to the dropped node goes");
  VP_WITNESS_IF(r == 0 && !bynode && dropn == 0x2, "a node becoming CPU-less is dropped");
  VP_WITNESS_IF(r == -1 && all_gone, "a call that would remove everything refused");
}

/* ---- (b) leaf step -------------------------------------------------------------------------------------------- */
#ifndef LEAF
#define LEAF 0     /* 0: first PU of Package0 (S1/S2); 1: PU5 carrying a Misc child (S2); 2: NUMA0 memory child; 3: CPU-less NUMA2 (S2) */
#endif
#ifndef BYNODE
#define BYNODE 0
#endif
VP_HARNESS(h_leaf)
{
  T = vp_seed_build(SEED, 0); S = vp_seed;
  hwloc_obj_t leaf, *pobj, parent;
#if LEAF == 0
  leaf = S.pu[0]; parent = leaf->parent; pobj = &parent->first_child;
#elif LEAF == 1
  leaf = S.pu[3]; parent = leaf->parent; pobj = &parent->first_child;
#elif LEAF == 2
  leaf = S.numa[0]; parent = leaf->parent; pobj = &parent->memory_first_child;
#else
  leaf = S.numa[2]; parent = leaf->parent; pobj = &parent->memory_first_child;
#endif
  VP_ASSUME(*pobj == leaf && !leaf->first_child && !leaf->memory_first_child);
  hwloc_obj_t sibling = leaf->next_sibling, misc = leaf->misc_first_child, pmisc = parent->misc_first_child;
  /* own sets: arbitrary subsets of small universes with cpuset <= complete_cpuset, nodeset <= complete_nodeset */
  unsigned long c = vp_in64(), cc = vp_in64(), n = vp_in64(), cn = vp_in64();
  VP_ASSUME(!(cc & ~0xffUL) && !(c & ~cc) && !(cn & ~0xfUL) && !(n & ~cn));
  hwloc_bitmap_from_ulong(leaf->cpuset, c); hwloc_bitmap_from_ulong(leaf->complete_cpuset, cc);
  hwloc_bitmap_from_ulong(leaf->nodeset, n); hwloc_bitmap_from_ulong(leaf->complete_nodeset, cn);
  unsigned long dc = vp_in64(), dn = vp_in64(); int has2 = vp_in_bool();
  VP_ASSUME(!(dc & ~0xffUL) && !(dn & ~0xfUL));
  hwloc_bitmap_t dcs = vp_bm(dc), dns = vp_bm(dn);
  unsigned long flags = vp_in64(); VP_ASSUME(flags < 32);
  uint64_t gp = leaf->gp_index; void *ud = (void *) 0x1234; leaf->userdata = ud;
  T->modified = 0;
  VP_SYMBOLIC_PHASE(1);
#if BYNODE
  restrict_object_by_nodeset(T, flags, pobj, has2 ? dcs : NULL, dns);
  unsigned long edc = has2 ? dc : 0, edn = dn;
#else
  restrict_object_by_cpuset(T, flags, pobj, dcs, has2 ? dns : NULL);
  unsigned long edc = dc, edn = has2 ? dn : 0;
#endif
  /* the code tests intersection on the complete_ sets: everything inside them is cleared */
  unsigned long nc = c & ~edc, ncc = cc & ~edc, nn = n & ~edn, ncn = cn & ~edn;
#if BYNODE
  int removed = nn == 0 && (leaf->type != HWLOC_OBJ_PU || (flags & HWLOC_RESTRICT_FLAG_REMOVE_MEMLESS));
#else
  int removed = nc == 0 && (leaf->type != HWLOC_OBJ_NUMANODE || (flags & HWLOC_RESTRICT_FLAG_REMOVE_CPULESS));
#endif
  if (!removed) {
    VP_CHECK(*pobj == leaf && leaf->next_sibling == sibling && leaf->parent == parent, "restrict step: a kept object stays linked where it was");
    VP_CHECK(vp_w(leaf->cpuset) == nc && vp_w(leaf->complete_cpuset) == ncc && vp_w(leaf->nodeset) == nn && vp_w(leaf->complete_nodeset) == ncn, "restrict step: each set is its old value minus the dropped resources");
    VP_CHECK(leaf->gp_index == gp && leaf->userdata == ud && leaf->misc_first_child == misc, "restrict step: gp_index, userdata and Misc children of a surviving object are untouched");
    VP_CHECK(!T->modified, "restrict step: nothing flagged as modified when nothing is removed");
  } else {
    VP_CHECK(*pobj == sibling, "restrict step: a removed leaf is unlinked and its siblings keep their order");
    VP_CHECK(T->modified, "restrict step: removal flags the topology as modified");
    if (misc) {
      if (flags & HWLOC_RESTRICT_FLAG_ADAPT_MISC) { hwloc_obj_t x = parent->misc_first_child; unsigned k = 0; while (x && x != misc && k < 4) { x = x->next_sibling; k++; }
        VP_CHECK(x == misc && misc->parent == parent, "restrict step: with ADAPT_MISC the Misc children are re-attached to the parent"); }
      else VP_CHECK(parent->misc_first_child == pmisc, "restrict step: without ADAPT_MISC the Misc children are dropped, the parent's list is unchanged");
    }
  }
  VP_WITNESS_IF(removed, "the leaf is removed");
  VP_WITNESS_IF(!removed && nc != c && ncc != cc, "sets shrunk on a surviving leaf");
#if LEAF == 1
  VP_WITNESS_IF(removed && (flags & HWLOC_RESTRICT_FLAG_ADAPT_MISC), "Misc child adopted by the parent");
#endif
}
