/* C08 — hwloc_topology_restrict removes exactly what the set excludes, or nothing.
 * (a) front end: the REAL hwloc_topology_restrict on a seed whose PU nodesets / NUMA cpusets are made
 *     symbolic, with the recursive workers, reconnect and propagation bodies cut on the goto binary: the
 *     dropped sets it computes are observed through the allowed sets; every EINVAL path must leave the
 *     allowed sets untouched.
 * (b) leaf step: the REAL restrict_object_by_cpuset / _by_nodeset on one leaf of a connected seed with a
 *     symbolic dropped set, symbolic flags and symbolic own sets: exact set update, exact removal rule,
 *     Misc adoption. Object free bodies are cut on the goto binary (reclamation is outside the harness).
 */
#ifndef SEED
#define SEED 1
#endif
#include "vp_seed.h"

static struct hwloc_topology *T; static struct vp_seed S;

static hwloc_bitmap_t in_set(unsigned long *wp, int *infp)
{
  unsigned long q = vp_in64(); int inf = vp_in_bool();
  VP_ASSUME(q < 256);
  hwloc_bitmap_t b = vp_bm(q);
  if (inf) hwloc_bitmap_set_range(b, 64, -1);
  *wp = q; *infp = inf;
  return b;
}

/* ---- (a) front end ---------------------------------------------------------------------------------------- */
VP_HARNESS(h_front)
{
  T = vp_seed_build(1, 0); S = vp_seed;
  /* S1: PUs 0,1,2,5; NUMA 0 (cpuset {0,1}) and 1 (cpuset {2,5}). Make locality symbolic. */
  unsigned long pun[4], ncs[2];
  for (unsigned i = 0; i < 4; i++) { pun[i] = vp_in_range(0, 3); hwloc_bitmap_from_ulong(S.pu[i]->nodeset, pun[i]); }
  for (unsigned i = 0; i < 2; i++) { ncs[i] = vp_in64(); VP_ASSUME(!(ncs[i] & ~0x27UL)); hwloc_bitmap_from_ulong(S.numa[i]->cpuset, ncs[i]); }
  unsigned long ac = vp_in64(), an = vp_in_range(0, 3);
  VP_ASSUME(!(ac & ~0x27UL));
  hwloc_bitmap_from_ulong(T->allowed_cpuset, ac); hwloc_bitmap_from_ulong(T->allowed_nodeset, an);
  unsigned long q; int inf; hwloc_bitmap_t set = in_set(&q, &inf);
  unsigned long flags = vp_in64();
  int loaded = vp_in_bool(), adopted = vp_in_bool();
  if (!loaded) T->state = 0;
  if (adopted) T->adopted_shmem_addr = (void *) T;
  T->modified = 0;
  VP_SYMBOLIC_PHASE(1);
  errno = 0;
  int r = hwloc_topology_restrict(T, set, flags);
  unsigned long known = HWLOC_RESTRICT_FLAG_REMOVE_CPULESS | HWLOC_RESTRICT_FLAG_ADAPT_MISC | HWLOC_RESTRICT_FLAG_ADAPT_IO | HWLOC_RESTRICT_FLAG_BYNODESET | HWLOC_RESTRICT_FLAG_REMOVE_MEMLESS;
  int bynode = !!(flags & HWLOC_RESTRICT_FLAG_BYNODESET);
  int inconsistent = (flags & ~known) || (bynode && (flags & HWLOC_RESTRICT_FLAG_REMOVE_CPULESS)) || (!bynode && (flags & HWLOC_RESTRICT_FLAG_REMOVE_MEMLESS));
  int nothing = bynode ? !(q & an) : !(q & ac);
  /* resources that become empty with the optional REMOVE flags */
  unsigned long dropc = 0, dropn = 0;
  if (bynode) { if (flags & HWLOC_RESTRICT_FLAG_REMOVE_MEMLESS) { static const unsigned os[4] = { 0, 1, 2, 5 }; for (unsigned i = 0; i < 4; i++) if (!(pun[i] & q)) dropc |= 1UL << os[i]; } }
  else { if (flags & HWLOC_RESTRICT_FLAG_REMOVE_CPULESS) for (unsigned i = 0; i < 2; i++) if (!(ncs[i] & q)) dropn |= 1UL << i; }
  int all_gone = bynode ? ((flags & HWLOC_RESTRICT_FLAG_REMOVE_MEMLESS) && !(ac & ~dropc)) : ((flags & HWLOC_RESTRICT_FLAG_REMOVE_CPULESS) && !(an & ~dropn));
  if (!loaded || adopted || inconsistent || nothing || all_gone) {
    VP_CHECK(r == -1, "restrict: unloaded/adopted topology, inconsistent flags, a set outside the allowed set, or a set that would remove every PU/node fails");
    if (loaded && adopted) VP_CHECK(errno == EPERM, "restrict: EPERM on an adopted topology"); else VP_CHECK(errno == EINVAL, "restrict: EINVAL");
    VP_CHECK(vp_w(T->allowed_cpuset) == ac && vp_w(T->allowed_nodeset) == an && !T->modified, "restrict: a failing call leaves the topology observably unchanged");
  } else {
    VP_CHECK(r == 0, "restrict succeeds");
    if (bynode) {
      VP_CHECK(vp_w(T->allowed_nodeset) == (an & q), "restrict by nodeset: allowed nodeset = previous value intersected with S");
      VP_CHECK(vp_w(T->allowed_cpuset) == (ac & ~dropc), "restrict by nodeset: exactly the PUs left without any node are dropped (only with REMOVE_MEMLESS)");
    } else {
      VP_CHECK(vp_w(T->allowed_cpuset) == (ac & q), "restrict: allowed cpuset = previous value intersected with S");
      VP_CHECK(vp_w(T->allowed_nodeset) == (an & ~dropn), "restrict: exactly the nodes left without any CPU are dropped (only with REMOVE_CPULESS)");
    }
  }
  VP_WITNESS_IF(r == 0 && bynode && dropc == 0x2 && pun[1] == 0x2 && pun[0] == 0x3 && q == 0x1, "a PU local to two nodes is kept while a PU local to the dropped node goes");
  VP_WITNESS_IF(r == 0 && !bynode && dropn == 0x2, "a node becoming CPU-less is dropped");
  VP_WITNESS_IF(r == -1 && all_gone, "a call that would remove everything refused");
}

/* ---- (b) leaf step -------------------------------------------------------------------------------------------- */
#ifndef LEAF
#define LEAF 0     /* 0: first PU of Package0 (S1/S2); 1: PU5 carrying a Misc child (S2); 2: NUMA0 memory child; 3: CPU-less NUMA2 (S2) */
#endif
#ifndef BYNODE
#define BYNODE 0
#endif
VP_HARNESS(h_leaf)
{
  T = vp_seed_build(SEED, 0); S = vp_seed;
  hwloc_obj_t leaf, *pobj, parent;
#if LEAF == 0
  leaf = S.pu[0]; parent = leaf->parent; pobj = &parent->first_child;
#elif LEAF == 1
  leaf = S.pu[3]; parent = leaf->parent; pobj = &parent->first_child;
#elif LEAF == 2
  leaf = S.numa[0]; parent = leaf->parent; pobj = &parent->memory_first_child;
#else
  leaf = S.numa[2]; parent = leaf->parent; pobj = &parent->memory_first_child;
#endif
  VP_ASSUME(*pobj == leaf && !leaf->first_child && !leaf->memory_first_child);
  hwloc_obj_t sibling = leaf->next_sibling, misc = leaf->misc_first_child, pmisc = parent->misc_first_child;
  /* own sets: arbitrary subsets of small universes with cpuset <= complete_cpuset, nodeset <= complete_nodeset */
  unsigned long c = vp_in64(), cc = vp_in64(), n = vp_in64(), cn = vp_in64();
  VP_ASSUME(!(cc & ~0xffUL) && !(c & ~cc) && !(cn & ~0xfUL) && !(n & ~cn));
  hwloc_bitmap_from_ulong(leaf->cpuset, c); hwloc_bitmap_from_ulong(leaf->complete_cpuset, cc);
  hwloc_bitmap_from_ulong(leaf->nodeset, n); hwloc_bitmap_from_ulong(leaf->complete_nodeset, cn);
  unsigned long dc = vp_in64(), dn = vp_in64(); int has2 = vp_in_bool();
  VP_ASSUME(!(dc & ~0xffUL) && !(dn & ~0xfUL));
  hwloc_bitmap_t dcs = vp_bm(dc), dns = vp_bm(dn);
  unsigned long flags = vp_in64(); VP_ASSUME(flags < 32);
  uint64_t gp = leaf->gp_index; void *ud = (void *) 0x1234; leaf->userdata = ud;
  T->modified = 0;
  VP_SYMBOLIC_PHASE(1);
#if BYNODE
  restrict_object_by_nodeset(T, flags, pobj, has2 ? dcs : NULL, dns);
  unsigned long edc = has2 ? dc : 0, edn = dn;
#else
  restrict_object_by_cpuset(T, flags, pobj, dcs, has2 ? dns : NULL);
  unsigned long edc = dc, edn = has2 ? dn : 0;
#endif
  /* the code tests intersection on the complete_ sets: everything inside them is cleared */
  unsigned long nc = c & ~edc, ncc = cc & ~edc, nn = n & ~edn, ncn = cn & ~edn;
#if BYNODE
  int removed = nn == 0 && (leaf->type != HWLOC_OBJ_PU || (flags & HWLOC_RESTRICT_FLAG_REMOVE_MEMLESS));
#else
  int removed = nc == 0 && (leaf->type != HWLOC_OBJ_NUMANODE || (flags & HWLOC_RESTRICT_FLAG_REMOVE_CPULESS));
#endif
  if (!removed) {
    VP_CHECK(*pobj == leaf && leaf->next_sibling == sibling && leaf->parent == parent, "restrict step: a kept object stays linked where it was");
    VP_CHECK(vp_w(leaf->cpuset) == nc && vp_w(leaf->complete_cpuset) == ncc && vp_w(leaf->nodeset) == nn && vp_w(leaf->complete_nodeset) == ncn, "restrict step: each set is its old value minus the dropped resources");
    VP_CHECK(leaf->gp_index == gp && leaf->userdata == ud && leaf->misc_first_child == misc, "restrict step: gp_index, userdata and Misc children of a surviving object are untouched");
    VP_CHECK(!T->modified, "restrict step: nothing flagged as modified when nothing is removed");
  } else {
    VP_CHECK(*pobj == sibling, "restrict step: a removed leaf is unlinked and its siblings keep their order");
    VP_CHECK(T->modified, "restrict step: removal flags the topology as modified");
    if (misc) {
      if (flags & HWLOC_RESTRICT_FLAG_ADAPT_MISC) { hwloc_obj_t x = parent->misc_first_child; unsigned k = 0; while (x && x != misc && k < 4) { x = x->next_sibling; k++; }
        VP_CHECK(x == misc && misc->parent == parent, "restrict step: with ADAPT_MISC the Misc children are re-attached to the parent"); }
      else VP_CHECK(parent->misc_first_child == pmisc, "restrict step: without ADAPT_MISC the Misc children are dropped, the parent's list is unchanged");
    }
  }
  VP_WITNESS_IF(removed, "the leaf is removed");
  VP_WITNESS_IF(!removed && nc != c && ncc != cc, "sets shrunk on a surviving leaf");
#if LEAF == 1
  VP_WITNESS_IF(removed && (flags & HWLOC_RESTRICT_FLAG_ADAPT_MISC), "Misc child adopted by the parent");
#endif
}

/* ---- (c) the WHOLE real hwloc_topology_restrict (workers, unlink, reorder, reconnect, level rebuild, propagation) on a seed, for
 *          enumerated restrict sets and flag words executed as concrete runs selected by symbolic inputs, against the clauses of C08
 *          and the independent C01 checker (C02: well-formedness is preserved) ------------------------------------------------- */
#include "vp_wf.h"
#ifndef NSLICE
#define NSLICE 1
#endif
#ifndef SLICE
#define SLICE 0
#endif
#ifndef NFL
#define NFL 2                /* flag words per set (quick: none / all three; thorough: 4) */
#endif
#define MAXO 16
struct snap { unsigned n; uint64_t gp[MAXO]; hwloc_obj_type_t type[MAXO]; unsigned long c[MAXO], cc[MAXO], nd[MAXO], cn[MAXO]; uint64_t parent_gp[MAXO]; void *ud[MAXO]; int has_sets[MAXO]; };
static void snap_walk(hwloc_obj_t o, struct snap *s)
{
  if (s->n >= MAXO) return;
  unsigned k = s->n++;
  s->gp[k] = o->gp_index; s->type[k] = o->type; s->c[k] = vp_w(o->cpuset); s->cc[k] = vp_w(o->complete_cpuset); s->nd[k] = vp_w(o->nodeset); s->cn[k] = vp_w(o->complete_nodeset);
  s->parent_gp[k] = o->parent ? o->parent->gp_index : 0; s->ud[k] = o->userdata; s->has_sets[k] = o->cpuset != NULL;
  for (hwloc_obj_t c = o->memory_first_child; c; c = c->next_sibling) snap_walk(c, s);
  for (hwloc_obj_t c = o->first_child; c; c = c->next_sibling) snap_walk(c, s);
  for (hwloc_obj_t c = o->io_first_child; c; c = c->next_sibling) snap_walk(c, s);
  for (hwloc_obj_t c = o->misc_first_child; c; c = c->next_sibling) snap_walk(c, s);
}
static void tag_walk(hwloc_obj_t o)
{
  o->userdata = (void *) (0x1000 + o->gp_index);
  for (hwloc_obj_t c = o->memory_first_child; c; c = c->next_sibling) tag_walk(c);
  for (hwloc_obj_t c = o->first_child; c; c = c->next_sibling) tag_walk(c);
  for (hwloc_obj_t c = o->io_first_child; c; c = c->next_sibling) tag_walk(c);
  for (hwloc_obj_t c = o->misc_first_child; c; c = c->next_sibling) tag_walk(c);
}
static int snap_find(const struct snap *s, uint64_t gp) { for (unsigned i = 0; i < s->n && i < MAXO; i++) if (s->gp[i] == gp) return (int) i; return -1; }
static unsigned re_runs, re_ok, re_einval;
static void restrict_case(unsigned long set, unsigned long flags)
{
  struct hwloc_topology *t = vp_seed_build(SEED, 0);
  static struct snap A, B; A.n = B.n = 0;
  hwloc_obj_t root = t->levels[0][0];
  tag_walk(root);      /* userdata of every object in the tree (objects removed at load time are gone) */
  snap_walk(root, &A);
  unsigned long ac = vp_w(t->allowed_cpuset), an = vp_w(t->allowed_nodeset);
  hwloc_bitmap_t s = vp_bm(set);
  int bynode = (flags & HWLOC_RESTRICT_FLAG_BYNODESET) != 0;
  errno = 0;
  int r = hwloc_topology_restrict(t, s, flags);
  re_runs++;
  root = t->levels[0][0];
  snap_walk(root, &B);
  int nothing = bynode ? !(set & an) : !(set & ac);
  /* which resources go: by cpuset, the CPUs outside S, and (REMOVE_CPULESS) the nodes whose cpuset does not reach S; symmetrically by nodeset */
  unsigned long dropc = 0, dropn = 0;
  if (!bynode) { dropc = A.cc[0] & ~set; if (flags & HWLOC_RESTRICT_FLAG_REMOVE_CPULESS) for (unsigned i = 0; i < A.n; i++) if (A.type[i] == HWLOC_OBJ_NUMANODE && !(A.c[i] & set)) dropn |= A.nd[i]; }
  else { dropn = A.cn[0] & ~set; if (flags & HWLOC_RESTRICT_FLAG_REMOVE_MEMLESS) for (unsigned i = 0; i < A.n; i++) if (A.type[i] == HWLOC_OBJ_PU && !(A.nd[i] & set)) dropc |= A.c[i]; }
  /* a call that would leave no NUMA node (resp. no PU) is refused like a set that keeps nothing */
  int all_gone = bynode ? !(ac & ~dropc) : !(an & ~dropn);
  if (nothing || all_gone) {
    VP_CHECK(r == -1 && errno == EINVAL, "restrict: a set that does not intersect the allowed set, or that would leave no PU or no NUMA node -> EINVAL");
    VP_CHECK(A.n == B.n && vp_w(t->allowed_cpuset) == ac && vp_w(t->allowed_nodeset) == an, "restrict: EINVAL leaves the topology observably unchanged");
    for (unsigned i = 0; i < A.n && i < MAXO; i++) VP_CHECK(A.gp[i] == B.gp[i] && A.type[i] == B.type[i] && A.c[i] == B.c[i] && A.cc[i] == B.cc[i] && A.nd[i] == B.nd[i] && A.cn[i] == B.cn[i] && A.parent_gp[i] == B.parent_gp[i], "restrict: EINVAL leaves every object unchanged");
    re_einval++;
    return;
  }
  VP_CHECK(r == 0, "restrict succeeds when the set keeps something");
  if (r) return;
  VP_CHECK(B.c[0] == (A.c[0] & ~dropc) && B.cc[0] == (A.cc[0] & ~dropc) && vp_w(t->allowed_cpuset) == (ac & ~dropc), "restrict: topology, complete and allowed cpusets are their previous values minus the dropped CPUs");
  VP_CHECK(B.nd[0] == (A.nd[0] & ~dropn) && B.cn[0] == (A.cn[0] & ~dropn) && vp_w(t->allowed_nodeset) == (an & ~dropn), "restrict: topology, complete and allowed nodesets are their previous values minus the dropped nodes");
  /* every remaining object is a previously existing object whose sets are its old sets minus the dropped resources */
  for (unsigned i = 0; i < B.n && i < MAXO; i++) {
    int k = snap_find(&A, B.gp[i]);
    VP_CHECK(k >= 0, "restrict: every remaining object existed before (same gp_index)");
    if (k < 0) continue;
    VP_CHECK(A.type[k] == B.type[i] && B.ud[i] == A.ud[k], "restrict: same type, userdata untouched");
    if (A.has_sets[k]) VP_CHECK(B.c[i] == (A.c[k] & ~dropc) && B.cc[i] == (A.cc[k] & ~dropc) && B.nd[i] == (A.nd[k] & ~dropn) && B.cn[i] == (A.cn[k] & ~dropn), "restrict: each set is its old value minus the dropped resources");
  }
  /* what must survive and what must go */
  for (unsigned k = 0; k < A.n && k < MAXO; k++) {
    int still = snap_find(&B, A.gp[k]) >= 0;
    if (A.type[k] == HWLOC_OBJ_PU) VP_CHECK(still == !(A.c[k] & dropc), "restrict: the PUs are exactly the previous PUs that are not dropped");
    else if (A.type[k] == HWLOC_OBJ_NUMANODE) VP_CHECK(still == !(A.nd[k] & dropn), "restrict: a NUMA node disappears only when it is dropped (outside S, or CPU-less with REMOVE_CPULESS)");
    else if (hwloc__obj_type_is_normal(A.type[k])) {
      /* a normal object goes only when no PU and no NUMA node is left below it (the seeds have no mergeable level) */
      int keeps = ((A.c[k] & ~dropc) != 0) || ((A.nd[k] & ~dropn) != 0 && !(A.c[k]));
      if ((A.c[k] & ~dropc) != 0 && A.type[k] != HWLOC_OBJ_GROUP) VP_CHECK(still, "restrict: a normal object that keeps a PU survives (a Group may be merged away when its level became redundant)");
      if (!(A.c[k] & ~dropc) && !bynode) { int mem_below = 0; for (unsigned j = 0; j < A.n && j < MAXO; j++) if (A.type[j] == HWLOC_OBJ_NUMANODE && A.parent_gp[j] == A.gp[k] && !(A.nd[j] & dropn)) mem_below = 1;
        if (!mem_below) VP_CHECK(!still || k == 0, "restrict: a normal object left with no PU and no NUMA node is removed"); }
      (void) keeps;
    } else if (A.type[k] == HWLOC_OBJ_MISC || hwloc__obj_type_is_io(A.type[k])) {
      /* special objects: never lost while every ancestor survives (an ancestor that is merged away because its level became redundant
       * hands its children to the object that replaces it); below a REMOVED ancestor they are dropped, or adopted by a surviving ancestor
       * with the ADAPT flags */
      uint64_t pg = A.parent_gp[k]; int hops = 0, removed_anc = 0;
      while (hops++ < 8) { int pk = snap_find(&A, pg); if (pk < 0) break;
        int gone = snap_find(&B, A.gp[pk]) < 0;
        int merged = gone && A.type[pk] == HWLOC_OBJ_GROUP && (A.c[pk] & ~dropc) != 0;      /* a Group that keeps PUs can only disappear by being merged */
        if (gone && !merged) removed_anc = 1;
        if (!A.parent_gp[pk] && pk == 0) break; pg = A.parent_gp[pk]; if (pk == 0) break; }
      if (!removed_anc) VP_CHECK(still, "restrict: Misc and I/O objects whose ancestors all survive are never lost");
      else if (A.type[k] == HWLOC_OBJ_MISC) VP_CHECK(still == ((flags & HWLOC_RESTRICT_FLAG_ADAPT_MISC) != 0), "restrict: Misc children of a removed object are dropped, or re-attached with ADAPT_MISC");
      else VP_CHECK(still == ((flags & HWLOC_RESTRICT_FLAG_ADAPT_IO) != 0), "restrict: I/O children of a removed object are dropped, or re-attached with ADAPT_IO");
      if (still && removed_anc) { int bi = snap_find(&B, A.gp[k]); uint64_t np = B.parent_gp[bi]; int hop2 = 0, is_anc = 0; uint64_t g = A.parent_gp[k];
        int nb = snap_find(&B, np);
        while (hop2++ < 8) { if (g == np) { is_anc = 1; break; } int pk = snap_find(&A, g); if (pk < 0) break;
          /* an ancestor Group that was merged away because its level became redundant is replaced by the object that now covers its CPUs */
          if (snap_find(&B, g) < 0 && A.type[pk] == HWLOC_OBJ_GROUP && (A.c[pk] & ~dropc) != 0 && nb >= 0 && B.c[nb] == (A.c[pk] & ~dropc)) { is_anc = 1; break; }
          g = A.parent_gp[pk]; }
        if (A.type[k] == HWLOC_OBJ_MISC || A.type[k] == HWLOC_OBJ_BRIDGE) VP_CHECK(is_anc, "restrict: an adopted Misc/I/O subtree hangs below a surviving ancestor of its old parent"); }
    }
  }
  vp_wf_check(t, 0);
  re_ok++;
}
/* ---- the caches that point at objects are invalidated by a restrict whatever flags the topology was loaded with (C13): NO_DISTANCES only
 *      ignores what the OS and XML say, matrices added by the user exist all the same ---------------------------------------------------- */
VP_HARNESS(h_restrict_flags)
{
  struct hwloc_topology *t = vp_seed_build(1, 0);
  unsigned long tf = 0;
  if (vp_in_bool()) tf |= HWLOC_TOPOLOGY_FLAG_NO_DISTANCES;
  if (vp_in_bool()) tf |= HWLOC_TOPOLOGY_FLAG_NO_MEMATTRS;
  if (vp_in_bool()) tf |= HWLOC_TOPOLOGY_FLAG_NO_CPUKINDS;
  t->flags = tf;      /* the seed does not depend on these flags: the state is the one of a topology loaded with them */
#ifndef VP_CBMC
  /* native replay: the real distances code is linked instead of the counting stub; a user matrix over the two Packages is added and its
   * OBJS_VALID flag observed right after the restrict */
  unsigned vp_stub_dist_invalidated = 0;
  { hwloc_obj_t objs[2] = { vp_seed.pkg[0], vp_seed.pkg[1] }; hwloc_uint64_t vals[4] = { 1, 2, 2, 1 };
    hwloc_distances_add_handle_t hd = hwloc_distances_add_create(t, "vp", HWLOC_DISTANCES_KIND_FROM_USER | HWLOC_DISTANCES_KIND_VALUE_LATENCY, 0);
    VP_ASSUME(hd != NULL && hwloc_distances_add_values(t, hd, 2, objs, vals, 0) == 0 && hwloc_distances_add_commit(t, hd, 0) == 0 && t->first_dist != NULL); }
#endif
  unsigned before = vp_stub_dist_invalidated;
  hwloc_bitmap_t s = vp_bm(0x03);
  int r = hwloc_topology_restrict(t, s, 0);
#ifndef VP_CBMC
  if (t->first_dist && !(t->first_dist->iflags & HWLOC_INTERNAL_DIST_FLAG_OBJS_VALID)) vp_stub_dist_invalidated++;
#endif
  VP_CHECK(r == 0 && t->nb_levels >= 2 && vp_w(t->levels[0][0]->cpuset) == 0x03, "restrict(flags): Package1 and its PUs are removed");
  VP_CHECK(vp_stub_dist_invalidated > before, "restrict(flags): objects were removed, the object pointers cached in the distances are invalidated whatever the topology flags");
  VP_WITNESS_IF(tf & HWLOC_TOPOLOGY_FLAG_NO_DISTANCES, "a topology loaded with NO_DISTANCES restricted");
}

VP_HARNESS(h_restrict_enum)
{
  /* by cpuset: every non-empty subset of the seed's PUs {0,1,2,5}, plus a set outside the topology; by nodeset: subsets of the seed's nodes */
  static const unsigned long csets[17] = { 0x01, 0x02, 0x04, 0x20, 0x03, 0x05, 0x21, 0x06, 0x22, 0x24, 0x07, 0x23, 0x25, 0x26, 0x27, 0x08, 0x2f };
  static const unsigned long cflags[4] = { 0, HWLOC_RESTRICT_FLAG_REMOVE_CPULESS | HWLOC_RESTRICT_FLAG_ADAPT_MISC | HWLOC_RESTRICT_FLAG_ADAPT_IO, HWLOC_RESTRICT_FLAG_REMOVE_CPULESS, HWLOC_RESTRICT_FLAG_ADAPT_MISC | HWLOC_RESTRICT_FLAG_ADAPT_IO };
#if SEED == 2
  static const unsigned long nsets[4] = { 0x1, 0x4, 0x5, 0x2 };
#else
  static const unsigned long nsets[4] = { 0x1, 0x2, 0x3, 0x4 };
#endif
  static const unsigned long nflags[3] = { HWLOC_RESTRICT_FLAG_BYNODESET, HWLOC_RESTRICT_FLAG_BYNODESET | HWLOC_RESTRICT_FLAG_ADAPT_MISC | HWLOC_RESTRICT_FLAG_ADAPT_IO, HWLOC_RESTRICT_FLAG_BYNODESET | HWLOC_RESTRICT_FLAG_REMOVE_MEMLESS | HWLOC_RESTRICT_FLAG_ADAPT_MISC };
  unsigned si = (unsigned) vp_in_range(0, 16), fi = (unsigned) vp_in_range(0, 3), mode = (unsigned) vp_in_range(0, 1);
  unsigned ci = 0;
  for (unsigned f = 0; f < NFL; f++) for (unsigned k = 0; k < 17; k++) if ((ci++ % NSLICE) == SLICE && mode == 0 && si == k && fi == f) restrict_case(csets[k], cflags[f]);
  for (unsigned f = 0; f < (NFL > 3 ? 3 : NFL); f++) for (unsigned k = 0; k < 4; k++) if ((ci++ % NSLICE) == SLICE && mode == 1 && si == k && fi == f) restrict_case(nsets[k], nflags[f]);
  VP_WITNESS_IF(re_runs >= 1 && re_ok + re_einval == re_runs, "a restrict of this slice executed and classified");
}
