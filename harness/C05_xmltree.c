/* C05 / C06 — the COMMON XML code of hwloc/topology-xml.c (everything above the text layer) run for real against an
 * in-memory element tree (vp_xmltree.h):
 *   roundtrip: a rich fixture built by the real core -> real hwloc__xml_export_topology -> element tree -> real hwloc_look_xml
 *              inside the real discovery pipeline -> field-by-field comparison, then export again: identical element tree
 *   import_*:  the real importers (distances, cpukind, memattr, object) on CRAFTED element trees whose shape and attribute
 *              texts are selected by symbolic inputs: memory safety, 0/-1, post-conditions (C06)
 * Real code: hwloc/topology.c, hwloc/topology-xml.c (textually included), bitmap.c, traversal.c, distances.c, memattrs.c,
 * cpukinds.c (units).
 */
#define VP_SEED_REAL_DISTANCES 1
#define VP_SEED_REAL_MEMATTRS 1
#define VP_SEED_REAL_CPUKINDS 1
#define VP_SEED_MEMATTRS_PREPARE 1
#define VP_SEED_DISCOVER_HOOK vp_x_discover
#define VP_SEED_IO_HOOK vp_x_discover_io
#define VP_SEED_FILTER_HOOK(t) do { (t)->type_filter[HWLOC_OBJ_MEMCACHE] = HWLOC_TYPE_FILTER_KEEP_ALL; vp_x_filters(t); } while (0)
#include "private/autogen/config.h"
#include "vp.h"
#include <locale.h>
#include <errno.h>
#ifdef VP_CBMC
locale_t newlocale(int m, const char *l, locale_t b) { (void) m; (void) l; (void) b; return (locale_t) 0; }
locale_t uselocale(locale_t l) { (void) l; return (locale_t) 0; }
void freelocale(locale_t l) { (void) l; }
void hwloc_components_init(void) { }
void hwloc_components_fini(void) { }
/* pci_link_speed: the fixtures keep it at 0.0 ("0.000000") */
double atof(const char *s) { __CPROVER_assert(s[0] == '0' && s[1] == '.' && s[2] == '0', "VP_MODEL: atof supports only 0.0"); return 0.0; }
#endif
#include "hwloc.h"
#include "private/xml.h"
#define VP_SEED_BACKEND_EXTRA struct hwloc_xml_backend_data_s
struct hwloc_topology; struct hwloc_backend; struct hwloc_disc_status;
static int vp_x_discover(struct hwloc_backend *b, struct hwloc_disc_status *d);
static int vp_x_discover_io(struct hwloc_backend *b, struct hwloc_disc_status *d);
static void vp_x_filters(struct hwloc_topology *t);
#include "vp_seed.h"
#ifdef VP_CBMC
/* a NULL type string is reported at the call and the path ends there (reading through NULL would go on with unconstrained bytes
 * through every loop of the type parser: no verdict) */
static int vp_type_sscanf_nn(const char *s, hwloc_obj_type_t *tp, union hwloc_obj_attr_u *ap, size_t sz)
{ __CPROVER_assert(s != 0, "hwloc_type_sscanf called with a NULL string"); __CPROVER_assume(s != 0); return hwloc_type_sscanf(s, tp, ap, sz); }
#define hwloc_type_sscanf vp_type_sscanf_nn
#endif
#include "hwloc/topology-xml.c"
#include "vp_xmltree.h"

#ifndef XFLAGS
#define XFLAGS 0UL           /* export flags (HWLOC_TOPOLOGY_EXPORT_XML_FLAG_V2 = 1) */
#endif
#ifndef FIX
#define FIX 1                /* fixture richness: 0 = S1-like tree only, 1 = + the features selected by FIXM */
#endif
#ifndef FIXM
#define FIXM 127             /* 1 L2 cache, 2 Group(dont_merge), 4 memory-side cache, 8 page types, 16 infos + names + subtype, 32 bridge/PCI/OS device, 64 Misc */
#endif
#ifndef WITH_DIST
#define WITH_DIST 0
#endif
#ifndef WITH_MEMATTR
#define WITH_MEMATTR 0
#endif
#ifndef WITH_CPUKINDS
#define WITH_CPUKINDS 0
#endif

static void vp_x_filters(struct hwloc_topology *t) { (void) t; }

/* ---- the fixture -------------------------------------------------------------------------------------------------------------- */
static hwloc_obj_t fx_pkg0, fx_pu3, fx_numa0;
static void fx_info(hwloc_obj_t o, const char *n, const char *v) { hwloc__add_info(&o->infos, n, v); }
static int vp_x_build(struct hwloc_topology *t)
{
  struct vp_seed *s = &vp_seed;
  s->pu[0] = vp_ins(t, HWLOC_OBJ_PU, 0, 0x01, 0); s->pu[1] = vp_ins(t, HWLOC_OBJ_PU, 1, 0x02, 0);
  s->pu[2] = vp_ins(t, HWLOC_OBJ_PU, 2, 0x04, 0); s->pu[3] = vp_ins(t, HWLOC_OBJ_PU, 5, 0x20, 0);
  s->pkg[0] = vp_ins(t, HWLOC_OBJ_PACKAGE, 0, 0x03, 0); s->pkg[1] = vp_ins(t, HWLOC_OBJ_PACKAGE, 1, 0x24, 0);
  s->numa[0] = vp_ins(t, HWLOC_OBJ_NUMANODE, 0, 0x03, 0x1); s->numa[1] = vp_ins(t, HWLOC_OBJ_NUMANODE, 1, 0x24, 0x2);
  fx_pkg0 = s->pkg[0]; fx_pu3 = s->pu[3]; fx_numa0 = s->numa[0];
#ifdef FIXD
  /* PU#1 is disallowed (and the topology is loaded without INCLUDE_DISALLOWED): it disappears from the tree and from the cpusets
   * but stays in the complete_ cpusets: each of the set attributes of the document then has its own value */
  hwloc_bitmap_clr(t->allowed_cpuset, 1);
#endif
  /* the discovery support bits that any backend reports and that the XML backend sets on import */
  t->support.discovery->pu = t->support.discovery->disallowed_pu = t->support.discovery->numa = t->support.discovery->numa_memory = t->support.discovery->disallowed_numa = 1;
#if FIX >= 1
  if (FIXM & 1)
  { hwloc_obj_t c = hwloc_alloc_setup_object(t, HWLOC_OBJ_L2CACHE, HWLOC_UNKNOWN_INDEX); c->cpuset = vp_bm(0x03);
    c->attr->cache.depth = 2; c->attr->cache.type = HWLOC_OBJ_CACHE_UNIFIED; c->attr->cache.size = 4096; c->attr->cache.linesize = 64; c->attr->cache.associativity = 8;
    hwloc_obj_t r = hwloc__insert_object_by_cpuset(t, NULL, c, NULL); VP_ASSUME(r == c); s->obj[s->nobj++] = c; }
  if (FIXM & 2)
  { hwloc_obj_t g = hwloc_alloc_setup_object(t, HWLOC_OBJ_GROUP, HWLOC_UNKNOWN_INDEX); g->cpuset = vp_bm(0x24);
    g->attr->group.kind = 7; g->attr->group.subkind = 2; g->attr->group.dont_merge = 1;
    hwloc_obj_t r = hwloc__insert_object_by_cpuset(t, NULL, g, NULL); VP_ASSUME(r == g); s->obj[s->nobj++] = g; }
  if (FIXM & 4) s->memcache[1] = vp_ins(t, HWLOC_OBJ_MEMCACHE, HWLOC_UNKNOWN_INDEX, 0x24, 0x2);
  if (FIXM & 8)
  { struct hwloc_memory_page_type_s *pt = malloc(2 * sizeof(*pt)); VP_NONNULL(pt); pt[0].size = 4096; pt[0].count = 3; pt[1].size = 2097152; pt[1].count = 1;
    s->numa[0]->attr->numanode.page_types = pt; s->numa[0]->attr->numanode.page_types_len = 2; }
  if (FIXM & 16) {
  fx_info(s->pkg[0], "CPUModel", "vp cpu"); fx_info(s->pkg[0], "CPUVendor", "vp");
  s->pkg[1]->name = strdup("second"); s->pu[0]->subtype = strdup("fast");
  hwloc__add_info(&t->infos, "Backend", "vp"); hwloc__add_info(&t->infos, "OSName", "none"); }
#endif
  return 0;
}
static int vp_x_build_io(struct hwloc_topology *t)
{
#if FIX >= 1
  struct vp_seed *s = &vp_seed;
  if (FIXM & 32) {
  s->bridge = vp_ins_child(t, fx_pkg0, HWLOC_OBJ_BRIDGE, HWLOC_UNKNOWN_INDEX);
  s->bridge->attr->bridge.upstream_type = HWLOC_OBJ_BRIDGE_HOST; s->bridge->attr->bridge.downstream_type = HWLOC_OBJ_BRIDGE_PCI;
  s->bridge->attr->bridge.downstream.pci.domain = 0; s->bridge->attr->bridge.downstream.pci.secondary_bus = 1; s->bridge->attr->bridge.downstream.pci.subordinate_bus = 3;
  s->pcidev = vp_ins_child(t, s->bridge, HWLOC_OBJ_PCI_DEVICE, HWLOC_UNKNOWN_INDEX);
  s->pcidev->attr->pcidev.domain = 0; s->pcidev->attr->pcidev.bus = 1; s->pcidev->attr->pcidev.dev = 2; s->pcidev->attr->pcidev.func = 1;
  s->pcidev->attr->pcidev.class_id = 0x0108; s->pcidev->attr->pcidev.vendor_id = 0x8086; s->pcidev->attr->pcidev.device_id = 0x0a54; s->pcidev->attr->pcidev.subvendor_id = 0x1234; s->pcidev->attr->pcidev.subdevice_id = 0x5678;
  s->pcidev->attr->pcidev.revision = 3; s->pcidev->attr->pcidev.prog_if = 2;
  s->osdev = vp_ins_child(t, s->pcidev, HWLOC_OBJ_OS_DEVICE, HWLOC_UNKNOWN_INDEX);
  s->osdev->attr->osdev.types = HWLOC_OBJ_OSDEV_STORAGE; s->osdev->name = strdup("nvme0n1"); s->osdev->subtype = strdup("Disk"); fx_info(s->osdev, "Size", "1024"); }
  if (FIXM & 64) { s->misc = vp_ins_child(t, fx_pu3, HWLOC_OBJ_MISC, HWLOC_UNKNOWN_INDEX); s->misc->name = strdup("note");
    /* a memory module as the dmi code describes it: the importer has a compatibility rewrite for exactly this subtype and info in OLD documents */
    s->misc->subtype = strdup("MemoryModule"); fx_info(s->misc, "Size", "16777216"); }
#else
  (void) t;
#endif
  return 0;
}

/* ---- the XML "backend": the real hwloc_look_xml reading the element tree ------------------------------------------------------- */
#define vp_x_bd vp_be_s.extra
static int vp_x_discover(struct hwloc_backend *b, struct hwloc_disc_status *d)
{
  if (vp_seed_id >= 200) { d->phase = HWLOC_DISC_PHASE_GLOBAL; return hwloc_look_xml(b, d); }
  return vp_x_build(b->topology);
}
static int vp_x_discover_io(struct hwloc_backend *b, struct hwloc_disc_status *d) { (void) d; return vp_seed_id >= 200 ? 0 : vp_x_build_io(b->topology); }

/* what hwloc_topology_load() does after a successful discovery */
static void vp_x_after_load(struct hwloc_topology *t)
{
  hwloc_internal_cpukinds_rank(t);
  hwloc_internal_distances_invalidate_cached_objs(t); hwloc_internal_distances_refresh(t);
  hwloc_internal_memattrs_need_refresh(t); hwloc_internal_memattrs_refresh(t);
}

/* ---- comparison -------------------------------------------------------------------------------------------------------------- */
static int streq_null(const char *a, const char *b) { return (!a && !b) || (a && b && !strcmp(a, b)); }
static int bmeq_null(hwloc_const_bitmap_t a, hwloc_const_bitmap_t b) { return (!a && !b) || (a && b && hwloc_bitmap_isequal(a, b)); }
static void cmp_infos(const struct hwloc_infos_s *a, const struct hwloc_infos_s *b)
{
  VP_CHECK(a->count == b->count, "same number of info pairs");
  for (unsigned i = 0; i < a->count && i < b->count && i < 4; i++) VP_CHECK(!strcmp(a->array[i].name, b->array[i].name) && !strcmp(a->array[i].value, b->array[i].value), "info pairs in order");
}
static unsigned cmp_count;
static void cmp_obj(hwloc_obj_t a, hwloc_obj_t b, int v2)
{
  cmp_count++;
  VP_CHECK(a->type == b->type && a->os_index == b->os_index && a->depth == b->depth && a->logical_index == b->logical_index && a->sibling_rank == b->sibling_rank, "same type, os_index, depth, logical_index, sibling_rank");
  VP_CHECK(a->gp_index == b->gp_index, "same gp_index");
  VP_CHECK(streq_null(a->name, b->name) && streq_null(a->subtype, b->subtype), "same name and subtype");
  VP_CHECK(bmeq_null(a->cpuset, b->cpuset) && bmeq_null(a->complete_cpuset, b->complete_cpuset) && bmeq_null(a->nodeset, b->nodeset) && bmeq_null(a->complete_nodeset, b->complete_nodeset), "the four sets of every object");
  if (!v2 || a->parent) cmp_infos(&a->infos, &b->infos);
  VP_CHECK(a->total_memory == b->total_memory, "same total_memory");
  switch (a->type) {
  case HWLOC_OBJ_NUMANODE:
    VP_CHECK(a->attr->numanode.local_memory == b->attr->numanode.local_memory && a->attr->numanode.page_types_len == b->attr->numanode.page_types_len, "NUMA local memory and number of page types");
    for (unsigned i = 0; i < a->attr->numanode.page_types_len && i < b->attr->numanode.page_types_len && i < 3; i++)
      VP_CHECK(a->attr->numanode.page_types[i].size == b->attr->numanode.page_types[i].size && a->attr->numanode.page_types[i].count == b->attr->numanode.page_types[i].count, "page types");
    break;
  case HWLOC_OBJ_L2CACHE: case HWLOC_OBJ_MEMCACHE:
    VP_CHECK(a->attr->cache.size == b->attr->cache.size && a->attr->cache.depth == b->attr->cache.depth && a->attr->cache.linesize == b->attr->cache.linesize && a->attr->cache.associativity == b->attr->cache.associativity && a->attr->cache.type == b->attr->cache.type, "cache attributes");
    break;
  case HWLOC_OBJ_GROUP:
    VP_CHECK(a->attr->group.kind == b->attr->group.kind && a->attr->group.subkind == b->attr->group.subkind && a->attr->group.dont_merge == b->attr->group.dont_merge, "group attributes");
    break;
  case HWLOC_OBJ_BRIDGE:
    VP_CHECK(a->attr->bridge.upstream_type == b->attr->bridge.upstream_type && a->attr->bridge.downstream_type == b->attr->bridge.downstream_type && a->attr->bridge.depth == b->attr->bridge.depth
             && a->attr->bridge.downstream.pci.domain == b->attr->bridge.downstream.pci.domain && a->attr->bridge.downstream.pci.secondary_bus == b->attr->bridge.downstream.pci.secondary_bus && a->attr->bridge.downstream.pci.subordinate_bus == b->attr->bridge.downstream.pci.subordinate_bus, "bridge attributes");
    break;
  case HWLOC_OBJ_PCI_DEVICE:
    VP_CHECK(a->attr->pcidev.domain == b->attr->pcidev.domain && a->attr->pcidev.bus == b->attr->pcidev.bus && a->attr->pcidev.dev == b->attr->pcidev.dev && a->attr->pcidev.func == b->attr->pcidev.func
             && a->attr->pcidev.class_id == b->attr->pcidev.class_id && a->attr->pcidev.vendor_id == b->attr->pcidev.vendor_id && a->attr->pcidev.device_id == b->attr->pcidev.device_id
             && a->attr->pcidev.subvendor_id == b->attr->pcidev.subvendor_id && a->attr->pcidev.subdevice_id == b->attr->pcidev.subdevice_id && a->attr->pcidev.revision == b->attr->pcidev.revision && a->attr->pcidev.prog_if == b->attr->pcidev.prog_if, "PCI device attributes");
    break;
  case HWLOC_OBJ_OS_DEVICE:
    VP_CHECK(a->attr->osdev.types == b->attr->osdev.types, "OS device types");
    break;
  default: break;
  }
  VP_CHECK(a->arity == b->arity && a->memory_arity == b->memory_arity && a->io_arity == b->io_arity && a->misc_arity == b->misc_arity, "same arities");
  hwloc_obj_t ca, cb;
  for (ca = a->memory_first_child, cb = b->memory_first_child; ca && cb; ca = ca->next_sibling, cb = cb->next_sibling) cmp_obj(ca, cb, v2);
  VP_CHECK(!ca && !cb, "same memory children");
  for (ca = a->first_child, cb = b->first_child; ca && cb; ca = ca->next_sibling, cb = cb->next_sibling) cmp_obj(ca, cb, v2);
  VP_CHECK(!ca && !cb, "same normal children");
  for (ca = a->io_first_child, cb = b->io_first_child; ca && cb; ca = ca->next_sibling, cb = cb->next_sibling) cmp_obj(ca, cb, v2);
  VP_CHECK(!ca && !cb, "same I/O children");
  for (ca = a->misc_first_child, cb = b->misc_first_child; ca && cb; ca = ca->next_sibling, cb = cb->next_sibling) cmp_obj(ca, cb, v2);
  VP_CHECK(!ca && !cb, "same Misc children");
}
static void cmp_topology(struct hwloc_topology *A, struct hwloc_topology *B, int v2)
{
  VP_CHECK(A->nb_levels == B->nb_levels, "same number of levels");
  for (unsigned d = 0; d < A->nb_levels && d < B->nb_levels && d < 8; d++) VP_CHECK(A->level_nbobjects[d] == B->level_nbobjects[d] && A->levels[d][0]->type == B->levels[d][0]->type, "same level widths and types");
  for (unsigned k = 0; k < HWLOC_NR_SLEVELS; k++) VP_CHECK(A->slevels[k].nbobjs == B->slevels[k].nbobjs, "same special levels");
  cmp_obj(A->levels[0][0], B->levels[0][0], v2);
  VP_CHECK(hwloc_bitmap_isequal(A->allowed_cpuset, B->allowed_cpuset) && hwloc_bitmap_isequal(A->allowed_nodeset, B->allowed_nodeset), "same allowed sets");
  cmp_infos(&A->infos, &B->infos);
#if WITH_DIST
  { struct hwloc_internal_distances_s *da = A->first_dist, *db = B->first_dist; unsigned n = 0;
    for (; da && db && n < 3; da = da->next, db = db->next, n++) {
      VP_CHECK(streq_null(da->name, db->name) && da->kind == db->kind && da->nbobjs == db->nbobjs && da->unique_type == db->unique_type && !da->different_types == !db->different_types, "distances: same name, kind, number of objects and types");
      for (unsigned i = 0; i < da->nbobjs && i < db->nbobjs && i < 3; i++) {
        VP_CHECK(da->indexes[i] == db->indexes[i], "distances: same object indexes");
        VP_CHECK((db->iflags & HWLOC_INTERNAL_DIST_FLAG_OBJS_VALID) && db->objs[i] && db->objs[i]->gp_index == da->objs[i]->gp_index, "distances: objects resolved in the reloaded topology");
        if (da->different_types) VP_CHECK(da->different_types[i] == db->different_types[i], "distances: same per-object types");
        for (unsigned j = 0; j < da->nbobjs && j < 3; j++) VP_CHECK(da->values[i * da->nbobjs + j] == db->values[i * db->nbobjs + j], "distances: same values");
      }
    }
    VP_CHECK(!da && !db, "same number of distances structures"); }
#endif
#if WITH_MEMATTR
  VP_CHECK(A->nr_memattrs == B->nr_memattrs, "same number of memory attributes");
  for (unsigned m = 0; m < A->nr_memattrs && m < B->nr_memattrs && m < 10; m++) {
    struct hwloc_internal_memattr_s *ma = &A->memattrs[m], *mb = &B->memattrs[m];
    VP_CHECK(!strcmp(ma->name, mb->name) && ma->flags == mb->flags, "memattr: same name and flags");
    if (ma->iflags & HWLOC_IMATTR_FLAG_CONVENIENCE) continue;
    VP_CHECK(ma->nr_targets == mb->nr_targets, "memattr: same number of targets");
    for (unsigned k = 0; k < ma->nr_targets && k < mb->nr_targets && k < 3; k++) {
      struct hwloc_internal_memattr_target_s *ta = &ma->targets[k], *tb = &mb->targets[k];
      VP_CHECK(ta->type == tb->type && ta->gp_index == tb->gp_index && ta->noinitiator_value == tb->noinitiator_value && ta->nr_initiators == tb->nr_initiators, "memattr: same targets and values");
      for (unsigned i = 0; i < ta->nr_initiators && i < tb->nr_initiators && i < 3; i++) {
        struct hwloc_internal_memattr_initiator_s *ia = &ta->initiators[i], *ib = &tb->initiators[i];
        VP_CHECK(ia->value == ib->value && ia->initiator.type == ib->initiator.type, "memattr: same initiator values");
        if (ia->initiator.type == HWLOC_LOCATION_TYPE_CPUSET) VP_CHECK(hwloc_bitmap_isequal(ia->initiator.location.cpuset, ib->initiator.location.cpuset), "memattr: same initiator cpusets");
        else { hwloc_obj_type_t tya = ia->initiator.location.object.type, tyb = ib->initiator.location.object.type; hwloc_uint64_t ga = ia->initiator.location.object.gp_index, gb = ib->initiator.location.object.gp_index;
               VP_CHECK(tya == tyb && ga == gb, "memattr: same initiator objects"); }
      }
    }
  }
#endif
#if WITH_CPUKINDS
  VP_CHECK(A->nr_cpukinds == B->nr_cpukinds, "same number of CPU kinds");
  for (unsigned k = 0; k < A->nr_cpukinds && k < B->nr_cpukinds && k < 3; k++) {
    VP_CHECK(hwloc_bitmap_isequal(A->cpukinds[k].cpuset, B->cpukinds[k].cpuset) && A->cpukinds[k].efficiency == B->cpukinds[k].efficiency && A->cpukinds[k].forced_efficiency == B->cpukinds[k].forced_efficiency, "CPU kinds: same cpusets and efficiencies");
    cmp_infos(&A->cpukinds[k].infos, &B->cpukinds[k].infos);
  }
#endif
}

/* ---- whole-topology round trip through the common XML code ---------------------------------------------------------------------------- */
VP_HARNESS(h_xml_roundtrip)
{
  struct hwloc_topology *A = vp_seed_build(100, 0);
  struct vp_seed SA = vp_seed;
#if WITH_DIST
  { hwloc_obj_t objs[2] = { SA.numa[0], SA.numa[1] }; hwloc_uint64_t vals[4] = { 10, 20, 21, 10 };
    hwloc_distances_add_handle_t h = hwloc_distances_add_create(A, "NUMALatency", HWLOC_DISTANCES_KIND_FROM_OS | HWLOC_DISTANCES_KIND_VALUE_LATENCY, 0);
    VP_ASSUME(h != NULL); int r = hwloc_distances_add_values(A, h, 2, objs, vals, 0); VP_ASSUME(r == 0); r = hwloc_distances_add_commit(A, h, 0); VP_ASSUME(r == 0); }
#if WITH_DIST >= 2
  { hwloc_obj_t objs[3] = { SA.pkg[0], SA.pu[2], SA.pu[3] }; hwloc_uint64_t vals[9] = { 1, 2, 3, 4, 5, 6, 7, 8, 9 };
    hwloc_distances_add_handle_t h = hwloc_distances_add_create(A, "Mixed", HWLOC_DISTANCES_KIND_FROM_USER | HWLOC_DISTANCES_KIND_VALUE_HOPS, 0);      /* the most recent value kind */
    VP_ASSUME(h != NULL); int r = hwloc_distances_add_values(A, h, 3, objs, vals, 0); VP_ASSUME(r == 0); r = hwloc_distances_add_commit(A, h, 0); VP_ASSUME(r == 0); }
#endif
#endif
#if WITH_MEMATTR == 3
  /* the attribute table of A written directly in its representation (what set_value produces; set_value itself: C14): values of
   * Bandwidth for both nodes from cpuset initiators, Latency from an object initiator, a registered attribute without initiator */
  { struct hwloc_internal_memattr_s *bw = &A->memattrs[HWLOC_MEMATTR_ID_BANDWIDTH], *lat = &A->memattrs[HWLOC_MEMATTR_ID_LATENCY];
    struct hwloc_internal_memattr_target_s *tg = malloc(2 * sizeof(struct hwloc_internal_memattr_target_s)); VP_NONNULL(tg); static const struct hwloc_internal_memattr_target_s tz; tg[0] = tz; tg[1] = tz;
    for (unsigned k = 0; k < 2; k++) { struct hwloc_internal_memattr_initiator_s *in = malloc(sizeof(struct hwloc_internal_memattr_initiator_s)); VP_NONNULL(in); static const struct hwloc_internal_memattr_initiator_s iz; *in = iz;
      in->initiator.type = HWLOC_LOCATION_TYPE_CPUSET; in->initiator.location.cpuset = vp_bm(k ? 0x24 : 0x03); in->value = k ? 50 : 100;
      tg[k].obj = SA.numa[k]; tg[k].type = HWLOC_OBJ_NUMANODE; tg[k].os_index = SA.numa[k]->os_index; tg[k].gp_index = SA.numa[k]->gp_index; tg[k].nr_initiators = 1; tg[k].initiators = in; }
    bw->targets = tg; bw->nr_targets = 2;
    struct hwloc_internal_memattr_target_s *tl = malloc(sizeof(struct hwloc_internal_memattr_target_s)); VP_NONNULL(tl); *tl = tz;
    struct hwloc_internal_memattr_initiator_s *il = malloc(sizeof(struct hwloc_internal_memattr_initiator_s)); VP_NONNULL(il); static const struct hwloc_internal_memattr_initiator_s iz2; *il = iz2;
    il->initiator.type = HWLOC_LOCATION_TYPE_OBJECT; il->initiator.location.object.obj = SA.pkg[1]; il->initiator.location.object.gp_index = SA.pkg[1]->gp_index; il->initiator.location.object.type = HWLOC_OBJ_PACKAGE; il->value = 7;
    tl->obj = SA.numa[1]; tl->type = HWLOC_OBJ_NUMANODE; tl->os_index = 1; tl->gp_index = SA.numa[1]->gp_index; tl->nr_initiators = 1; tl->initiators = il;
    lat->targets = tl; lat->nr_targets = 1;
    hwloc_memattr_id_t id; int r = hwloc_memattr_register(A, "Custom", HWLOC_MEMATTR_FLAG_HIGHER_FIRST, &id); VP_ASSUME(r == 0);
    struct hwloc_internal_memattr_target_s *tc = malloc(sizeof(struct hwloc_internal_memattr_target_s)); VP_NONNULL(tc); *tc = tz;
    tc->obj = SA.numa[0]; tc->type = HWLOC_OBJ_NUMANODE; tc->os_index = 0; tc->gp_index = SA.numa[0]->gp_index; tc->noinitiator_value = 18446744073709551615ULL;
    A->memattrs[id].targets = tc; A->memattrs[id].nr_targets = 1; }
#elif WITH_MEMATTR
  { struct hwloc_location loc; int r;
#if WITH_MEMATTR >= 2
    loc.type = HWLOC_LOCATION_TYPE_CPUSET; loc.location.cpuset = SA.pkg[0]->cpuset;
    r = hwloc_memattr_set_value(A, HWLOC_MEMATTR_ID_BANDWIDTH, SA.numa[0], &loc, 0, 100); VP_ASSUME(r == 0);
    loc.location.cpuset = SA.pkg[1]->cpuset; r = hwloc_memattr_set_value(A, HWLOC_MEMATTR_ID_BANDWIDTH, SA.numa[1], &loc, 0, 50); VP_ASSUME(r == 0);
#endif
    loc.type = HWLOC_LOCATION_TYPE_OBJECT; loc.location.object = SA.pkg[1]; r = hwloc_memattr_set_value(A, HWLOC_MEMATTR_ID_LATENCY, SA.numa[1], &loc, 0, 7); VP_ASSUME(r == 0);
    hwloc_memattr_id_t id; r = hwloc_memattr_register(A, "Custom", HWLOC_MEMATTR_FLAG_HIGHER_FIRST, &id); VP_ASSUME(r == 0);
    r = hwloc_memattr_set_value(A, id, SA.numa[1], NULL, 0, 42); VP_ASSUME(r == 0);
    r = hwloc_memattr_set_value(A, id, SA.numa[0], NULL, 0, 18446744073709551615ULL); VP_ASSUME(r == 0); }
#endif
#if WITH_CPUKINDS
  { struct hwloc_infos_s inf; inf.array = NULL; inf.count = inf.allocated = 0; hwloc__add_info(&inf, "CoreType", "big");
    hwloc_bitmap_t c0 = vp_bm(0x03), c1 = vp_bm(0x24);
    /* forced efficiencies with the largest number of digits an int can have */
    int r = hwloc_cpukinds_register(A, c0, 1000000000, &inf, 0); VP_ASSUME(r == 0); r = hwloc_cpukinds_register(A, c1, 2147483647, NULL, 0); VP_ASSUME(r == 0); }
#endif
  vp_x_after_load(A);
  int v2 = (XFLAGS & HWLOC_TOPOLOGY_EXPORT_XML_FLAG_V2) != 0;
  struct tt_elem *X1 = tt_export_topology(A, XFLAGS);
  VP_CHECK(!tt_overflow, "harness: element tree capacities suffice");
  tt_backend_data(&vp_x_bd, X1);
  struct hwloc_topology *B = vp_seed_build(200, 0);
  VP_CHECK(vp_seed_err == 0, "the exported topology is accepted by the importer and by the core");
  vp_x_after_load(B);
  VP_CHECK(X1->tag_closed == 1 && !X1->ccur, "the importer consumed the whole document");
  cmp_topology(A, B, v2);
#if FIX >= 1
  VP_CHECK(cmp_count == 9 + ((FIXM & 1) != 0) + ((FIXM & 2) != 0) + ((FIXM & 4) != 0) + 3 * ((FIXM & 32) != 0) + ((FIXM & 64) != 0), "all objects compared");
#elif defined(FIXD)
  VP_CHECK(cmp_count == 8 && vp_w(A->levels[0][0]->cpuset) == 0x25 && vp_w(A->levels[0][0]->complete_cpuset) == 0x27 && vp_w(B->levels[0][0]->complete_cpuset) == 0x27, "all 8 objects compared; the complete cpuset keeps the disallowed PU");
#else
  VP_CHECK(cmp_count == 9, "all 9 objects compared");
#endif
  /* fixpoint: exporting the reloaded topology gives the same document */
  struct tt_elem *X2 = tt_export_topology(B, XFLAGS);
  VP_CHECK(!tt_overflow, "harness: element tree capacities suffice");
#ifndef VP_CBMC
  if (!tt_equal(X1, X2)) tt_diff(X1, X2, 0);
#endif
  VP_CHECK(tt_equal(X1, X2), "exporting the reloaded topology gives an identical document (element for element, attribute for attribute)");
  (void) SA;
  VP_WITNESS("export -> import -> compare -> export executed");
}

/* ==== C06: the real importers on CRAFTED element trees ===================================================================================
 * Each case is a concrete document; WHICH case runs is selected by symbolic inputs (guarded concrete runs), so that the solver
 * owns the selection and every run is checked for memory safety (exactly sized heap objects), for its return value and for
 * its post-condition against a reference computed by the harness from the documented format. */

/* the enumerated runs of one harness are dealt round-robin to NSLICE harness instances (the cost of one symbolic execution grows
 * faster than linearly with the number of runs it holds: every run adds heap objects to the points-to state) */
#ifndef NSLICE
#define NSLICE 1
#endif
#ifndef SLICE
#define SLICE 0
#endif
static unsigned slice_ci;
#define IN_SLICE() ((slice_ci++ % NSLICE) == SLICE)

/* ---- <distances2> / <distances2hetero> --------------------------------------------------------------------------------------------- */
#ifndef HET
#define HET 0
#endif
#ifndef DSEQ
#define DSEQ 3               /* children per element: sequences of up to DSEQ children over the DK child kinds */
#endif
#ifndef DNB
#define DNB 2                /* nbobjs attribute */
#endif
#ifndef DVER
#define DVER 3               /* document version (2: the XGMIHops rewrite applies) */
#endif
#define DK 7
/* child kinds: 0..2 = <indexes> with 1/2/3 entries, 3..5 = <u64values> with 1/2/4 entries, 6 = <info> */
static const char *const dk_idx[2][3] = { { "0 ", "0 1 ", "0 1 2 " }, { "NUMANode:0 ", "NUMANode:0 NUMANode:1 ", "NUMANode:0 NUMANode:1 NUMANode:2 " } };
static const char *const dk_val[3] = { "10 ", "10 20 ", "10 20 30 40 " };
static const unsigned dk_cnt[DK] = { 1, 2, 3, 1, 2, 4, 0 };
static unsigned dist_runs, dist_added, dist_refused, dist_ignored;
static void tt_len_attr(struct tt_elem *e, const char *content)
{ char tmp[16]; size_t n = strlen(content); sprintf(tmp, "%lu", (unsigned long) n); tt_attr(e, "length", tmp); tt_content(e, content, n); }
/* attrs: bit0 name present, bit1 kind has the latency bit (else bandwidth), bit2 indexing attribute present, bit3 type attribute present */
static void dist_case(unsigned attrs, int k0, int k1, int k2, int k3)
{
  /* a fresh topology per case: state shared between the guarded runs would become a chain of guarded alternatives */
  struct hwloc_topology *t = malloc(sizeof *t); VP_NONNULL(t); static const struct hwloc_topology tz; *t = tz;
  int ks[4] = { k0, k1, k2, k3 };
  struct tt_elem *e = tt_new(HET ? "distances2hetero" : "distances2");
  { char tmp[8]; sprintf(tmp, "%u", (unsigned) DNB); tt_attr(e, "nbobjs", tmp); }
  if (!HET && (attrs & 8)) tt_attr(e, "type", "NUMANode");
  if (attrs & 4) tt_attr(e, "indexing", HET ? "gp" : "os");
  tt_attr(e, "kind", (attrs & 2) ? "5" : "9");       /* FROM_OS | VALUE_LATENCY, FROM_OS | VALUE_BANDWIDTH */
  if (attrs & 1) tt_attr(e, "name", "XGMIHops");
  /* reference: what the documented format makes of the children */
  unsigned ni = 0, nv = 0; int bad = 0; uint64_t ei[DNB + 1], ev[DNB * DNB + 1];
  for (unsigned c = 0; c < 4; c++) {
    int k = ks[c]; if (k < 0) break;
    if (bad) { /* the importer stops at the first refused child */ }
    if (k == 6) { struct tt_elem *i = tt_child(e, "info"); tt_attr(i, "name", "n"); tt_attr(i, "value", "v"); continue; }
    if (k < 3) { struct tt_elem *i = tt_child(e, "indexes"); tt_len_attr(i, dk_idx[HET][k]); if (!bad) { if (ni >= DNB) bad = 1; else for (unsigned j = 0; j < dk_cnt[k] && ni < DNB; j++) ei[ni++] = j; } }
    else { struct tt_elem *v = tt_child(e, "u64values"); tt_len_attr(v, dk_val[k - 3]); if (!bad) { if (nv >= DNB * DNB) bad = 1; else for (unsigned j = 0; j < dk_cnt[k] && nv < DNB * DNB; j++) ev[nv++] = 10 * (j + 1); } }
  }
  int complete = !bad && ni == DNB && nv == DNB * DNB;
  int attrs_ok = (HET || (attrs & 8)) && (HET || (attrs & 4));       /* nbobjs and kind are always given; hetero implies gp indexing */
  struct hwloc_internal_distances_s *last0 = t->last_dist; unsigned id0 = t->next_dist_id;
  struct hwloc__xml_import_state_s st; tt_nmap = 0; tt_state_at(&st, &vp_x_bd, e);
  vp_x_bd.version_major = DVER;
  int r = hwloc__xml_import_distances(t, &vp_x_bd, &st, HET);
  dist_runs++;
  VP_CHECK(r == 0 || r == -1, "import_distances returns 0 or -1");
  if (!attrs_ok || !complete) {
    VP_CHECK(r == -1 && t->last_dist == last0, "a distances element with missing attributes, too many, too few or overlong index/value lists is refused and nothing is added");
    dist_refused++;
  } else if (DNB < 2) {
    VP_CHECK(r == 0 && t->last_dist == last0, "a complete distances element with fewer than 2 objects is ignored");
    dist_ignored++;
  } else {
    VP_CHECK(r == 0, "a complete distances element is accepted");
    struct hwloc_internal_distances_s *d = t->last_dist;
    VP_CHECK(d != last0 && d != NULL && t->next_dist_id == id0 + 1, "a complete distances element adds exactly one structure");
    if (d && d != last0) {
      unsigned long ek = (attrs & 2) ? (DVER < 3 && (attrs & 1) ? (HWLOC_DISTANCES_KIND_FROM_OS | HWLOC_DISTANCES_KIND_VALUE_HOPS) : 5UL) : 9UL;
      if (HET) ek |= HWLOC_DISTANCES_KIND_HETEROGENEOUS_TYPES;
      VP_CHECK(d->nbobjs == DNB && d->kind == ek, "nbobjs and kind as written (v2 XGMIHops latency becomes hops; per-object types set the heterogeneous bit)");
      VP_CHECK((attrs & 1) ? (d->name && !strcmp(d->name, "XGMIHops")) : d->name == NULL, "name as written");
      for (unsigned i = 0; i < DNB; i++) { VP_CHECK(d->indexes[i] == ei[i], "indexes in document order"); if (HET) VP_CHECK(d->different_types && d->different_types[i] == HWLOC_OBJ_NUMANODE, "per-object types"); }
      for (unsigned i = 0; i < DNB * DNB; i++) VP_CHECK(d->values[i] == ev[i], "values in document order");
    }
    dist_added++;
  }
}
VP_HARNESS(h_import_distances)
{
  tt_backend_data(&vp_x_bd, tt_new("none"));
  unsigned attrs = (unsigned) vp_in_range(0, 15); int n = (int) vp_in_range(0, DSEQ);
  int k[4]; for (unsigned c = 0; c < 4; c++) k[c] = (int) vp_in_range(0, DK - 1);
  int done = 0;
  for (unsigned va = 0; va < 16; va++) {
    for (int v0 = -1; v0 < DK; v0++) for (int v1 = -1; v1 < DK; v1++) for (int v2 = -1; v2 < DK; v2++) {
      int len = v0 < 0 ? 0 : v1 < 0 ? 1 : v2 < 0 ? 2 : 3;
      if ((v0 < 0 && v1 >= 0) || (v1 < 0 && v2 >= 0) || len > DSEQ) continue;
      if (va != 15 && !(v0 == DNB - 1 && v1 == (DNB == 1 ? 3 : DNB == 2 ? 5 : 5) && v2 < 0)) continue;       /* all 16 attribute subsets on the complete two-children document, every child sequence with all attributes */
      if (DVER < 3 && va == 15 && !(v0 == DNB - 1 && v1 == 5 && v2 < 0)) continue;                               /* version 2 only differs in the attribute handling */
      if (!IN_SLICE()) continue;
      if (attrs == va && n == len && (len < 1 || k[0] == v0) && (len < 2 || k[1] == v1) && (len < 3 || k[2] == v2)) { dist_case(va, v0, v1, v2, -1); done = 1; }
    }
  }
  VP_ASSUME(done);
  VP_WITNESS_IF(dist_runs >= 1 && dist_added + dist_refused + dist_ignored == dist_runs, "a case of this slice executed and classified");
}

/* ---- <cpukind> ----------------------------------------------------------------------------------------------------------------- */
static unsigned ck_runs, ck_added, ck_refused, ck_ignored;
/* cs: 0 "0x3", 1 "0x0" (empty), 2 unparsable text, 3 no cpuset attribute, 4 "0x30" (a second kind);  eff: 0 none, 1 "5", 2 "-1";
 * extra: 0 none, 1 an unknown attribute, 2 an unknown child, 3 an info child without value, 4 a complete info child;  nock: NO_CPUKINDS */
static void cpukind_case(struct hwloc_topology *t, int cs, int eff, int extra, int nock)
{
  static const char *const cstxt[5] = { "0x00000003", "0x0", "zz,top", NULL, "0x00000030" };
  struct tt_elem *e = tt_new("cpukind");
  if (cstxt[cs]) tt_attr(e, "cpuset", cstxt[cs]);
  if (eff) tt_attr(e, "forced_efficiency", eff == 1 ? "5" : "-1");
  if (extra == 1) tt_attr(e, "bogus", "1");
  if (extra == 2) tt_child(e, "bogus");
  if (extra == 3) { struct tt_elem *i = tt_child(e, "info"); tt_attr(i, "name", "CoreType"); }
  if (extra == 4) { struct tt_elem *i = tt_child(e, "info"); tt_attr(i, "name", "CoreType"); tt_attr(i, "value", "big"); }
  t->flags = nock ? HWLOC_TOPOLOGY_FLAG_NO_CPUKINDS : 0;
  unsigned nr0 = t->nr_cpukinds;
  struct hwloc__xml_import_state_s st; tt_nmap = 0; tt_state_at(&st, &vp_x_bd, e);
  int r = hwloc__xml_import_cpukind(t, &st);
  ck_runs++;
  VP_CHECK(r == 0 || r == -1, "import_cpukind returns 0 or -1");
  if (extra == 1 || extra == 2 || cs == 3) { VP_CHECK(r == -1 && t->nr_cpukinds == nr0, "an unknown attribute or child, or a missing cpuset, is refused and nothing is registered"); ck_refused++; }
  else if (nock || cs == 1 || cs == 2) { VP_CHECK(r == 0 && t->nr_cpukinds == nr0, "NO_CPUKINDS, or an empty/unparsable cpuset: the element is consumed and nothing is registered"); ck_ignored++; }
  else {
    VP_CHECK(r == 0 && t->nr_cpukinds == nr0 + 1, "a valid cpukind element registers one kind");
    struct hwloc_internal_cpukind_s *k = &t->cpukinds[nr0];
    VP_CHECK(vp_w(k->cpuset) == (cs == 0 ? 0x3UL : 0x30UL) && k->forced_efficiency == (eff == 1 ? 5 : -1), "cpuset and forced efficiency as written");
    VP_CHECK(k->infos.count == (extra == 4 ? 1U : 0U), "only complete info pairs are kept");
    if (extra == 4 && k->infos.count == 1) VP_CHECK(!strcmp(k->infos.array[0].name, "CoreType") && !strcmp(k->infos.array[0].value, "big"), "info pair as written");
    ck_added++;
  }
}
VP_HARNESS(h_import_cpukind)
{
  tt_backend_data(&vp_x_bd, tt_new("none"));
  int cs = (int) vp_in_range(0, 4), eff = (int) vp_in_range(0, 2), extra = (int) vp_in_range(0, 4), nock = vp_in_bool(), second = vp_in_bool();
  int done = 0;
  for (int a = 0; a < 5; a++) for (int b = 0; b < 3; b++) for (int c = 0; c < 5; c++) for (int d = 0; d < 2; d++) for (int s2 = 0; s2 < 2; s2++)
    if ((!s2 || (a == 4 && !d)) && IN_SLICE() && cs == a && eff == b && extra == c && nock == d && second == s2) {
      struct hwloc_topology *t = malloc(sizeof *t); VP_NONNULL(t); static const struct hwloc_topology tz; *t = tz;
      hwloc_internal_cpukinds_init(t);
      if (s2) cpukind_case(t, 0, 1, 4, 0);      /* a kind registered before: the table grows */
      cpukind_case(t, a, b, c, d); done = 1; }
  VP_ASSUME(done);
  VP_WITNESS_IF(ck_runs >= 1 && ck_added + ck_ignored + ck_refused == ck_runs, "a case of this slice executed and classified");
}

/* ---- <memattr> with <memattr_value> children ------------------------------------------------------------------------------------------- */
static unsigned ma_runs, ma_stored, ma_refused;
/* nm: 0 "Bandwidth" (built in, flags 5), 1 "Custom", 2 none;  fl: 0 "5", 1 "1", 2 "3" (both orders: not registrable), 3 none;  extra: 0 none, 1 unknown attribute, 2 unknown child, 3 info child
 * value kinds: 0 none, 1 cpuset initiator, 2 object initiator, 3 no initiator, 4 no target type, 5 unknown target type, 6 no value, 7 unknown attribute, 8 unknown initiator type, 9 initiator index without type */
static void memattr_case(struct hwloc_topology *t, int nm, int fl, int extra, int vk, int nomem)
{
  struct tt_elem *e = tt_new("memattr");
  if (nm < 2) tt_attr(e, "name", nm ? "Custom" : "Bandwidth");
  if (fl < 3) tt_attr(e, "flags", fl == 0 ? "5" : fl == 1 ? "1" : "3");
  if (extra == 1) tt_attr(e, "bogus", "1");
  if (extra == 3) { struct tt_elem *i = tt_child(e, "info"); tt_attr(i, "name", "n"); tt_attr(i, "value", "v"); }
  if (vk) {
    struct tt_elem *v = tt_child(e, "memattr_value");
    tt_attr(v, "target_obj_gp_index", "7");
    if (vk != 4) tt_attr(v, "target_obj_type", vk == 5 ? "Bogus" : "NUMANode");
    if (vk != 6) tt_attr(v, "value", "100");
    if (vk == 1) tt_attr(v, "initiator_cpuset", "0x00000003");
    if (vk == 2 || vk == 8 || vk == 9) tt_attr(v, "initiator_obj_gp_index", "3");
    if (vk == 2 || vk == 8) tt_attr(v, "initiator_obj_type", vk == 8 ? "Bogus" : "Package");
    if (vk == 7) tt_attr(v, "bogus", "1");
  }
  if (extra == 2) tt_child(e, "bogus");
  t->flags = nomem ? HWLOC_TOPOLOGY_FLAG_NO_MEMATTRS : 0;
  unsigned nr0 = t->nr_memattrs;
  struct hwloc__xml_import_state_s st; tt_nmap = 0; tt_state_at(&st, &vp_x_bd, e);
  int r = hwloc__xml_import_memattr(t, &st);
  ma_runs++;
  VP_CHECK(r == 0 || r == -1, "import_memattr returns 0 or -1");
  unsigned long xf = fl == 0 ? 5UL : fl == 1 ? 1UL : fl == 2 ? 3UL : ~0UL;      /* what the element says (a missing attribute leaves all bits set) */
  int need_init = (xf & HWLOC_MEMATTR_FLAG_NEED_INITIATOR) != 0;
  int value_bad = vk == 4 || vk == 5 || vk == 6 || vk == 7 || (need_init && (vk == 3 || vk == 8 || vk == 9));
  if (extra == 1) { VP_CHECK(r == -1, "an unknown memattr attribute is refused"); ma_refused++; }
  else if ((vk && value_bad) || extra == 2) { VP_CHECK(r == -1, "an invalid memattr_value or an unknown child is refused"); ma_refused++; }
  else {
    VP_CHECK(r == 0, "a well-formed memattr element is consumed");
    int registered = nm == 1 && (fl == 0 || fl == 1) && !nomem;       /* a new name with exactly one ordering flag (flags 5 also ask for an initiator) */
    VP_CHECK(t->nr_memattrs == nr0 + (registered ? 1U : 0U), "a new attribute is registered exactly when name and legal flags are given and memattrs are not disabled");
    int id = -1;
    if (!nomem && nm == 0 && fl == 0) id = HWLOC_MEMATTR_ID_BANDWIDTH; else if (registered) id = (int) nr0;
    if (id >= 0 && vk) {
      struct hwloc_internal_memattr_s *im = &t->memattrs[id];
      VP_CHECK(im->nr_targets == 1 && im->targets[0].type == HWLOC_OBJ_NUMANODE && im->targets[0].gp_index == 7, "the value's target is stored by type and gp_index");
      if (im->flags & HWLOC_MEMATTR_FLAG_NEED_INITIATOR) {
        VP_CHECK(im->targets[0].nr_initiators == 1 && im->targets[0].initiators[0].value == 100, "the value is stored for its initiator");
        if (vk == 1) VP_CHECK(im->targets[0].initiators[0].initiator.type == HWLOC_LOCATION_TYPE_CPUSET && vp_w(im->targets[0].initiators[0].initiator.location.cpuset) == 0x3, "cpuset initiator as written");
      } else VP_CHECK(im->targets[0].noinitiator_value == 100, "the value is stored");
      ma_stored++;
    } else if (nm == 0 && !nomem) VP_CHECK(t->memattrs[HWLOC_MEMATTR_ID_BANDWIDTH].nr_targets == 0, "values of an attribute whose flags do not match the existing one are ignored");
  }
}
VP_HARNESS(h_import_memattr)
{
  int nm = (int) vp_in_range(0, 2), fl = (int) vp_in_range(0, 3), extra = (int) vp_in_range(0, 3), vk = (int) vp_in_range(0, 9), nomem = vp_in_bool();
  int done = 0;
  for (int a = 0; a < 3; a++) for (int b = 0; b < 4; b++) for (int c = 0; c < 4; c++) for (int d = 0; d < 10; d++) for (int n = 0; n < 2; n++)
    if ((c == 0 || (d <= 1 && a == 0 && b == 0)) && (n == 0 || d <= 1) && IN_SLICE() && nm == a && fl == b && extra == c && vk == d && nomem == n) {
      struct hwloc_topology *t = malloc(sizeof *t); VP_NONNULL(t); static const struct hwloc_topology tz; *t = tz;
      hwloc_internal_memattrs_init(t);
      if (!n) hwloc_internal_memattrs_prepare(t);      /* hwloc_topology_load(): the built-in attributes exist unless NO_MEMATTRS is set */
      tt_backend_data(&vp_x_bd, tt_new("none"));
      memattr_case(t, a, b, c, d, n); done = 1; }
  VP_ASSUME(done);
  VP_WITNESS_IF(ma_runs >= 1, "a case of this slice executed");
}

/* ---- whole CRAFTED documents through the real hwloc_look_xml inside the real discovery pipeline ------------------------------------------- */
#include "vp_wf.h"
#ifndef DOC_LO
#define DOC_LO 0
#endif
#ifndef DOC_HI
#define DOC_HI 3
#endif
#define NDOC 35
static struct tt_elem *doc_obj(struct tt_elem *p, const char *type, const char *os, const char *cpuset, const char *nodeset, const char *gp)
{
  struct tt_elem *o = tt_child(p, "object");
  if (type) tt_attr(o, "type", type);
  if (os) tt_attr(o, "os_index", os);
  if (cpuset) { tt_attr(o, "cpuset", cpuset); tt_attr(o, "complete_cpuset", cpuset); }
  if (nodeset) { tt_attr(o, "nodeset", nodeset); tt_attr(o, "complete_nodeset", nodeset); }
  if (gp) tt_attr(o, "gp_index", gp);
  return o;
}
/* 1 = a legal document: it must load; 0 = a document with a defect: refused, or loaded into a well-formed topology */
static const int doc_loads[NDOC] = { 1, 0, 0, 0, 0, 0, 0, 0, 0, 0,   0, 0, 0, 0, 0, 1, 1, 1, 1, 0,   1, 1, 0, 1, 0, 0, 1, 1, 0, 1,   0, 0, 0, 0,   0 };
static unsigned doc_loaded, doc_refused;
static void doc_case(int c)
{
  struct tt_elem *X = tt_new("topology"); tt_attr(X, "version", c == 27 ? "2.0" : "3.0");
  /* the base document: Machine(0x3 / node 0x1) { NUMANode#0, PU#0, PU#1 } */
  struct tt_elem *M = tt_child(X, "object");
  tt_attr(M, "type", c == 11 ? "Bogus" : c == 30 ? "Bridge" : "Machine");           /* 11: unknown type string; 30: a root that the attribute importer marks as ignored (bad bridge_pci) */
  if (c == 30) { tt_attr(M, "bridge_type", "0-1"); tt_attr(M, "depth", "0"); tt_attr(M, "bridge_pci", "zz"); }
  tt_attr(M, "os_index", "0"); tt_attr(M, "cpuset", "0x00000003"); if (c != 31) tt_attr(M, "complete_cpuset", "0x00000003"); tt_attr(M, "allowed_cpuset", "0x00000003");      /* 31: root with sets but without complete_ sets */
  if (c == 34) { tt_attr(M, "nodeset", "0x00000003"); tt_attr(M, "complete_nodeset", "0x00000003"); tt_attr(M, "allowed_nodeset", "0x00000003"); }      /* 34: two NUMA nodes, the first one claims both bits */
  else if (c != 14) { tt_attr(M, "nodeset", c == 15 ? "0x0" : "0x00000001"); if (c != 31) tt_attr(M, "complete_nodeset", c == 15 ? "0x0" : "0x00000001"); tt_attr(M, "allowed_nodeset", "0x00000001"); }      /* 14: root without nodeset (its NUMA child then has a nodeset while the parent has none), 15: empty root nodeset (completed by the NUMA child: loads) */
  tt_attr(M, "gp_index", "1");
  if (c == 19) { struct tt_elem *i = tt_child(M, "info"); tt_attr(i, "name", "n"); tt_attr(i, "bogus", "v"); }                   /* 19: info with an unknown attribute */
  if (c == 20) { struct tt_elem *i = tt_child(M, "info"); tt_attr(i, "name", "n"); }                                            /* 20: info without value: ignored */
  if (c == 21) { struct tt_elem *i = tt_child(M, "page_type"); tt_attr(i, "size", "4096"); tt_attr(i, "count", "2"); }         /* 21: machine page types */
  if (c == 13) tt_child(M, "bogus");                                                                                            /* 13: unknown child tag */
  struct tt_elem *N;
  if (c == 33) { N = tt_child(M, "object"); tt_attr(N, "type", "NUMANode"); tt_attr(N, "os_index", "0"); tt_attr(N, "cpuset", "0x00000003"); tt_attr(N, "complete_cpuset", "0x00000003"); tt_attr(N, "nodeset", "0x00000001"); tt_attr(N, "gp_index", "2"); }      /* 33: NUMA node without complete_nodeset */
  else N = doc_obj(M, "NUMANode", "0", "0x00000003", (c == 3 || c == 34) ? "0x00000003" : "0x00000001", "2");                      /* 3: NUMA node with two bits */
  tt_attr(N, "local_memory", "4096");
  if (c == 34) { struct tt_elem *N1 = doc_obj(M, "NUMANode", "1", "0x00000003", "0x00000002", "10"); tt_attr(N1, "local_memory", "4096"); }      /* 34: NUMA#0 with nodeset 0x3 next to NUMA#1 with 0x2: the nodesets of two nodes intersect */
  if (c == 9) { struct tt_elem *b = doc_obj(N, "Bridge", NULL, NULL, NULL, "9"); tt_attr(b, "bridge_type", "0-1"); tt_attr(b, "depth", "0"); tt_attr(b, "bridge_pci", "0000:[00-01]"); }      /* 9: I/O below memory */
  struct tt_elem *parent = M;
  if (c == 23) { parent = doc_obj(M, "Group", NULL, "0x00000003", "0x00000001", "7"); tt_attr(parent, "kind", "0"); tt_attr(parent, "subkind", "0"); }            /* 23: a Group identical to its parent: merged by the core */
  if (c == 26) parent = doc_obj(M, "Tile", NULL, "0x00000003", "0x00000001", "7");                                            /* 26: a possible future type becomes a Group (then merged) */
  if (c == 10) { parent = doc_obj(M, "L2Cache", NULL, "0x00000003", "0x00000001", "7"); tt_attr(parent, "cache_size", "1024"); tt_attr(parent, "depth", "3"); tt_attr(parent, "cache_linesize", "64"); tt_attr(parent, "cache_associativity", "1"); tt_attr(parent, "cache_type", "0"); }      /* 10: L2 with depth 3 */
  if (c == 29) { parent = doc_obj(M, "L2Cache", NULL, "0x00000003", "0x00000001", "7"); tt_attr(parent, "cache_size", "1024"); tt_attr(parent, "depth", "2"); tt_attr(parent, "cache_linesize", "64"); tt_attr(parent, "cache_associativity", "1"); tt_attr(parent, "cache_type", "0"); }      /* 29: a proper L2 */
  if (c == 4) parent = doc_obj(M, "Core", "0", NULL, NULL, "7");                                                              /* 4: a normal object without sets */
  struct tt_elem *P0, *P1;
  if (c == 16) { P1 = doc_obj(parent, "PU", "1", "0x00000002", "0x00000001", "4"); P0 = doc_obj(parent, "PU", "0", "0x00000001", "0x00000001", "3"); }      /* 16: children out of order: reordered */
  else {
    if (c == 32) { P0 = tt_child(parent, "object"); tt_attr(P0, "type", "PU"); tt_attr(P0, "os_index", "0"); tt_attr(P0, "cpuset", "0x00000001"); tt_attr(P0, "nodeset", "0x00000001"); tt_attr(P0, "gp_index", "3"); }      /* 32: a PU with sets but without complete_ sets */
    else if (c == 12) { P0 = tt_child(parent, "object"); tt_attr(P0, "os_index", "0"); tt_attr(P0, "type", "PU"); tt_attr(P0, "cpuset", "0x00000001"); tt_attr(P0, "complete_cpuset", "0x00000001"); tt_attr(P0, "nodeset", "0x00000001"); tt_attr(P0, "complete_nodeset", "0x00000001"); tt_attr(P0, "gp_index", "3"); }      /* 12: an attribute before the type */
    else P0 = doc_obj(parent, "PU", "0", c == 1 ? "0x00000003" : "0x00000001", "0x00000001", "3");                                   /* 1: PU with two bits */
    P1 = doc_obj(parent, "PU", "1", c == 2 ? "0x00000001" : c == 24 ? "0x00000020" : "0x00000002", "0x00000001", "4"); }           /* 2: PU whose bit is not its os_index; 24: a PU outside its parent's cpuset */
  if (c == 5) { struct tt_elem *m = doc_obj(P0, "Misc", NULL, "0x00000001", "0x00000001", "8"); (void) m; }                 /* 5: Misc with sets */
  if (c == 17) { struct tt_elem *m = doc_obj(P0, "Misc", NULL, NULL, NULL, "8"); tt_attr(m, "name", "note"); }              /* 17: a proper Misc */
  if (c == 6) doc_obj(P1, "Machine", "1", "0x00000002", "0x00000001", "8");                                                   /* 6: Machine as a child */
  if (c == 7) doc_obj(P1, "Core", "0", "0x00000002", "0x00000001", "8");                                                      /* 7: normal object below a PU */
  if (c == 8) { struct tt_elem *m = doc_obj(P0, "Misc", NULL, NULL, NULL, "8"); doc_obj(m, "NUMANode", "1", "0x00000001", "0x00000002", "9"); }      /* 8: memory below Misc */
  if (c == 22) { struct tt_elem *i = tt_child(P0, "page_type"); tt_attr(i, "size", "4096"); }                                  /* 22: page types on a PU */
  if (c == 25) doc_obj(P1, "PU", "1", "0x00000002", "0x00000001", "8");                                                       /* 25: a PU below a PU */
  if (c == 18) tt_child(X, "bogus");                                                                                            /* 18: unknown element after the root object: ignored */
  if (c == 28) { struct tt_elem *d = tt_child(X, "distances2"); tt_attr(d, "nbobjs", "2"); tt_attr(d, "type", "PU"); tt_attr(d, "indexing", "os"); tt_attr(d, "kind", "5"); }      /* 28: distances without content */
  tt_backend_data(&vp_x_bd, X);
  struct hwloc_topology *B = vp_seed_build(200, 0);
#ifndef VP_CBMC
  fprintf(stderr, "doc_case %d: load %s\n", c, vp_seed_err == 0 ? "succeeded" : "failed");
#endif
  if (vp_seed_err == 0) {
    vp_x_after_load(B);
    /* C06 does not demand that a questionable document is refused (the importer is lenient, e.g. with generic attributes written
     * before the type): what it demands is that whatever loads is well formed */
    vp_wf_check(B, 0);
    if (c == 16) VP_CHECK(B->levels[B->nb_levels - 1][0]->os_index == 0 && B->levels[B->nb_levels - 1][1]->os_index == 1, "out-of-order children are reordered");
    if (c == 23 || c == 26) VP_CHECK(B->nb_levels == 2, "a Group that brings no structure is merged away");
    if (c == 29) VP_CHECK(B->nb_levels == 3 && B->levels[1][0]->type == HWLOC_OBJ_L2CACHE && B->levels[1][0]->attr->cache.size == 1024, "the cache level is kept with its attributes");
    if (c == 17) VP_CHECK(B->slevels[HWLOC_SLEVEL_MISC].nbobjs == 1, "the Misc object is kept");
    if (c == 21) VP_CHECK(B->machine_memory.page_types_len == 0 && B->machine_memory.page_types == NULL, "machine page types are consumed by the core (dropped when NUMA nodes exist)");
    doc_loaded++;
  } else {
    VP_CHECK(!doc_loads[c], "a valid document loads");
    /* what hwloc_topology_load() does on failure: the topology must be reusable */
    hwloc_topology_clear(B); hwloc_topology_setup_defaults(B);
    VP_CHECK(B->nb_levels == 1 && B->levels[0][0]->type == HWLOC_OBJ_MACHINE && !B->levels[0][0]->first_child && !B->first_dist, "after a failed load the topology is back to its defaults");
    doc_refused++;
  }
}
VP_HARNESS(h_xml_documents)
{
  int c = (int) vp_in_range(DOC_LO, DOC_HI);
  for (int v = DOC_LO; v <= DOC_HI; v++) if (c == v) doc_case(v);
  VP_WITNESS_IF(doc_loaded + doc_refused >= 1, "a document of this slice processed");
}

/* ---- topology diffs through the common XML code (C16: a diff survives export/load; C06: any diff document is refused or imported safely) ------------ */
static hwloc_topology_diff_t mk_diff_size(int depth, unsigned idx, uint64_t o, uint64_t n)
{ struct hwloc_topology_diff_obj_attr_s *d = malloc(sizeof *d); VP_NONNULL(d); static const struct hwloc_topology_diff_obj_attr_s z; *d = z; d->type = HWLOC_TOPOLOGY_DIFF_OBJ_ATTR; d->obj_depth = depth; d->obj_index = idx;
  d->diff.uint64.type = HWLOC_TOPOLOGY_DIFF_OBJ_ATTR_SIZE; d->diff.uint64.oldvalue = o; d->diff.uint64.newvalue = n; return (hwloc_topology_diff_t) d; }
static hwloc_topology_diff_t mk_diff_str(int depth, unsigned idx, int info, const char *name, const char *o, const char *n)
{ struct hwloc_topology_diff_obj_attr_s *d = malloc(sizeof *d); VP_NONNULL(d); static const struct hwloc_topology_diff_obj_attr_s z; *d = z; d->type = HWLOC_TOPOLOGY_DIFF_OBJ_ATTR; d->obj_depth = depth; d->obj_index = idx;
  d->diff.string.type = info ? HWLOC_TOPOLOGY_DIFF_OBJ_ATTR_INFO : HWLOC_TOPOLOGY_DIFF_OBJ_ATTR_NAME; d->diff.string.name = (char *) name; d->diff.string.oldvalue = (char *) o; d->diff.string.newvalue = (char *) n; return (hwloc_topology_diff_t) d; }
VP_HARNESS(h_xml_diff_roundtrip)
{
  hwloc_topology_diff_t e0 = mk_diff_size(HWLOC_TYPE_DEPTH_NUMANODE, 1, 1024, 18446744073709551615ULL), e1 = mk_diff_str(1, 0, 0, NULL, "old name", "new"), e2 = mk_diff_str(2, 3, 1, "Key", "a", "bb");
#ifndef DENTRY
#define DENTRY 3      /* 3: the list of three entries; 0..2: one entry alone */
#endif
#if DENTRY == 3
  e0->generic.next = e1; e1->generic.next = e2; e2->generic.next = NULL;
#else
  e0->generic.next = e1->generic.next = e2->generic.next = NULL;
  hwloc_topology_diff_t only = DENTRY == 0 ? e0 : DENTRY == 1 ? e1 : e2;
  e0 = only;
#endif
  struct tt_elem *root = tt_new("topologydiff");
  static struct hwloc__xml_export_state_s xs;
  xs.parent = NULL; xs.new_child = tt_x_new_child; xs.new_prop = tt_x_new_prop; xs.add_content = tt_x_add_content; xs.end_object = tt_x_end_object; xs.global = &tt_edata;
  tt_nmap = 0; tt_bind(&xs, root);
  hwloc__xml_export_diff(&xs, e0);
  VP_CHECK(!tt_overflow && root->nchildren == (DENTRY == 3 ? 3 : 1), "one <diff> element per entry");
  tt_backend_data(&vp_x_bd, root);
  struct hwloc__xml_import_state_s is; tt_nmap = 0; tt_state_at(&is, &vp_x_bd, root);
  hwloc_topology_diff_t got = NULL;
  int r = hwloc__xml_import_diff(&is, &got);
  VP_CHECK(r == 0 && got != NULL, "the exported diff is imported");
#if DENTRY == 3
  hwloc_topology_diff_t g0 = got, g1 = g0 ? g0->generic.next : NULL, g2 = g1 ? g1->generic.next : NULL;
  VP_CHECK(g0 && g1 && g2 && !g2->generic.next, "same number of entries, in order");
#else
  hwloc_topology_diff_t g0 = got, g1 = got, g2 = got;
  VP_CHECK(got && !got->generic.next, "one entry");
#endif
  if (g0 && g1 && g2) {
    if (DENTRY == 3 || DENTRY == 0)
    VP_CHECK(g0->obj_attr.type == HWLOC_TOPOLOGY_DIFF_OBJ_ATTR && g0->obj_attr.obj_depth == HWLOC_TYPE_DEPTH_NUMANODE && g0->obj_attr.obj_index == 1 && g0->obj_attr.diff.uint64.type == HWLOC_TOPOLOGY_DIFF_OBJ_ATTR_SIZE
             && g0->obj_attr.diff.uint64.oldvalue == 1024 && g0->obj_attr.diff.uint64.newvalue == 18446744073709551615ULL, "size entry: same (negative) depth, index and 64-bit values");
    if (DENTRY == 3 || DENTRY == 1)
    VP_CHECK(g1->obj_attr.obj_depth == 1 && g1->obj_attr.obj_index == 0 && g1->obj_attr.diff.string.type == HWLOC_TOPOLOGY_DIFF_OBJ_ATTR_NAME && !g1->obj_attr.diff.string.name
             && !strcmp(g1->obj_attr.diff.string.oldvalue, "old name") && !strcmp(g1->obj_attr.diff.string.newvalue, "new"), "name entry: same strings");
    if (DENTRY == 3 || DENTRY == 2)
    VP_CHECK(g2->obj_attr.obj_depth == 2 && g2->obj_attr.obj_index == 3 && g2->obj_attr.diff.string.type == HWLOC_TOPOLOGY_DIFF_OBJ_ATTR_INFO && !strcmp(g2->obj_attr.diff.string.name, "Key")
             && !strcmp(g2->obj_attr.diff.string.oldvalue, "a") && !strcmp(g2->obj_attr.diff.string.newvalue, "bb"), "info entry: same name and values");
  }
  VP_WITNESS("diff export + import executed");
}
/* crafted <diff> elements: 0 complete size entry, 1 no type, 2 unknown attribute, 3 missing depth, 4 missing new value, 5 info without name, 6 another diff type (7), 7 unknown obj_attr_type, 8 unknown child tag */
static unsigned dc_runs;
static void diff_case(int c)
{
  struct tt_elem *root = tt_new("topologydiff");
  struct tt_elem *d = tt_child(root, c == 8 ? "bogus" : "diff");
  if (c != 1) tt_attr(d, "type", c == 6 ? "7" : "0");
  if (c == 2) tt_attr(d, "bogus", "1");
  if (c != 3) tt_attr(d, "obj_depth", "1");
  tt_attr(d, "obj_index", "0");
  tt_attr(d, "obj_attr_type", c == 5 ? "2" : c == 7 ? "9" : "0");
  tt_attr(d, "obj_attr_oldvalue", "1");
  if (c != 4) tt_attr(d, "obj_attr_newvalue", "2");
  tt_backend_data(&vp_x_bd, root);
  struct hwloc__xml_import_state_s is; tt_nmap = 0; tt_state_at(&is, &vp_x_bd, root);
  hwloc_topology_diff_t got = (hwloc_topology_diff_t) 1;
  int r = hwloc__xml_import_diff(&is, &got);
  dc_runs++;
  VP_CHECK(r == 0 || r == -1, "import_diff returns 0 or -1");
  if (c == 2 || c == 8) VP_CHECK(r == -1, "an unknown attribute or element is refused");
  else {
    VP_CHECK(r == 0, "a diff element with missing or unknown optional parts is consumed");
    if (c == 0 || c == 7) VP_CHECK(got && !got->generic.next && got->obj_attr.obj_depth == 1 && got->obj_attr.diff.generic.type == (c == 0 ? HWLOC_TOPOLOGY_DIFF_OBJ_ATTR_SIZE : 9), "a complete entry is imported");
    else VP_CHECK(got == NULL, "an incomplete entry, or an entry of another kind, adds nothing");
    if (c == 0 && got) VP_CHECK(got->obj_attr.diff.uint64.oldvalue == 1 && got->obj_attr.diff.uint64.newvalue == 2, "values as written");
    /* whatever was imported can be destroyed */
    if (got) hwloc_topology_diff_destroy(got);
  }
}
VP_HARNESS(h_import_diff)
{
  int c = (int) vp_in_range(0, 8);
  for (int v = 0; v <= 8; v++) if (c == v) diff_case(v);
  VP_WITNESS_IF(dc_runs == 1, "a case executed");
}

/* ---- C12: the copy made by hwloc_topology_dup exports the identical document; both topologies can then be destroyed in either order ------------ */
#ifdef VP_CBMC
void hwloc__topology_disadopt(hwloc_topology_t t) { (void) t; }
void hwloc_backends_disable_all(struct hwloc_topology *t) { t->backends = NULL; }
void hwloc_topology_components_fini(struct hwloc_topology *t) { (void) t; }
void hwloc_topology_components_init(struct hwloc_topology *t) { (void) t; }
void hwloc_set_binding_hooks(struct hwloc_topology *t) { (void) t; }
#endif
#ifndef DESTROY_ORDER
#define DESTROY_ORDER 0
#endif
VP_HARNESS(h_xml_dup_export)
{
  struct hwloc_topology *A = vp_seed_build(100, 0);
  struct vp_seed SA = vp_seed;
#if WITH_DIST
  { hwloc_obj_t objs[2] = { SA.numa[0], SA.numa[1] }; hwloc_uint64_t vals[4] = { 10, 20, 21, 10 };
    hwloc_distances_add_handle_t h = hwloc_distances_add_create(A, "NUMALatency", HWLOC_DISTANCES_KIND_FROM_OS | HWLOC_DISTANCES_KIND_VALUE_LATENCY, 0);
    VP_ASSUME(h != NULL); int r = hwloc_distances_add_values(A, h, 2, objs, vals, 0); VP_ASSUME(r == 0); r = hwloc_distances_add_commit(A, h, 0); VP_ASSUME(r == 0); }
#endif
#if WITH_CPUKINDS
  { struct hwloc_infos_s inf; inf.array = NULL; inf.count = inf.allocated = 0; hwloc__add_info(&inf, "CoreType", "big");
    hwloc_bitmap_t c0 = vp_bm(0x03), c1 = vp_bm(0x24);
    int r = hwloc_cpukinds_register(A, c0, 3, &inf, 0); VP_ASSUME(r == 0); r = hwloc_cpukinds_register(A, c1, 7, NULL, 0); VP_ASSUME(r == 0); }
#endif
  vp_x_after_load(A);
  for (unsigned i = 0; i < SA.nobj && i < VP_SEED_MAXOBJ; i++) SA.obj[i]->userdata = (void *) (0x3000 + i);
  struct hwloc_topology *B = NULL;
  int r = hwloc_topology_dup(&B, A);
  VP_CHECK(r == 0 && B != NULL && B != A, "dup succeeds");
  if (r) return;
  hwloc_topology_refresh(B);      /* the copy's object caches are invalid by design: what the documentation asks for before concurrent reads */
  cmp_topology(A, B, 0);
  VP_CHECK(B->levels[0][0]->userdata == A->levels[0][0]->userdata && B->levels[B->nb_levels - 1][0]->userdata == A->levels[A->nb_levels - 1][0]->userdata, "dup: object userdata pointers copied verbatim");
  struct tt_elem *XA = tt_export_topology(A, 0), *XB = tt_export_topology(B, 0);
  VP_CHECK(!tt_overflow, "harness: element tree capacities suffice");
#ifndef VP_CBMC
  if (!tt_equal(XA, XB)) tt_diff(XA, XB, 0);
#endif
  VP_CHECK(tt_equal(XA, XB), "dup: the copy exports the identical XML document");
  /* no mutable storage is shared: both can be destroyed in any order (a block shared by the two would be freed twice) */
#if DESTROY_ORDER == 0
  hwloc_topology_destroy(A); hwloc_topology_destroy(B);
#else
  hwloc_topology_destroy(B); hwloc_topology_destroy(A);
#endif
  VP_WITNESS("dup, compare, export twice, destroy both");
}

/* ---- C06: "when load fails the topology can be configured and loaded again": the REAL hwloc_topology_load around a refused document ------------ */
#ifdef VP_CBMC
void hwloc_disc_components_enable_others(struct hwloc_topology *t) { (void) t; }
void hwloc_backends_is_thissystem(struct hwloc_topology *t) { (void) t; }
void hwloc_backends_find_callbacks(struct hwloc_topology *t) { (void) t; }
void hwloc_internal_distances_prepare(struct hwloc_topology *t) { t->grouping = 0; }
#endif
static struct tt_elem *small_doc(int valid)
{
  struct tt_elem *X = tt_new("topology"); tt_attr(X, "version", "3.0");
  struct tt_elem *M = tt_child(X, "object"); tt_attr(M, "type", valid ? "Machine" : "Bogus"); tt_attr(M, "os_index", "0");
  tt_attr(M, "cpuset", "0x00000001"); tt_attr(M, "complete_cpuset", "0x00000001"); tt_attr(M, "allowed_cpuset", "0x00000001");
  tt_attr(M, "nodeset", "0x00000001"); tt_attr(M, "complete_nodeset", "0x00000001"); tt_attr(M, "allowed_nodeset", "0x00000001"); tt_attr(M, "gp_index", "1");
  struct tt_elem *N = doc_obj(M, "NUMANode", "0", "0x00000001", "0x00000001", "2"); tt_attr(N, "local_memory", "4096");
  doc_obj(M, "PU", "0", "0x00000001", "0x00000001", "3");
  return X;
}
VP_HARNESS(h_load_failure)
{
  tt_backend_data(&vp_x_bd, small_doc(0));
  vp_seed_prepare_only = 1;
  struct hwloc_topology *t = vp_seed_build(200, 0);
  vp_seed_prepare_only = 0;
  int r = hwloc_topology_load(t);
  VP_CHECK(r == -1, "a refused document makes hwloc_topology_load fail");
  VP_CHECK((t->state & HWLOC_TOPOLOGY_STATE_IS_INIT) && !(t->state & (HWLOC_TOPOLOGY_STATE_IS_LOADING | HWLOC_TOPOLOGY_STATE_IS_LOADED)), "after a failed load the topology is back in its initial state");
  VP_CHECK(t->nb_levels == 1 && t->levels[0][0]->type == HWLOC_OBJ_MACHINE && !t->levels[0][0]->first_child && !t->backends, "after a failed load the topology holds its defaults and no backend");
  errno = 0;
  VP_CHECK(hwloc_topology_set_flags(t, HWLOC_TOPOLOGY_FLAG_INCLUDE_DISALLOWED) == 0 && hwloc_topology_set_type_filter(t, HWLOC_OBJ_MISC, HWLOC_TYPE_FILTER_KEEP_ALL) == 0, "after a failed load the topology can be configured again");
  /* ... and loaded again, this time from a valid document */
  tt_backend_data(&vp_x_bd, small_doc(1));
  vp_be.topology = t; t->backends = &vp_be; t->backend_phases = HWLOC_DISC_PHASE_GLOBAL; vp_be.next = NULL;
  r = hwloc_topology_load(t);
  VP_CHECK(r == 0 && (t->state & HWLOC_TOPOLOGY_STATE_IS_LOADED), "after a failed load the topology can be loaded again");
  if (r == 0) vp_wf_check(t, HWLOC_TOPOLOGY_FLAG_INCLUDE_DISALLOWED);
  VP_WITNESS("load failed, reconfigured, loaded again");
}
