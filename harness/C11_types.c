/* C11 — object type strings parse back; obj/attr snprintf obey the length contract; compare_types algebra.
 * Real code: hwloc/traversal.c (textually included: hwloc__type_match and the osdev helpers are static),
 * hwloc/misc.c (hwloc_snprintf), hwloc_compare_types & kind predicates from hwloc/topology.c (linked).
 */
#include "vp.h"
#include "hwloc/traversal.c"

#ifndef L
#define L 6
#endif
#ifndef BUFSZ
#define BUFSZ 96
#endif
#ifndef GROUPMAX
#define GROUPMAX 999
#endif
#ifndef OSDEVMASK
#define OSDEVMASK 0x7fUL
#endif

/* ---- hwloc_type_sscanf on an arbitrary NUL-terminated string in an exactly sized object ------------- */
VP_HARNESS(h_sscanf_safe)
{
  char *s = malloc(L + 1);
  VP_NONNULL(s);
  for (unsigned i = 0; i < L; i++) s[i] = (char) vp_in_byte();
  s[L] = 0;
  hwloc_obj_type_t type = (hwloc_obj_type_t) 77;
  union hwloc_obj_attr_u attr;
  memset(&attr, 0x5a, sizeof attr);
  int with_attr = vp_in_bool();
  size_t attrsize = with_attr ? (size_t) vp_in_range(0, sizeof attr) : 0;
  VP_SYMBOLIC_PHASE(1);
  int r = hwloc_type_sscanf(s, &type, with_attr ? &attr : NULL, attrsize);
  VP_CHECK(r == 0 || r == -1, "type_sscanf returns 0 or -1");
  if (r == 0) {
    VP_CHECK((int) type >= HWLOC_OBJ_TYPE_MIN && (int) type < HWLOC_OBJ_TYPE_MAX, "type_sscanf: a valid type on success");
    if (with_attr && attrsize == sizeof attr) {
      if (hwloc__obj_type_is_cache(type)) {
        VP_CHECK(attr.cache.depth >= 1 && attr.cache.depth <= 5, "type_sscanf: cache depth in 1..5");
        VP_CHECK(hwloc_cache_type_by_depth_type(attr.cache.depth, attr.cache.type) == type, "type_sscanf: cache depth/type attributes agree with the returned type");
      }
      if (type == HWLOC_OBJ_BRIDGE) VP_CHECK(attr.bridge.downstream_type == HWLOC_OBJ_BRIDGE_PCI, "type_sscanf: bridge downstream is PCI");
      if (type == HWLOC_OBJ_OS_DEVICE) VP_CHECK((attr.osdev.types & ~0x7fUL) == 0, "type_sscanf: only defined OS-device type bits");
    }
  } else VP_CHECK((int) type == 77, "type_sscanf: type untouched on failure");
  for (unsigned i = 0; i < L; i++) (void) s[i];
  VP_WITNESS_IF(r == 0 && type == HWLOC_OBJ_L2ICACHE, "an instruction cache spelling accepted");
  VP_WITNESS_IF(r == 0 && type == HWLOC_OBJ_OS_DEVICE && with_attr && attrsize == sizeof attr && attr.osdev.types == HWLOC_OBJ_OSDEV_GPU, "an OS-device type spelling accepted with its type bit");
  VP_WITNESS_IF(r == -1 && (s[0] == 'c' || s[0] == 'C'), "a near miss rejected");
}

/* ---- print -> parse identity for symbolic attributes -------------------------------------------------- */
static void mk_obj(struct hwloc_obj *o, union hwloc_obj_attr_u *a)
{
  memset(o, 0, sizeof *o); memset(a, 0, sizeof *a);
  o->attr = a;
#ifdef TYPE
  /* exhaustive case split over the 20 object types: one query per type, all must pass
   * (a C constant, not an assumption: symex does not propagate assumed equalities) */
  o->type = (hwloc_obj_type_t) TYPE;
#else
  o->type = (hwloc_obj_type_t) vp_in_range(HWLOC_OBJ_TYPE_MIN, HWLOC_OBJ_TYPE_MAX - 1);
#endif
#ifdef KIND
  /* exhaustive case split over the five attribute kinds (every kind is its own query, all must pass) */
  { int k = hwloc__obj_type_is_cache(o->type) ? 1 : o->type == HWLOC_OBJ_GROUP ? 2 : o->type == HWLOC_OBJ_BRIDGE ? 3 : o->type == HWLOC_OBJ_OS_DEVICE ? 4 : 0;
    VP_ASSUME(k == KIND); }
#endif
  if (hwloc__obj_type_is_cache(o->type)) {
    /* attributes match the object type, as C01 guarantees for loaded topologies */
    if (hwloc__obj_type_is_icache(o->type)) { a->cache.depth = o->type - HWLOC_OBJ_L1ICACHE + 1; a->cache.type = HWLOC_OBJ_CACHE_INSTRUCTION; }
    else { a->cache.depth = o->type - HWLOC_OBJ_L1CACHE + 1; a->cache.type = vp_in_bool() ? HWLOC_OBJ_CACHE_DATA : HWLOC_OBJ_CACHE_UNIFIED; }
    a->cache.size = vp_in64(); a->cache.linesize = vp_in_uint(); a->cache.associativity = vp_in_int();
  } else if (o->type == HWLOC_OBJ_GROUP) {
    a->group.depth = vp_in_uint();
    VP_ASSUME(a->group.depth <= GROUPMAX || a->group.depth == (unsigned) -1);
  } else if (o->type == HWLOC_OBJ_BRIDGE) {
    a->bridge.upstream_type = vp_in_bool() ? HWLOC_OBJ_BRIDGE_PCI : HWLOC_OBJ_BRIDGE_HOST;
    a->bridge.downstream_type = HWLOC_OBJ_BRIDGE_PCI;
  } else if (o->type == HWLOC_OBJ_OS_DEVICE) {
    a->osdev.types = vp_in64();
    VP_ASSUME((a->osdev.types & ~OSDEVMASK) == 0);
  }
}
VP_HARNESS(h_roundtrip)
{
  struct hwloc_obj o; union hwloc_obj_attr_u a, pa;
  mk_obj(&o, &a);
  unsigned long flags = vp_in64();
  VP_ASSUME(!(flags & HWLOC_OBJ_SNPRINTF_FLAG_SHORT_NAMES));
  char *buf = malloc(BUFSZ);
  VP_NONNULL(buf);
  VP_SYMBOLIC_PHASE(1);
  int n = hwloc_obj_type_snprintf(buf, BUFSZ, &o, flags);
  VP_CHECK(n > 0 && n < BUFSZ && buf[n] == 0, "type_snprintf: a non-empty NUL-terminated text that fits the (type-specific) buffer");
  hwloc_obj_type_t pt = (hwloc_obj_type_t) -1;
  memset(&pa, 0, sizeof pa);
  int r = hwloc_type_sscanf(buf, &pt, &pa, sizeof pa);
  VP_CHECK(r == 0, "type_sscanf accepts what type_snprintf printed");
  VP_CHECK(pt == o.type, "round trip: same type");
  if (hwloc__obj_type_is_cache(o.type)) VP_CHECK(pa.cache.depth == a.cache.depth && (pa.cache.type == a.cache.type), "round trip: cache depth and type");
  if (o.type == HWLOC_OBJ_GROUP) VP_CHECK(pa.group.depth == a.group.depth, "round trip: group depth");
  if (o.type == HWLOC_OBJ_BRIDGE) VP_CHECK(pa.bridge.upstream_type == a.bridge.upstream_type, "round trip: bridge upstream type");
  if (o.type == HWLOC_OBJ_OS_DEVICE) VP_CHECK(pa.osdev.types == a.osdev.types, "round trip: OS-device type set");
  /* hwloc_obj_type_string of the type parses back to the type as well */
  hwloc_obj_type_t pt2 = (hwloc_obj_type_t) -1;
  VP_CHECK(hwloc_type_sscanf(hwloc_obj_type_string(o.type), &pt2, NULL, 0) == 0 && pt2 == o.type, "type_string parses back to the type");
#ifdef TYPE
  VP_WITNESS_IF(flags & HWLOC_OBJ_SNPRINTF_FLAG_LONG_NAMES, "long names requested");
#else
#if !defined(KIND) || KIND == 4
  VP_WITNESS_IF(o.type == HWLOC_OBJ_OS_DEVICE && a.osdev.types == 0x41 && (flags & HWLOC_OBJ_SNPRINTF_FLAG_LONG_NAMES), "an OS device with two types, long names");
#endif
#if !defined(KIND) || KIND == 2
  VP_WITNESS_IF(o.type == HWLOC_OBJ_GROUP && a.group.depth == 12, "a group with a depth");
#endif
#endif
#if defined(KIND) && KIND == 0
  VP_WITNESS_IF(o.type == HWLOC_OBJ_NUMANODE, "a NUMA node");
#endif
#if defined(KIND) && KIND == 1
  VP_WITNESS_IF(o.type == HWLOC_OBJ_L3ICACHE, "an instruction cache");
#endif
#if defined(KIND) && KIND == 3
  VP_WITNESS_IF(a.bridge.upstream_type == HWLOC_OBJ_BRIDGE_HOST, "a host bridge");
#endif
}

/* ---- snprintf length contract of hwloc_obj_type_snprintf for every buffer size ------------------------- */
#define CAP 48
VP_HARNESS(h_type_cursor)
{
  struct hwloc_obj o; union hwloc_obj_attr_u a;
  mk_obj(&o, &a);
  unsigned long flags = vp_in64();
  char *full = malloc(CAP), *buf = malloc(CAP);
  VP_NONNULL(full); VP_NONNULL(buf);
  size_t size = (size_t) vp_in_range(0, CAP);
  unsigned char canary = vp_in_byte();
  for (unsigned i = 0; i < CAP; i++) buf[i] = (char) canary;
  VP_SYMBOLIC_PHASE(1);
  int n = hwloc_obj_type_snprintf(full, CAP, &o, flags);
  VP_ASSUME(n >= 0 && n < CAP);          /* texts longer than CAP-1 are outside this harness (none exists for defined types) */
  int m = hwloc_obj_type_snprintf(size ? buf : NULL, size, &o, flags);
  VP_CHECK(m == n, "type_snprintf returns the untruncated length whatever the size");
  for (unsigned i = 0; i < CAP; i++) if (i >= size) VP_CHECK(buf[i] == (char) canary, "type_snprintf never writes at or beyond size");
  if (size > 0) {
    size_t end = (size_t) n < size - 1 ? (size_t) n : size - 1;
    VP_CHECK(buf[end] == 0, "type_snprintf NUL-terminates when size > 0");
    for (unsigned i = 0; i < CAP; i++) if (i < end) VP_CHECK(buf[i] == full[i], "the truncated text is a prefix of the full text");
  }
#if !defined(KIND) || KIND == 4
  VP_WITNESS_IF(o.type == HWLOC_OBJ_OS_DEVICE && n > 12 && size > 3 && size < (size_t) n, "a truncated multi-type OS device name");
#else
  VP_WITNESS_IF(n >= 2 && size == 2, "a truncated name");
#endif
  VP_WITNESS_IF(size == 0, "NULL buffer with size 0");
}

/* ---- termination of the printers on ANY OS-device type word (XML can provide any) ----------------------- */
VP_HARNESS(h_osdev_print_terminates)
{
  struct hwloc_obj o; union hwloc_obj_attr_u a;
  memset(&o, 0, sizeof o); memset(&a, 0, sizeof a);
  o.attr = &a; o.type = HWLOC_OBJ_OS_DEVICE;
  a.osdev.types = vp_in64();
  unsigned long flags = vp_in64();
  char *buf = malloc(96);
  VP_NONNULL(buf);
  VP_SYMBOLIC_PHASE(1);
  int n = hwloc_obj_type_snprintf(buf, 96, &o, flags);
  VP_CHECK(n > 0 && n < 96, "type_snprintf terminates with a bounded text on any OS-device type word");
  VP_WITNESS_IF((a.osdev.types & ~0x7fUL) && (a.osdev.types & 1), "a type word with unknown bits");
}

/* ---- hwloc_compare_types and the kind predicates ---------------------------------------------------------- */
static int sgn(int x) { return x < 0 ? -1 : x > 0; }
VP_HARNESS(h_types)
{
  hwloc_obj_type_t a = (hwloc_obj_type_t) vp_in_range(HWLOC_OBJ_TYPE_MIN, HWLOC_OBJ_TYPE_MAX - 1);
  hwloc_obj_type_t b = (hwloc_obj_type_t) vp_in_range(HWLOC_OBJ_TYPE_MIN, HWLOC_OBJ_TYPE_MAX - 1);
  hwloc_obj_type_t c = (hwloc_obj_type_t) vp_in_range(HWLOC_OBJ_TYPE_MIN, HWLOC_OBJ_TYPE_MAX - 1);
  int ab = hwloc_compare_types(a, b), ba = hwloc_compare_types(b, a);
  int na = hwloc_obj_type_is_normal(a), nb = hwloc_obj_type_is_normal(b);
  VP_CHECK(!!na + !!hwloc_obj_type_is_memory(a) + !!hwloc_obj_type_is_io(a) + (a == HWLOC_OBJ_MISC) == 1, "exactly one of normal/memory/io/misc holds for each type");
  VP_CHECK((ab == HWLOC_TYPE_UNORDERED) == (ba == HWLOC_TYPE_UNORDERED), "compare_types: unordered is symmetric");
  if (ab != HWLOC_TYPE_UNORDERED) VP_CHECK(sgn(ab) == -sgn(ba), "compare_types: antisymmetric");
  if (a == b) VP_CHECK(ab == 0, "compare_types: reflexive");
  int expect_unordered = (na != nb) && a != HWLOC_OBJ_MACHINE && b != HWLOC_OBJ_MACHINE;
  VP_CHECK((ab == HWLOC_TYPE_UNORDERED) == expect_unordered, "compare_types: unordered exactly for normal vs non-normal types, Machine excepted");
  if (a == HWLOC_OBJ_MACHINE && b != HWLOC_OBJ_MACHINE) VP_CHECK(ab < 0 && ab != HWLOC_TYPE_UNORDERED, "compare_types: Machine is the highest type");
  if (a == HWLOC_OBJ_PU && nb && b != HWLOC_OBJ_PU) VP_CHECK(ab > 0 && ab != HWLOC_TYPE_UNORDERED, "compare_types: PU is the deepest normal type");
  if (na && nb && hwloc_obj_type_is_normal(c)) {
    int bc = hwloc_compare_types(b, c), ac = hwloc_compare_types(a, c);
    if (ab <= 0 && bc <= 0) VP_CHECK(ac <= 0, "compare_types: transitive on normal types");
    if (ab == 0 && a != b) VP_CHECK(0, "compare_types: distinct normal types are strictly ordered");
  }
  VP_CHECK(hwloc_obj_type_is_cache(a) == (hwloc_obj_type_is_dcache(a) || hwloc_obj_type_is_icache(a)), "cache = data/unified cache or instruction cache");
  if (hwloc_obj_type_is_cache(a)) VP_CHECK(na, "caches are normal objects");
  VP_WITNESS_IF(ab == HWLOC_TYPE_UNORDERED && a == HWLOC_OBJ_NUMANODE, "an unordered pair");
  VP_WITNESS_IF(a == HWLOC_OBJ_MACHINE && b == HWLOC_OBJ_OS_DEVICE, "Machine against an I/O type");
}
