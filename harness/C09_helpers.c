/* C09 — traversal and locality helpers agree with their set-theoretic definitions.
 * Shape: a seed topology built and connected by the real core (vp_seed.h); queries symbolic.
 * Every oracle is a brute-force loop over ALL objects of the seed written with word arithmetic.
 */
#ifndef SEED
#define SEED 1
#endif
#include "vp_seed.h"


#define QBITS 8   /* query sets range over bits 0..7: PUs are 0,1,2,5; 3,4,6,7 belong to nobody */

static struct hwloc_topology *T;
/* concrete object table, filled before the symbolic phase: the oracles index these constant arrays */
#define MAXO 12
static unsigned NO; static hwloc_obj_t O[MAXO]; static unsigned long OC[MAXO], ONS[MAXO]; static int OD[MAXO], OT[MAXO], OPAR[MAXO]; static unsigned OL[MAXO];
static int CAD[MAXO][MAXO];   /* depth of the deepest common ancestor-or-self, by parent chains */
static int ANC[MAXO][MAXO];   /* ANC[a][o]: a is an ancestor-or-self of o */
static void build_table(void)
{
  NO = 0;
  for (unsigned d = 0; d < T->nb_levels; d++) for (unsigned k = 0; k < T->level_nbobjects[d]; k++) {
    hwloc_obj_t o = T->levels[d][k]; O[NO] = o; OC[NO] = vp_w(o->cpuset); ONS[NO] = vp_w(o->nodeset); OD[NO] = (int) d; OT[NO] = (int) o->type; OL[NO] = k; NO++; }
  for (unsigned i = 0; i < NO; i++) { OPAR[i] = -1; for (unsigned j = 0; j < NO; j++) if (O[i]->parent == O[j]) OPAR[i] = (int) j; }
  for (unsigned a = 0; a < NO; a++) for (unsigned o = 0; o < NO; o++) { int x = (int) o, hit = 0; for (unsigned s_ = 0; s_ < 8 && x >= 0; s_++, x = OPAR[x]) if (x == (int) a) hit = 1; ANC[a][o] = hit; }
  for (unsigned i = 0; i < NO; i++) for (unsigned j = 0; j < NO; j++) { int best = -1; for (unsigned a = 0; a < NO; a++) if (ANC[a][i] && ANC[a][j] && OD[a] > best) best = OD[a]; CAD[i][j] = best; }
}
static unsigned idx_of(hwloc_obj_t o) { unsigned r = MAXO; for (unsigned i = 0; i < MAXO; i++) if (i < NO && O[i] == o) r = i; return r; }
static unsigned in_idx(void) { unsigned i = (unsigned) vp_in_range(0, MAXO - 1); VP_ASSUME(i < NO); return i; }
#define FOR_NORMAL(o) for (unsigned d_ = 0; d_ < T->nb_levels; d_++) for (unsigned k_ = 0; k_ < T->level_nbobjects[d_]; k_++) { hwloc_obj_t o = T->levels[d_][k_];
#define END_FOR }

static hwloc_bitmap_t in_set(unsigned long *wp, int *infp)
{
  unsigned long q = vp_in64(); int inf = vp_in_bool();
  VP_ASSUME(q < (1UL << QBITS));
  hwloc_bitmap_t b = vp_bm(q);
  if (inf) hwloc_bitmap_set_range(b, 64, -1);
  *wp = q; *infp = inf;
  return b;
}
static hwloc_obj_t in_normal_obj(void)
{
  unsigned d = (unsigned) vp_in_range(0, 7), k = (unsigned) vp_in_range(0, 7);
  VP_ASSUME(d < T->nb_levels && k < T->level_nbobjects[d]);
  return T->levels[d][k];
}
static int is_anc(hwloc_obj_t a, hwloc_obj_t o) { for (unsigned i = 0; i < 8 && o; i++, o = o->parent) if (o == a) return 1; return 0; }

/* ---- covering ------------------------------------------------------------------------------- */
VP_HARNESS(h_covering)
{
  T = vp_seed_build(SEED, 0); build_table();
  unsigned long q; int inf; hwloc_bitmap_t set = in_set(&q, &inf);
  VP_SYMBOLIC_PHASE(1);
  hwloc_obj_t o = hwloc_get_obj_covering_cpuset(T, set);
  if ((q == 0 && !inf) || inf || (q & ~vp_seed.cpus)) VP_CHECK(o == NULL, "covering: NULL for an empty set or a set not included in the root");
  else {
    VP_CHECK(o != NULL, "covering: an object exists for every non-empty subset of the root");
    VP_CHECK((q & ~vp_w(o->cpuset)) == 0, "covering: the object's cpuset includes the set");
    FOR_NORMAL(c) if ((q & ~vp_w(c->cpuset)) == 0) VP_CHECK(c->depth <= o->depth, "covering: no deeper object includes the set"); END_FOR
  }
  /* child covering, from a symbolic parent */
  hwloc_obj_t p = in_normal_obj();
  hwloc_obj_t c = hwloc_get_child_covering_cpuset(T, set, p);
  int exists = 0;
  for (hwloc_obj_t x = p->first_child; x; x = x->next_sibling) if (!(q == 0 && !inf) && !inf && (q & ~vp_w(x->cpuset)) == 0) { if (!exists) VP_CHECK(c == x, "child covering: first child including the set"); exists = 1; }
  if (!exists) VP_CHECK(c == NULL, "child covering: NULL when no child includes the set");
  VP_WITNESS_IF(o && o->type == HWLOC_OBJ_PACKAGE && c && c->type == HWLOC_OBJ_PACKAGE, "a package covers the set");
  VP_WITNESS_IF(o && o->type == HWLOC_OBJ_MACHINE && q == (SEED == 12 ? 0x06 : 0x21), "only the machine covers PUs of both packages");
}

/* ---- largest objects inside -------------------------------------------------------------------- */
VP_HARNESS(h_largest)
{
  T = vp_seed_build(SEED, 0); build_table();
  unsigned long q; int inf; hwloc_bitmap_t set = in_set(&q, &inf);
  hwloc_obj_t objs[6]; int max = (int) vp_in_range(0, 7) - 1;
  for (int i = 0; i < 6; i++) objs[i] = NULL;
  VP_ASSUME(max <= 6);
  VP_SYMBOLIC_PHASE(1);
  int r = hwloc_get_largest_objs_inside_cpuset(T, set, objs, max);
  if (inf || (q & ~vp_seed.cpus)) VP_CHECK(r == -1, "largest: -1 when the set is not included in the root");
  else if (max <= 0) VP_CHECK(r == 0 || r == -1, "largest: nothing stored without room");
  else {
    VP_CHECK(r >= 0 && r <= max, "largest: at most max objects");
    unsigned long u = 0;
    for (int k = 0; k < 6; k++) if (k < r) {
      VP_CHECK(objs[k] != NULL, "largest: stored objects are not NULL");
      unsigned long w = vp_w(objs[k]->cpuset);
      VP_CHECK(w && !(w & u) && !(w & ~q), "largest: objects are non-empty, pairwise disjoint and inside the set");
      u |= w;
      if (objs[k]->parent) VP_CHECK(vp_w(objs[k]->parent->cpuset) & ~q, "largest: each object is maximal (its parent is not inside the set)");
    }
    if (max >= 4) VP_CHECK(u == q, "largest: the objects cover exactly the set when max suffices");
    if (q == 0) VP_CHECK(r == 0, "largest: empty set gives no object");
  }
  VP_WITNESS_IF(r == 2 && q == (SEED == 12 ? 0x0c : 0x23), "a package and one PU of the other");
  VP_WITNESS_IF(r == 1 && objs[0]->type == HWLOC_OBJ_MACHINE, "the whole machine");
}

/* ---- inside / covering iterators by depth ------------------------------------------------------- */
static int iter_w;
static void iterators_case(int depth, hwloc_bitmap_t set, unsigned long q, unsigned idx)
{
  /* brute force over the constant table: k-th object of the level (logical order) that is included in / intersects the set */
  unsigned ni = 0, nc = 0; int ein[5], eco[5];
  for (unsigned k = 0; k < 5; k++) ein[k] = eco[k] = -1;
  for (unsigned i = 0; i < MAXO; i++) if (i < NO && OD[i] == depth) {
    if (OC[i] && !(OC[i] & ~q)) { for (unsigned k = 0; k < 5; k++) if (k == ni) ein[k] = (int) i; ni++; }
    if (OC[i] & q) { for (unsigned k = 0; k < 5; k++) if (k == nc) eco[k] = (int) i; nc++; }
  }
  VP_CHECK(hwloc_get_nbobjs_inside_cpuset_by_depth(T, set, depth) == ni, "nbobjs_inside: number of non-empty objects of the level included in the set");
  hwloc_obj_t o = hwloc_get_obj_inside_cpuset_by_depth(T, set, depth, idx);
  VP_CHECK(o == ((idx < 5 && ein[idx < 5 ? idx : 0] >= 0) ? O[ein[idx < 5 ? idx : 0]] : NULL), "obj_inside: idx-th included object in logical order, NULL beyond");
  hwloc_obj_t prev = NULL;
  for (unsigned k = 0; k < 5; k++) {
    hwloc_obj_t n = hwloc_get_next_obj_inside_cpuset_by_depth(T, set, depth, prev);
    VP_CHECK(n == (ein[k] >= 0 ? O[ein[k]] : NULL), "next_obj_inside: enumerates exactly the included objects in logical order");
    if (!n) break;
    prev = n;
  }
  prev = NULL;
  for (unsigned k = 0; k < 5; k++) {
    hwloc_obj_t n = hwloc_get_next_obj_covering_cpuset_by_depth(T, set, depth, prev);
    VP_CHECK(n == (eco[k] >= 0 ? O[eco[k]] : NULL), "next_obj_covering: enumerates exactly the intersecting objects in logical order");
    if (!n) break;
    prev = n;
  }
  if (ni == 1 && nc == 2) iter_w = 1;
}
VP_HARNESS(h_iterators)
{
  T = vp_seed_build(SEED, 0); build_table();
  unsigned long q; int inf; hwloc_bitmap_t set = in_set(&q, &inf);
  int depth = (int) vp_in_range(0, 9) - 2; unsigned idx = (unsigned) vp_in_range(0, 5);
  /* the depth is enumerated (concrete level arrays per run); set and index stay symbolic */
  for (int v = -2; v <= 7; v++) if (depth == v) iterators_case(v, set, q, idx);
#if SEED != 3
  VP_WITNESS_IF(iter_w, "one included and two intersecting objects on one level");
#else
  (void) iter_w; VP_WITNESS("iterators run on the single-PU seed");
#endif
}

/* ---- ancestors, subtree, type/depth lookups ------------------------------------------------------ */
VP_HARNESS(h_ancestors)
{
  T = vp_seed_build(SEED, 0); build_table();
  unsigned ia = in_idx(), ib = in_idx();
  hwloc_obj_t a = O[ia], b = O[ib];
  int depth = (int) vp_in_range(0, 9) - 2;
  VP_SYMBOLIC_PHASE(1);
  hwloc_obj_t ca = hwloc_get_common_ancestor_obj(T, a, b);
  unsigned ic = idx_of(ca);
  VP_CHECK(ic < MAXO && ANC[ic][ia] && ANC[ic][ib], "common ancestor: an ancestor-or-self of both");
  VP_CHECK(OD[ic] == CAD[ia][ib], "common ancestor: the deepest one");
  hwloc_obj_t an = hwloc_get_ancestor_obj_by_depth(T, depth, a);
  { int e = -1; for (unsigned x = 0; x < MAXO; x++) if (x < NO && ANC[x][ia] && OD[x] == depth) e = (int) x;
    if (e >= 0) VP_CHECK(an == O[e], "ancestor_by_depth: the ancestor-or-self at that depth");
    else if (an) { unsigned ix = idx_of(an); VP_CHECK(ix < MAXO && ANC[ix][ia] && OD[ix] < depth, "ancestor_by_depth: otherwise NULL or the closest ancestor above a skipped depth"); } }
  hwloc_obj_t at = hwloc_get_ancestor_obj_by_type(T, b->type, a);
  { int e = -1; for (unsigned x = 0; x < MAXO; x++) if (x < NO && x != ia && ANC[x][ia] && OT[x] == OT[ib] && (e < 0 || OD[x] > OD[e])) e = (int) x;
    VP_CHECK(at == (e >= 0 ? O[e] : NULL), "ancestor_by_type: the closest strict ancestor of that type or NULL"); }
  VP_CHECK(hwloc_obj_is_in_subtree(T, a, b) == ((OC[ia] & ~OC[ib]) == 0), "is_in_subtree: cpuset inclusion");
  if (ANC[ib][ia]) VP_CHECK(hwloc_obj_is_in_subtree(T, a, b), "is_in_subtree: true for descendants");
  int td = hwloc_get_type_depth(T, a->type);
  VP_CHECK(td == OD[ia] || td == HWLOC_TYPE_DEPTH_MULTIPLE, "type_depth: depth of the object's level (or MULTIPLE)");
  VP_CHECK((int) hwloc_get_depth_type(T, OD[ia]) == OT[ia], "depth_type inverts type_depth");
  VP_CHECK(hwloc_get_obj_by_depth(T, OD[ia], OL[ia]) == a, "obj_by_depth(depth, logical_index) is the object");
  { unsigned cnt = 0; for (unsigned x = 0; x < MAXO; x++) if (x < NO && OD[x] == depth) cnt++;
    if (depth >= 0) VP_CHECK(hwloc_get_nbobjs_by_depth(T, depth) == cnt, "nbobjs_by_depth: objects of the level, 0 beyond the last level"); }
  VP_WITNESS_IF(OT[ic] == HWLOC_OBJ_PACKAGE && ia != ib && OT[ia] == HWLOC_OBJ_PU && OT[ib] == HWLOC_OBJ_PU, "two PUs of one package");
  VP_WITNESS_IF(OT[ic] == HWLOC_OBJ_MACHINE && OD[ia] != OD[ib] && OD[ia] > 0 && OD[ib] > 0, "objects of different depths in different packages");
}

/* ---- closest objects --------------------------------------------------------------------------- */
static int closest_w3;
/* one query with a CONCRETE source object (index into the constant table), symbolic max */
static void closest_case(unsigned is, unsigned max)
{
  hwloc_obj_t src = O[is];
  hwloc_obj_t objs[5];
  for (unsigned i = 0; i < 5; i++) objs[i] = NULL;
  unsigned r = hwloc_get_closest_objs(T, src, objs, max);
  unsigned others = 0; for (unsigned x = 0; x < MAXO; x++) if (x < NO && x != is && OD[x] == OD[is]) others++;
  VP_CHECK(r == (others < max ? others : max), "closest: min(max, other objects of the level) are returned");
  int lastd = 1000; unsigned listed = 1U << is;
  for (unsigned i = 0; i < 5; i++) if (i < r) {
    unsigned io = idx_of(objs[i]);
    VP_CHECK(io < MAXO && io != is && OD[io] == OD[is], "closest: other objects of the same level");
    VP_CHECK(!(listed & (1U << io)), "closest: no duplicates");
    listed |= 1U << io;
    VP_CHECK(CAD[is][io] <= lastd, "closest: ordered by ancestor distance (deeper common ancestor first)");
    lastd = CAD[is][io];
  }
  if (r) for (unsigned x = 0; x < MAXO; x++) if (x < NO && OD[x] == OD[is] && !(listed & (1U << x)))
    VP_CHECK(CAD[is][x] <= lastd, "closest: every omitted object is at least as far as the last returned one");
  if (r == 3 && OT[is] == HWLOC_OBJ_PU) closest_w3 = 1;
}
#ifndef NSLICE
#define NSLICE 1
#endif
#ifndef SLICE
#define SLICE 0
#endif
/* common ancestor of ANY two objects of seed S2 (normal, memory incl. the CPU-less node, bridge/PCI/OS device, Misc): brute force over parent chains */
#define CA_MAX 20
static hwloc_obj_t CAO[CA_MAX]; static unsigned CAN;
static void ca_walk(hwloc_obj_t o)
{
  if (CAN < CA_MAX) CAO[CAN++] = o;
  for (hwloc_obj_t c = o->memory_first_child; c; c = c->next_sibling) ca_walk(c);
  for (hwloc_obj_t c = o->first_child; c; c = c->next_sibling) ca_walk(c);
  for (hwloc_obj_t c = o->io_first_child; c; c = c->next_sibling) ca_walk(c);
  for (hwloc_obj_t c = o->misc_first_child; c; c = c->next_sibling) ca_walk(c);
}
static unsigned ca_special;
static void ca_case(unsigned i, unsigned j)
{
  hwloc_obj_t a = CAO[i], b = CAO[j];
  hwloc_obj_t r = hwloc_get_common_ancestor_obj(T, a, b);
  /* the deepest object that is an ancestor-or-self of both: the first element of a's chain that is on b's chain */
  hwloc_obj_t e = NULL;
  for (hwloc_obj_t x = a; x && !e; x = x->parent) for (hwloc_obj_t y = b; y; y = y->parent) if (x == y) { e = x; break; }
  VP_CHECK(r == e && r != NULL, "common_ancestor: the deepest common ancestor of any two objects (never NULL)");
  if (a->depth < 0 || b->depth < 0) ca_special++;
}
VP_HARNESS(h_common_ancestor_any)
{
  T = vp_seed_build(2, 0);
  CAN = 0; ca_walk(T->levels[0][0]);
  VP_CHECK(CAN >= 12 && CAN < CA_MAX, "seed S2 walked");
  unsigned i = (unsigned) vp_in_range(0, CA_MAX - 1), j = (unsigned) vp_in_range(0, CA_MAX - 1), k = 0;
  for (unsigned x = 0; x < CA_MAX; x++) for (unsigned y = 0; y < CA_MAX; y++, k++) if (x < CAN && y < CAN && (k % NSLICE) == SLICE && i == x && j == y) ca_case(x, y);
  VP_WITNESS_IF(ca_special >= 1, "a pair with a memory, I/O or Misc object decided");
}
/* the source may be a memory object: NUMA nodes have a cpuset (what the documentation asks for) and live in a special level (negative depth) */
VP_HARNESS(h_closest_numa)
{
  T = vp_seed_build(1, 0);
  unsigned nn = T->slevels[HWLOC_SLEVEL_NUMANODE].nbobjs;
  VP_CHECK(nn == 2, "seed S1 has two NUMA nodes");
  unsigned is = (unsigned) vp_in_range(0, 1), max = (unsigned) vp_in_range(0, 3);
  int done = 0;
  for (unsigned v = 0; v < 2; v++) if (is == v && v < nn) {
    hwloc_obj_t src = T->slevels[HWLOC_SLEVEL_NUMANODE].objs[v], other = T->slevels[HWLOC_SLEVEL_NUMANODE].objs[1 - v];
    hwloc_obj_t objs[3] = { NULL, NULL, NULL };
    unsigned r = hwloc_get_closest_objs(T, src, objs, max);
    VP_CHECK(r == (max ? 1U : 0U), "closest(NUMA): min(max, other NUMA nodes) are returned");
    if (r) VP_CHECK(objs[0] == other, "closest(NUMA): the other NUMA node");
    done = 1;
  }
  VP_WITNESS_IF(done && max >= 1, "the closest NUMA node of a NUMA node asked for");
}
VP_HARNESS(h_closest)
{
  T = vp_seed_build(SEED, 0); build_table();
  unsigned is = in_idx(); unsigned max = (unsigned) vp_in_range(0, 5);
  /* the source object is enumerated: a pointer picked by a symbolic index makes every parent/cousin walk a many-way choice */
  for (unsigned v = 0; v < MAXO; v++) if (v < NO && is == v) closest_case(v, max);
  VP_WITNESS_IF(closest_w3, "three other PUs ordered");
}

/* ---- cpuset <-> nodeset, same locality, singlify per core ------------------------------------------ */
VP_HARNESS(h_nodeset_conv)
{
  T = vp_seed_build(SEED, 0); build_table();
  unsigned long q; int inf; hwloc_bitmap_t set = in_set(&q, &inf);
  hwloc_bitmap_t out = vp_bm(0x5555);
  VP_SYMBOLIC_PHASE(1);
  unsigned long en = 0, ec = 0;
  for (unsigned k = 0; k < T->slevels[HWLOC_SLEVEL_NUMANODE].nbobjs; k++) {
    hwloc_obj_t n = T->slevels[HWLOC_SLEVEL_NUMANODE].objs[k];
    if (vp_w(n->cpuset) & q) en |= 1UL << n->os_index;
    if (q & (1UL << n->os_index)) ec |= vp_w(n->cpuset);
  }
  VP_CHECK(hwloc_cpuset_to_nodeset(T, set, out) == 0, "cpuset_to_nodeset returns 0");
  VP_CHECK(vp_w(out) == en && hwloc_bitmap_weight(out) >= 0, "cpuset_to_nodeset: exactly the NUMA nodes whose cpuset intersects the set");
  VP_CHECK(hwloc_cpuset_from_nodeset(T, out, set) == 0, "cpuset_from_nodeset returns 0");
  VP_CHECK(vp_w(out) == ec && hwloc_bitmap_weight(out) >= 0, "cpuset_from_nodeset: union of the cpusets of the NUMA nodes in the set");
  VP_WITNESS_IF(en && ec && en != ec, "both conversions produce something");
}

VP_HARNESS(h_same_locality)
{
  T = vp_seed_build(SEED, 0); build_table();
  /* NUMA nodes are appended to the table for this harness */
  for (unsigned k = 0; k < T->slevels[HWLOC_SLEVEL_NUMANODE].nbobjs && NO < MAXO; k++) { hwloc_obj_t n = T->slevels[HWLOC_SLEVEL_NUMANODE].objs[k]; O[NO] = n; OC[NO] = vp_w(n->cpuset); ONS[NO] = vp_w(n->nodeset); OD[NO] = -3; OT[NO] = (int) n->type; NO++; }
  unsigned is = in_idx(); hwloc_obj_t src = O[is];
  int type = (int) vp_in_range(0, HWLOC_OBJ_TYPE_MAX);
  unsigned long flags = vp_in64();
  VP_SYMBOLIC_PHASE(1);
  errno = 0;
  hwloc_obj_t r = hwloc_get_obj_with_same_locality(T, src, (hwloc_obj_type_t) type, NULL, NULL, flags);
  int exists = 0; for (unsigned x = 0; x < MAXO; x++) if (x < NO && OT[x] == type && OC[x] == OC[is] && ONS[x] == ONS[is]) exists = 1;
  if (flags) VP_CHECK(r == NULL && errno == EINVAL, "same_locality: non-zero flags -> EINVAL");
  else if (r) { unsigned ir = idx_of(r);
    VP_CHECK(ir < MAXO && OT[ir] == type && OC[ir] == OC[is] && ONS[ir] == ONS[is], "same_locality: an object of the requested type with equal cpuset and nodeset"); }
  else VP_CHECK(!exists, "same_locality: NULL only when no object of that type has equal sets");
#if SEED != 3
  VP_WITNESS_IF(r && OT[is] == HWLOC_OBJ_NUMANODE && r->type == HWLOC_OBJ_PACKAGE, "NUMA node -> package");
  VP_WITNESS_IF(r && OT[is] == HWLOC_OBJ_PACKAGE && r->type == HWLOC_OBJ_NUMANODE, "package -> NUMA node");
#else
  VP_WITNESS_IF(r && OT[is] == HWLOC_OBJ_NUMANODE && r->type == HWLOC_OBJ_MACHINE, "NUMA node -> machine");
#endif
}

VP_HARNESS(h_singlify_per_core)
{
  T = vp_seed_build(SEED, 0); build_table();
  unsigned long q; int inf; hwloc_bitmap_t set = in_set(&q, &inf);
  unsigned which = (unsigned) vp_in_range(0, 3);
  VP_ASSUME(!inf);
  VP_SYMBOLIC_PHASE(1);
  int r = hwloc_bitmap_singlify_per_core(T, set, which);
  VP_CHECK(r == 0, "singlify_per_core returns 0");
  unsigned long w = vp_w(set);
  VP_CHECK(!(w & ~q), "singlify_per_core: only removes indexes");
  int cd = hwloc_get_type_depth(T, HWLOC_OBJ_CORE);
  if (cd >= 0) for (unsigned k = 0; k < T->level_nbobjects[cd]; k++) {
    unsigned long cw = vp_w(T->levels[cd][k]->cpuset) & w;
    VP_CHECK(!(cw & (cw - 1)), "singlify_per_core: at most one PU per core remains");
    /* the which-th PU of the core (among those in the set) is the one kept, if it exists */
    unsigned long in = vp_w(T->levels[cd][k]->cpuset) & q, kth = in; for (unsigned i = 0; i < 3; i++) if (i < which) kth &= kth - 1;
    VP_CHECK(cw == (kth & (0UL - kth)), "singlify_per_core: keeps the which-th PU of each core");
  }
  VP_CHECK((w & ~vp_seed.cpus) == (q & ~vp_seed.cpus), "singlify_per_core: indexes outside every core are untouched");
#if SEED == 2
  VP_WITNESS_IF(cd >= 0 && q == 0x27 && w == 0x25, "second PU of the first core dropped");
#else
  VP_WITNESS_IF(cd < 0 && w == q && q == 0x7, "no core level: set unchanged");
#endif
}

/* ---- hwloc_distrib ------------------------------------------------------------------------------ */
#ifndef NMAX
#define NMAX 4
#endif
#ifndef NU
#define NU 2
#define UNTILS { 1, 2147483647 }
#endif
static int distrib_w4, distrib_w3, distrib_done;
/* one call with CONCRETE roots configuration, n and until (hwloc_distrib recurses on all three); flags symbolic */
static void distrib_case(unsigned cfg, unsigned n, int until, unsigned long flags)
{
  hwloc_obj_t roots[2]; unsigned nroots;
  if (cfg == 0) { roots[0] = hwloc_get_root_obj(T); nroots = 1; }
  else if (cfg == 1) { roots[0] = vp_seed.pkg[0]; roots[1] = vp_seed.pkg[1]; nroots = 2; }
  else { roots[0] = vp_seed.pkg[1]; nroots = 1; }
  hwloc_cpuset_t sets[NMAX + 1];
  for (unsigned i = 0; i <= NMAX; i++) sets[i] = NULL;
  unsigned long all = 0; for (unsigned i = 0; i < nroots; i++) all |= vp_w(roots[i]->cpuset);
  errno = 0;
  int r = hwloc_distrib(T, roots, nroots, sets, n, until, flags);
  distrib_done = 1;
  if (n == 0 || (flags & ~1UL)) { VP_CHECK(r == -1 && errno == EINVAL, "distrib: n == 0 or unknown flags -> EINVAL"); VP_CHECK(sets[0] == NULL, "distrib: nothing written on error"); }
  else {
    VP_CHECK(r == 0, "distrib succeeds");
    unsigned long u = 0; int disjoint = 1;
    for (unsigned i = 0; i < NMAX; i++) if (i < n) {
      VP_CHECK(sets[i] != NULL, "distrib: exactly n sets are produced");
      unsigned long w = vp_w(sets[i]);
      VP_CHECK(w && !(w & ~all) && hwloc_bitmap_weight(sets[i]) >= 1, "distrib: each set is non-empty and inside the roots");
      if (w & u) disjoint = 0;
      u |= w;
    }
    VP_CHECK(sets[n] == NULL, "distrib: no set beyond n");
    VP_CHECK(u == all, "distrib: the union covers every root");
    unsigned npu = 0; for (unsigned long m = all; m; m &= m - 1) npu++;
    if (n <= npu && until >= (int) T->nb_levels) VP_CHECK(disjoint, "distrib: pairwise disjoint when n <= number of PUs and the whole depth may be used");
    if (n == npu && until >= (int) T->nb_levels) for (unsigned i = 0; i < NMAX; i++) if (i < n) VP_CHECK(!(vp_w(sets[i]) & (vp_w(sets[i]) - 1)), "distrib: one PU each when n == number of PUs");
    /* REVERSE mirrors the order: the first set then contains the last PU */
    if (n <= npu && until >= (int) T->nb_levels && n >= 2) {
      unsigned long first = vp_w(sets[0]), hi = all; while (hi & (hi - 1)) hi &= hi - 1;
      if (flags & 1) VP_CHECK(first & hi, "distrib REVERSE: the first set holds the last PU");
      else VP_CHECK(first & all & (0UL - all), "distrib: the first set holds the first PU");
    }
  }
  if (r == 0 && n == NMAX && nroots == 1 && until > 5 && (flags & 1)) distrib_w4 = 1;
  if (r == 0 && n == 3 && nroots == 2) distrib_w3 = 1;
}
#ifndef NSLICE
#define NSLICE 1
#endif
#ifndef SLICE
#define SLICE 0
#endif
VP_HARNESS(h_distrib)
{
  T = vp_seed_build(SEED, 0); build_table();
  static const int untils[NU] = UNTILS;
  /* every argument is concrete inside a run (hwloc_distrib recurses on roots, n and until); which run executes is symbolic; the
   * runs are dealt to NSLICE harness instances */
  unsigned cfg = (unsigned) vp_in_range(0, 2), n = (unsigned) vp_in_range(0, NMAX), ui = (unsigned) vp_in_range(0, NU - 1), fl = (unsigned) vp_in_range(0, 2), ci = 0;
  for (unsigned vc = 0; vc < 3; vc++) for (unsigned vn = 0; vn <= NMAX; vn++) for (unsigned vu = 0; vu < NU; vu++) for (unsigned vf = 0; vf < 3; vf++) {
    if (vf == 2 && !(vn == 2 && vu == 0)) continue;      /* an unknown flag bit: once per roots configuration */
    if ((ci++ % NSLICE) == SLICE && cfg == vc && n == vn && ui == vu && fl == vf) distrib_case(vc, vn, untils[vu], vf);
  }
  VP_WITNESS_IF(distrib_done, "a call of this slice executed");
}

/* seed sanity: the real hwloc_topology_check() accepts the seed (run natively by the driver's self test and under CBMC) */
VP_HARNESS(h_seed_ok)
{
  T = vp_seed_build(SEED, 0); build_table();
  VP_CHECK(T->nb_levels >= 2, "seed has at least Machine and PU levels");
  VP_CHECK(T->levels[T->nb_levels - 1][0]->type == HWLOC_OBJ_PU, "PUs are the deepest level");
  VP_CHECK(T->slevels[HWLOC_SLEVEL_NUMANODE].nbobjs >= 1, "at least one NUMA node");
#ifndef VP_CBMC
  hwloc_topology_check(T);
  { char *buf; int len; /* print the seed once for the log */
    FOR_NORMAL(o) fprintf(stderr, "  depth %u #%u type %d cpuset %lx nodeset %lx arity %u memarity %u\n", o->depth, o->logical_index, (int) o->type, vp_w(o->cpuset), vp_w(o->nodeset), o->arity, o->memory_arity); END_FOR
    (void) buf; (void) len; }
#endif
  VP_WITNESS("seed built");
}
