/* C01 — every successfully loaded topology is a well-formed object tree: the four mechanisms that make it so.
 * Real code: hwloc/topology.c (textually included).
 *  config:  filter/flag setters keep the filter invariant from ANY valid state (inductive step)
 *  insert:  hwloc__insert_object_by_cpuset into a flat parent: ordering/inclusion invariant, merge or refusal
 *  sets:    propagate_nodeset + fixup_sets + remove_unused_sets on a connected seed whose set CONTENTS are symbolic
 *  seed:    the complete real pipeline (hwloc_discover incl. connect/filter/levels) on the seeds, checked with an
 *           independent well-formedness checker written on public fields with word arithmetic
 */
#ifndef SEED
#define SEED 1
#endif
#include "vp_seed.h"

/* ---- config ------------------------------------------------------------------------------------------------------- */
static int filter_inv(const struct hwloc_topology *t)
{
  for (unsigned ty = HWLOC_OBJ_TYPE_MIN; ty < HWLOC_OBJ_TYPE_MAX; ty++) {
    int f = (int) t->type_filter[ty];
    if ((ty == HWLOC_OBJ_PU || ty == HWLOC_OBJ_NUMANODE || ty == HWLOC_OBJ_MACHINE) && f != HWLOC_TYPE_FILTER_KEEP_ALL) return 0;
    int special = ty == HWLOC_OBJ_MISC || ty == HWLOC_OBJ_BRIDGE || ty == HWLOC_OBJ_PCI_DEVICE || ty == HWLOC_OBJ_OS_DEVICE;
    if (special && f == HWLOC_TYPE_FILTER_KEEP_STRUCTURE) return 0;
    if (ty == HWLOC_OBJ_GROUP && f == HWLOC_TYPE_FILTER_KEEP_ALL) return 0;
    if (!special && f == HWLOC_TYPE_FILTER_KEEP_IMPORTANT) return 0;
  }
  return 1;
}
VP_HARNESS(h_config)
{
  static struct hwloc_topology T;
  memset(&T, 0, sizeof T);
  for (unsigned ty = HWLOC_OBJ_TYPE_MIN; ty < HWLOC_OBJ_TYPE_MAX; ty++) T.type_filter[ty] = (enum hwloc_type_filter_e) vp_in_range(0, 3);
  VP_ASSUME(filter_inv(&T));
  int init = vp_in_bool(); T.state = init ? HWLOC_TOPOLOGY_STATE_IS_INIT : HWLOC_TOPOLOGY_STATE_IS_LOADED;
  unsigned long oldflags = vp_in64(); T.flags = oldflags;
  enum hwloc_type_filter_e old[HWLOC_OBJ_TYPE_MAX]; for (unsigned ty = 0; ty < HWLOC_OBJ_TYPE_MAX; ty++) old[ty] = T.type_filter[ty];
  int which = (int) vp_in_range(0, 5), type = vp_in_int(), filter = (int) vp_in_range(0, 3); unsigned long flags = vp_in64();
  errno = 0; int r;
  switch (which) {
  case 0: r = hwloc_topology_set_type_filter(&T, (hwloc_obj_type_t) type, (enum hwloc_type_filter_e) filter); break;
  case 1: r = hwloc_topology_set_all_types_filter(&T, (enum hwloc_type_filter_e) filter); break;
  case 2: r = hwloc_topology_set_cache_types_filter(&T, (enum hwloc_type_filter_e) filter); break;
  case 3: r = hwloc_topology_set_icache_types_filter(&T, (enum hwloc_type_filter_e) filter); break;
  case 4: r = hwloc_topology_set_io_types_filter(&T, (enum hwloc_type_filter_e) filter); break;
  default: r = hwloc_topology_set_flags(&T, flags); break;
  }
  VP_CHECK(filter_inv(&T), "filter invariant: Machine/PU/NUMA always kept, special types never KEEP_STRUCTURE, Group never KEEP_ALL, after any setter");
  if (!init) { /* an unknown type on a loaded topology: both errors apply, either is a correct answer */
    if (which == 0 && (type < 0 || type >= HWLOC_OBJ_TYPE_MAX)) VP_CHECK(r == -1 && (errno == EBUSY || errno == EINVAL), "configuration of a loaded topology with an unknown type -> EBUSY or EINVAL");
    else VP_CHECK(r == -1 && errno == EBUSY, "configuration of a loaded topology -> EBUSY");
    for (unsigned ty = 0; ty < HWLOC_OBJ_TYPE_MAX; ty++) VP_CHECK(T.type_filter[ty] == old[ty], "EBUSY leaves the filters unchanged");
    VP_CHECK(T.flags == oldflags, "EBUSY leaves the flags unchanged"); }
  else if (which == 0) {
    if (type < 0 || type >= HWLOC_OBJ_TYPE_MAX) VP_CHECK(r == -1 && errno == EINVAL, "set_type_filter: unknown type -> EINVAL");
    else if (r == 0) VP_CHECK((int) T.type_filter[type] == filter || (filter == HWLOC_TYPE_FILTER_KEEP_IMPORTANT && T.type_filter[type] == HWLOC_TYPE_FILTER_KEEP_ALL), "set_type_filter stores the filter (IMPORTANT means ALL for normal types)");
    else { VP_CHECK(errno == EINVAL, "set_type_filter: a filter that is illegal for the type -> EINVAL"); for (unsigned ty = 0; ty < HWLOC_OBJ_TYPE_MAX; ty++) VP_CHECK(T.type_filter[ty] == old[ty], "EINVAL leaves the filters unchanged"); }
  } else if (which == 5) {
    unsigned long known = HWLOC_TOPOLOGY_FLAG_INCLUDE_DISALLOWED | HWLOC_TOPOLOGY_FLAG_IS_THISSYSTEM | HWLOC_TOPOLOGY_FLAG_THISSYSTEM_ALLOWED_RESOURCES | HWLOC_TOPOLOGY_FLAG_IMPORT_SUPPORT | HWLOC_TOPOLOGY_FLAG_RESTRICT_TO_CPUBINDING
      | HWLOC_TOPOLOGY_FLAG_RESTRICT_TO_MEMBINDING | HWLOC_TOPOLOGY_FLAG_DONT_CHANGE_BINDING | HWLOC_TOPOLOGY_FLAG_NO_DISTANCES | HWLOC_TOPOLOGY_FLAG_NO_MEMATTRS | HWLOC_TOPOLOGY_FLAG_NO_CPUKINDS;
    int bad = (flags & ~known) || ((flags & (HWLOC_TOPOLOGY_FLAG_RESTRICT_TO_CPUBINDING | HWLOC_TOPOLOGY_FLAG_RESTRICT_TO_MEMBINDING)) && !(flags & HWLOC_TOPOLOGY_FLAG_IS_THISSYSTEM));
    if (bad) VP_CHECK(r == -1 && errno == EINVAL && T.flags == oldflags, "set_flags: unknown bits or RESTRICT_TO_*BINDING without IS_THISSYSTEM -> EINVAL, flags unchanged");
    else VP_CHECK(r == 0 && T.flags == flags, "set_flags stores a legal flag word verbatim");
  }
  VP_WITNESS_IF(which == 0 && r == -1 && init && type == HWLOC_OBJ_GROUP, "KEEP_ALL refused for Groups");
  VP_WITNESS_IF(which == 1 && r == 0 && filter == HWLOC_TYPE_FILTER_KEEP_NONE, "set_all_types_filter(NONE) keeps Machine/PU/NUMA");
  VP_WITNESS_IF(which == 5 && r == 0 && (flags & HWLOC_TOPOLOGY_FLAG_RESTRICT_TO_CPUBINDING), "a legal flag word with RESTRICT_TO_CPUBINDING");
}

/* ---- insertion step into a flat parent ------------------------------------------------------------------------------------ */
#ifndef PRE
#define PRE 0
#endif
#ifndef NTYPES
#define NTYPES 4
#endif
#if PRE == 3      /* five PUs, a Core{PU3,PU4}: a refused Group can take PU0, skip PU1, take PU2 and then meet the Core (put-back with a hole) */
#define NPU 5
#define MMAX 31
#else
#define NPU 3
#define MMAX 15
#endif
#define ALLPU ((1UL << NPU) - 1)
static int ins_refused, ins_container, ins_sibling;
/* one insertion with a CONCRETE type, cpuset and dont_merge attribute into a freshly built flat parent (tree surgery under
 * symbolic control does not conclude; the caller enumerates the cases as guarded concrete runs) */
static void insert_case(hwloc_obj_type_t ty, unsigned long m, int dm)
{
  struct hwloc_topology *t = malloc(sizeof(*t)); VP_NONNULL(t); static const struct hwloc_topology tz; *t = tz;
  t->support.discovery = malloc(sizeof(*t->support.discovery)); t->support.cpubind = malloc(sizeof(*t->support.cpubind));
  t->support.membind = malloc(sizeof(*t->support.membind)); t->support.misc = malloc(sizeof(*t->support.misc));
  VP_NONNULL(t->support.discovery); VP_NONNULL(t->support.cpubind); VP_NONNULL(t->support.membind); VP_NONNULL(t->support.misc);
  static const struct hwloc_topology_discovery_support dz; static const struct hwloc_topology_cpubind_support cz; static const struct hwloc_topology_membind_support mz; static const struct hwloc_topology_misc_support xz;
  *t->support.discovery = dz; *t->support.cpubind = cz; *t->support.membind = mz; *t->support.misc = xz;
  t->nb_levels_allocated = 16; t->levels = malloc(16 * sizeof(*t->levels)); t->level_nbobjects = malloc(16 * sizeof(*t->level_nbobjects));
  VP_NONNULL(t->levels); VP_NONNULL(t->level_nbobjects);
  for (unsigned i = 0; i < 16; i++) { t->levels[i] = NULL; t->level_nbobjects[i] = 0; }
  hwloc__topology_filter_init(t);
  hwloc_topology_setup_defaults(t);
  t->state = HWLOC_TOPOLOGY_STATE_IS_LOADING;
  hwloc_obj_t root = t->levels[0][0];
  hwloc_alloc_root_sets(root);
  hwloc_obj_t pu[NPU];
  for (unsigned i = 0; i < NPU; i++) { pu[i] = hwloc_alloc_setup_object(t, HWLOC_OBJ_PU, i); pu[i]->cpuset = vp_bm(1UL << i); hwloc__insert_object_by_cpuset(t, NULL, pu[i], NULL); }
  VP_CHECK(root->first_child == pu[0] && !pu[NPU - 1]->next_sibling, "the PUs are inserted in order");
  for (unsigned i = 0; i + 1 < NPU; i++) VP_CHECK(pu[i]->next_sibling == pu[i + 1], "the PUs are inserted in order");
#if PRE
  /* an existing container {PU0,PU1} (PRE 1) or {PU1,PU2} (PRE 2): insertions that intersect it without inclusion must be
   * refused; with PRE 2 the new object may already have taken PU0 below it when it meets the Core: the put-back path */
  hwloc_obj_t core = hwloc_alloc_setup_object(t, HWLOC_OBJ_CORE, 7); core->cpuset = vp_bm(PRE == 1 ? 0x3 : PRE == 2 ? 0x6 : 0x18);
  VP_CHECK(hwloc__insert_object_by_cpuset(t, NULL, core, NULL) == core && core->parent == root && core->first_child == pu[PRE == 1 ? 0 : PRE == 2 ? 1 : 3], "a Core containing two PUs inserted");
#endif
  /* snapshot of the two list levels */
  hwloc_obj_t snap[NPU + 1], gsnap[NPU + 1]; unsigned ns = 0, ngs = 0;
  for (hwloc_obj_t c = root->first_child; c && ns < NPU + 1; c = c->next_sibling) { snap[ns++] = c; for (hwloc_obj_t g = c->first_child; g && ngs < NPU + 1; g = g->next_sibling) gsnap[ngs++] = g; }
  hwloc_obj_t o = hwloc_alloc_setup_object(t, ty, 0);
  o->cpuset = vp_bm(m);
  if (ty == HWLOC_OBJ_GROUP) o->attr->group.dont_merge = (unsigned char) dm;
  hwloc_obj_t r = hwloc__insert_object_by_cpuset(t, NULL, o, NULL);
  /* invariant of the (pre-connect) child lists */
  unsigned long u = 0; int prevfirst = -1; unsigned n = 0;
  for (hwloc_obj_t c = root->first_child; c && n < NPU + 3; c = c->next_sibling, n++) {
    unsigned long w = vp_w(c->cpuset);
    VP_CHECK(w && !(w & u), "children of an object have non-empty, pairwise disjoint cpusets");
    u |= w;
    int f = hwloc_bitmap_first(c->cpuset); VP_CHECK(f > prevfirst, "children are ordered by their first PU"); prevfirst = f;
    VP_CHECK(c->parent == root, "parent links are consistent");
    unsigned long cu = 0; for (hwloc_obj_t g = c->first_child; g; g = g->next_sibling) { VP_CHECK(g->parent == c && !(vp_w(g->cpuset) & cu) && !(vp_w(g->cpuset) & ~w), "grand-children are disjoint and included in their parent"); cu |= vp_w(g->cpuset); }
    if (c->first_child) VP_CHECK(cu == (w & ALLPU), "a container's cpuset is the union of its children (the PUs)");
  }
  VP_CHECK((u & ALLPU) == ALLPU && n <= NPU + 1, "no PU is lost by the insertion");
  if (r == NULL) {
    unsigned k = 0, gk = 0; int same = 1;
    for (hwloc_obj_t c = root->first_child; c && k < NPU + 2; c = c->next_sibling, k++) { if (k >= ns || snap[k] != c || c->parent != root) same = 0; for (hwloc_obj_t g = c->first_child; g && gk < NPU + 2; g = g->next_sibling, gk++) if (gk >= ngs || gsnap[gk] != g || g->parent != c) same = 0; }
    VP_CHECK(same && k == ns && gk == ngs, "a refused insertion puts every child back: the lists are exactly as before");
    ins_refused = 1; }
  else { int known = r == o || r == root || (PRE && (r == snap[0] || r == snap[1] || r == snap[NPU - 2])); for (unsigned i = 0; i < NPU; i++) if (r == pu[i]) known = 1;
    VP_CHECK(known, "the result is the inserted object or an existing object it was merged into"); }
  if (r == o && m == 3) ins_container = 1;
  if (r == o && m == 8) ins_sibling = 1;
}
VP_HARNESS(h_insert)
{
  static const hwloc_obj_type_t types[4] = { HWLOC_OBJ_GROUP, HWLOC_OBJ_PACKAGE, HWLOC_OBJ_CORE, HWLOC_OBJ_L2CACHE };
  unsigned tsel = (unsigned) vp_in_range(0, NTYPES - 1); unsigned long m = vp_in64(); VP_ASSUME(m >= 1 && m <= MMAX); int dm = vp_in_bool();
  int done = 0;
  for (unsigned vt = 0; vt < NTYPES; vt++) for (unsigned long vm = 1; vm <= MMAX; vm++) for (int vd = 0; vd < 2; vd++)
    if (tsel == vt && m == vm && dm == vd && (vd == 0 || types[vt] == HWLOC_OBJ_GROUP)) { insert_case(types[vt], vm, vd); done = 1; }
  VP_ASSUME(done);
#if PRE
  VP_WITNESS_IF(ins_refused, "an insertion that intersects the existing Core without inclusion refused");
#else
  VP_WITNESS_IF(ins_container, "a container of PU0+PU1 inserted");
  VP_WITNESS_IF(ins_sibling, "a new sibling with a PU-less cpuset");
#endif
}

/* ---- set propagation on a connected seed with symbolic set contents ------------------------------------------------------------ */
#define MAXS 12
VP_HARNESS(h_sets)
{
  unsigned long tf = vp_in_bool() ? HWLOC_TOPOLOGY_FLAG_INCLUDE_DISALLOWED : 0;
  struct hwloc_topology *t = vp_seed_build(SEED, 0); struct vp_seed S = vp_seed;
  t->flags = tf;
#if SEED == 5
  VP_CHECK(t->slevels[HWLOC_SLEVEL_MEMCACHE].nbobjs == 2 && S.numa[0]->parent == S.memcache[0] && S.memcache[0]->parent == S.pkg[0] && S.numa[1]->parent == S.memcache[1], "seed S5: each NUMA node hangs below a memory-side cache below its package");
#endif
  /* every object that carries sets, parents before children: normal levels in order, then the NUMA nodes */
  hwloc_obj_t ob[MAXS]; unsigned no = 0;
  for (unsigned d = 0; d < t->nb_levels; d++) for (unsigned k = 0; k < t->level_nbobjects[d]; k++) ob[no++] = t->levels[d][k];
  unsigned nnorm = no;
  /* memory-side caches before the NUMA nodes they lead to (parents before children) */
  for (unsigned k = 0; k < t->slevels[HWLOC_SLEVEL_MEMCACHE].nbobjs; k++) ob[no++] = t->slevels[HWLOC_SLEVEL_MEMCACHE].objs[k];
  for (unsigned k = 0; k < t->slevels[HWLOC_SLEVEL_NUMANODE].nbobjs; k++) ob[no++] = t->slevels[HWLOC_SLEVEL_NUMANODE].objs[k];
  /* arbitrary contents, assuming only what insertion guarantees: PUs and NUMA nodes are singletons of their os_index,
   * a normal child's cpuset is included in its parent's, complete_cpuset contains cpuset */
  for (unsigned i = 0; i < no; i++) {
    hwloc_obj_t o = ob[i]; unsigned long c, cc, n, cn;
    if (o->type == HWLOC_OBJ_PU) { c = 1UL << o->os_index; n = vp_in_range(0, 7); }
    else if (o->type == HWLOC_OBJ_NUMANODE) { c = vp_in_range(0, 63); n = 1UL << o->os_index; }
    else if (o->type == HWLOC_OBJ_MEMCACHE) { c = vp_in_range(0, 63); n = vp_w(o->nodeset); }      /* a memory-side cache keeps the nodeset it was attached with */
    else { c = vp_in_range(0, 63); n = vp_in_range(0, 7); }
    cc = vp_in_range(0, 63); cn = vp_in_range(0, 7);
    VP_ASSUME(!(c & ~cc) && !(n & ~cn));
    if (i < nnorm && o->parent) VP_ASSUME(!(c & ~vp_w(o->parent->cpuset)) && !(cc & ~vp_w(o->parent->complete_cpuset)));
    /* the root: insertion adds every PU to its cpuset/complete_cpuset and every NUMA node to its nodeset/complete_nodeset
     * (hwloc__insert_object_by_cpuset, hwloc__attach_memory_object), nothing else writes them before this point */
    if (i == 0) VP_ASSUME(c == S.cpus && !(S.cpus & ~cc) && n == S.nodes && !(S.nodes & ~cn));
    hwloc_bitmap_from_ulong(o->cpuset, c); hwloc_bitmap_from_ulong(o->complete_cpuset, cc); hwloc_bitmap_from_ulong(o->nodeset, n); hwloc_bitmap_from_ulong(o->complete_nodeset, cn);
  }
  unsigned long ac = vp_in_range(0, 63), an = vp_in_range(0, 7);
  hwloc_bitmap_from_ulong(t->allowed_cpuset, ac); hwloc_bitmap_from_ulong(t->allowed_nodeset, an);
  hwloc_obj_t root = t->levels[0][0];
  VP_SYMBOLIC_PHASE(1);
  /* exactly the sequence of hwloc_discover() */
  hwloc_bitmap_and(root->cpuset, root->cpuset, root->complete_cpuset);
  hwloc_bitmap_and(root->nodeset, root->nodeset, root->complete_nodeset);
  hwloc_bitmap_and(t->allowed_cpuset, t->allowed_cpuset, root->cpuset);
  hwloc_bitmap_and(t->allowed_nodeset, t->allowed_nodeset, root->nodeset);
  propagate_nodeset(root);
  fixup_sets(root);
  if (!(t->flags & HWLOC_TOPOLOGY_FLAG_INCLUDE_DISALLOWED)) remove_unused_sets(t, root);
  for (unsigned i = 0; i < no; i++) {
    hwloc_obj_t o = ob[i]; unsigned long c = vp_w(o->cpuset), cc = vp_w(o->complete_cpuset), n = vp_w(o->nodeset), cn = vp_w(o->complete_nodeset);
    VP_CHECK(!(c & ~cc) && !(n & ~cn), "each set is included in its complete_ counterpart");
    if (o->parent) {
      hwloc_obj_t p = o->parent;
      VP_CHECK(!(c & ~vp_w(p->cpuset)) && !(cc & ~vp_w(p->complete_cpuset)) && !(n & ~vp_w(p->nodeset)) && !(cn & ~vp_w(p->complete_nodeset)), "each set is included in the parent's");
      if (hwloc_obj_type_is_memory(o->type)) VP_CHECK(c == vp_w(p->cpuset) && cc == vp_w(p->complete_cpuset), "memory children share their parent's cpuset");
    }
    if (!(t->flags & HWLOC_TOPOLOGY_FLAG_INCLUDE_DISALLOWED)) VP_CHECK(!(c & ~vp_w(t->allowed_cpuset)) && !(n & ~vp_w(t->allowed_nodeset)), "without INCLUDE_DISALLOWED no object keeps a disallowed PU or node");
  }
  VP_CHECK(!(vp_w(t->allowed_cpuset) & ~vp_w(root->complete_cpuset)) && !(vp_w(t->allowed_nodeset) & ~vp_w(root->complete_nodeset)), "allowed sets are included in the root sets");
  if (!(t->flags & HWLOC_TOPOLOGY_FLAG_INCLUDE_DISALLOWED)) VP_CHECK(vp_w(t->allowed_cpuset) == vp_w(root->cpuset) && vp_w(t->allowed_nodeset) == vp_w(root->nodeset), "allowed sets equal the root sets when INCLUDE_DISALLOWED is unset");
  (void) S;
  VP_WITNESS_IF(tf == 0 && vp_w(root->cpuset) == 0x5 && ac == 0x5, "a topology with disallowed PUs removed");
  VP_WITNESS_IF(tf != 0 && vp_w(root->nodeset) == 0x3, "INCLUDE_DISALLOWED keeps everything");
}

/* ---- the complete real pipeline on a seed, checked by an independent checker ------------------------------------------------------- */
#include "vp_wf.h"
VP_HARNESS(h_seed_wf)
{
  unsigned long tf = SEED == 4 ? HWLOC_TOPOLOGY_FLAG_INCLUDE_DISALLOWED : 0;
  struct hwloc_topology *t = vp_seed_build(SEED, tf);
  vp_wf_check(t, tf);
#if SEED == 6
  VP_CHECK(t->nb_levels == 5 && t->level_nbobjects[1] == 3 && t->levels[2][0]->type == HWLOC_OBJ_L2CACHE && t->level_nbobjects[2] == 2 && t->levels[3][0]->type == HWLOC_OBJ_CORE && t->level_nbobjects[3] == 2 && t->level_nbobjects[4] == 3, "S6: levels of equal width that are not pairwise parent and child are not merged");
#endif
#if SEED == 7
  VP_CHECK(t->nb_levels == 3 && t->levels[1][0]->type == HWLOC_OBJ_CORE && t->level_nbobjects[1] == 2 && t->levels[1][0]->memory_arity == 1 && t->levels[1][1]->memory_arity == 1, "S7: a KEEP_STRUCTURE level that brings no structure is merged away and its memory children move to the kept objects");
#endif
#if SEED == 14
  VP_CHECK(t->nb_levels == 3 && t->levels[1][0]->type == HWLOC_OBJ_PACKAGE && t->level_nbobjects[1] == 2 && t->levels[1][0]->misc_arity == 1 && t->levels[1][1]->misc_arity == 3 && t->levels[1][1]->memory_arity == 1,
           "S14: a KEEP_STRUCTURE child level merged into its parents hands its Misc children over to them");
#endif
  VP_WITNESS("seed checked");
}
