/* vp_xmltree.h — an in-memory ELEMENT TREE that plays the role of an XML back end for the common XML code of
 * hwloc/topology-xml.c (everything between the public API and the text layer).
 *
 * Export side: new_child / new_prop / add_content / end_object record what the real exporters emit into a tree of
 * tt_elem. Import side: look_init / find_child / next_attr / get_content / close_content / close_tag / close_child
 * replay such a tree to the real importers with the cursor semantics of hwloc/topology-xml-nolibxml.c:
 *   - find_child does not advance the parent (close_child does), returns 0 when there is no further child,
 *   - get_content returns 0 on an empty element (only when expected_length is 0), 1 on content of exactly the expected
 *     length, -1 otherwise,
 *   - close_tag fails when children or content are left unconsumed (the text at the cursor would not be "</tag>").
 * The text layer (escaping, tokenizer) is decided separately (escape_roundtrip_*, next_attr_bytes).
 *
 * The per-state cursor is kept in a side table keyed by the address of the state structure (the common code allocates
 * states on its stack): storing a pointer inside state->data (a char array) would send it through a byte array, which
 * symex cannot read back as a known pointer.
 */
#ifndef VP_XMLTREE_H
#define VP_XMLTREE_H

#define TT_MAXA 20
#define TT_DEPTH 24
struct tt_elem {
  char *tag;
  unsigned nattrs; char *aname[TT_MAXA]; char *avalue[TT_MAXA];
  char *content; size_t clen; int has_content;
  struct tt_elem *parent, *first_child, *last_child, *next;
  unsigned nchildren;
  int ended;
  /* import cursors */
  unsigned acur; struct tt_elem *ccur; int content_taken, content_closed, tag_closed;
};
static unsigned tt_overflow;       /* harness-internal capacity problems (checked by the harness) */

static char *tt_strndup(const char *s, size_t n)
{ char *p = malloc(n + 1); VP_NONNULL(p); for (size_t i = 0; i < n; i++) p[i] = s[i]; p[n] = 0; return p; }
static char *tt_strdup(const char *s) { size_t n = 0; while (s[n]) n++; return tt_strndup(s, n); }
static struct tt_elem *tt_new(const char *tag)
{ struct tt_elem *e = malloc(sizeof *e); VP_NONNULL(e); static const struct tt_elem ez; *e = ez; e->tag = tt_strdup(tag); return e; }
static struct tt_elem *tt_add_child(struct tt_elem *p, struct tt_elem *c)
{ c->parent = p; c->next = NULL; if (p->last_child) p->last_child->next = c; else p->first_child = c; p->last_child = c; p->nchildren++; return c; }
static struct tt_elem *tt_child(struct tt_elem *p, const char *tag) { return tt_add_child(p, tt_new(tag)); }
static void tt_attr(struct tt_elem *e, const char *n, const char *v)
{ if (e->nattrs >= TT_MAXA) { tt_overflow++; return; } e->aname[e->nattrs] = tt_strdup(n); e->avalue[e->nattrs] = tt_strdup(v); e->nattrs++; }
static void tt_content(struct tt_elem *e, const char *b, size_t l) { e->content = tt_strndup(b, l); e->clen = l; e->has_content++; }
static const char *tt_get(const struct tt_elem *e, const char *n)
{ for (unsigned i = 0; i < e->nattrs && i < TT_MAXA; i++) if (!strcmp(e->aname[i], n)) return e->avalue[i]; return NULL; }
static void tt_rewind(struct tt_elem *e)
{ e->acur = 0; e->ccur = e->first_child; e->content_taken = e->content_closed = e->tag_closed = 0; for (struct tt_elem *c = e->first_child; c; c = c->next) tt_rewind(c); }

/* state address -> element */
static struct { const void *st; struct tt_elem *e; } tt_map[TT_DEPTH];
static unsigned tt_nmap;
static void tt_bind(const void *st, struct tt_elem *e)
{ for (unsigned i = 0; i < tt_nmap && i < TT_DEPTH; i++) if (tt_map[i].st == st) { tt_map[i].e = e; return; }
  if (tt_nmap >= TT_DEPTH) { tt_overflow++; return; } tt_map[tt_nmap].st = st; tt_map[tt_nmap].e = e; tt_nmap++; }
static struct tt_elem *tt_of(const void *st)
{ for (unsigned i = 0; i < tt_nmap && i < TT_DEPTH; i++) if (tt_map[i].st == st) return tt_map[i].e; tt_overflow++; return NULL; }

/* ---- export back end ---------------------------------------------------------------------------------------------------------- */
static void tt_x_new_child(hwloc__xml_export_state_t parentstate, hwloc__xml_export_state_t state, const char *name);
static void tt_x_new_prop(hwloc__xml_export_state_t state, const char *name, const char *value) { struct tt_elem *e = tt_of(state); if (e) tt_attr(e, name, value); }
static void tt_x_add_content(hwloc__xml_export_state_t state, const char *buffer, size_t length) { struct tt_elem *e = tt_of(state); if (e) tt_content(e, buffer, length); }
static void tt_x_end_object(hwloc__xml_export_state_t state, const char *name) { struct tt_elem *e = tt_of(state); if (e) { e->ended++; if (strcmp(e->tag, name)) tt_overflow++; } }
static void tt_x_new_child(hwloc__xml_export_state_t parentstate, hwloc__xml_export_state_t state, const char *name)
{
  struct tt_elem *p = tt_of(parentstate);
  state->parent = parentstate; state->new_child = parentstate->new_child; state->new_prop = parentstate->new_prop;
  state->add_content = parentstate->add_content; state->end_object = parentstate->end_object; state->global = parentstate->global;
  if (p) tt_bind(state, tt_child(p, name));
}
static struct hwloc__xml_export_data_s tt_edata;
/* a <topology version="3.0"> (or "2.0" for the v2 format) element holding what the real exporter emits */
static struct tt_elem *tt_export_topology(hwloc_topology_t topology, unsigned long flags)
{
  struct tt_elem *root = tt_new("topology");
  static struct hwloc__xml_export_state_s st;
  tt_nmap = 0;
  st.parent = NULL; st.new_child = tt_x_new_child; st.new_prop = tt_x_new_prop; st.add_content = tt_x_add_content; st.end_object = tt_x_end_object; st.global = &tt_edata;
  tt_bind(&st, root);
  tt_attr(root, "version", (flags & HWLOC_TOPOLOGY_EXPORT_XML_FLAG_V2) ? "2.0" : "3.0");
  hwloc__xml_export_topology(&st, topology, flags);
  root->ended++;
  return root;
}

/* ---- import back end ---------------------------------------------------------------------------------------------------------- */
static int tt_i_next_attr(hwloc__xml_import_state_t state, char **namep, char **valuep)
{ struct tt_elem *e = tt_of(state); if (!e || e->acur >= e->nattrs || e->acur >= TT_MAXA) return -1; *namep = e->aname[e->acur]; *valuep = e->avalue[e->acur]; e->acur++; return 0; }
static int tt_i_find_child(hwloc__xml_import_state_t state, hwloc__xml_import_state_t childstate, char **tagp)
{
  struct tt_elem *e = tt_of(state);
  childstate->parent = state; childstate->global = state->global;
  if (!e || !e->ccur) return 0;
  tt_bind(childstate, e->ccur);
  *tagp = e->ccur->tag;
  return 1;
}
static int tt_i_close_tag(hwloc__xml_import_state_t state)
{ struct tt_elem *e = tt_of(state); if (!e) return -1; if (e->ccur) return -1; if (e->has_content && !e->content_taken) return -1; e->tag_closed++; return 0; }
static void tt_i_close_child(hwloc__xml_import_state_t state)
{ struct tt_elem *e = tt_of(state); if (e && e->parent && e->parent->ccur == e) e->parent->ccur = e->next; }
static int tt_i_get_content(hwloc__xml_import_state_t state, const char **beginp, size_t expected_length)
{
  struct tt_elem *e = tt_of(state); if (!e) return -1;
  if (!e->has_content) { if (expected_length) return -1; *beginp = ""; return 0; }
  if (e->clen != expected_length) return -1;
  e->content_taken++; *beginp = e->content; return 1;
}
static void tt_i_close_content(hwloc__xml_import_state_t state) { struct tt_elem *e = tt_of(state); if (e) e->content_closed++; }
static struct tt_elem *tt_import_root;
static int tt_i_look_init(struct hwloc_xml_backend_data_s *bdata, struct hwloc__xml_import_state_s *state)
{
  const char *v = tt_get(tt_import_root, "version");
  state->global = bdata; state->parent = NULL;
  tt_nmap = 0;
  tt_rewind(tt_import_root);
  tt_bind(state, tt_import_root);
  bdata->version_major = (v && v[0] == '2') ? 2 : 3; bdata->version_minor = 0;
  return 0;
}
static void tt_i_look_done(struct hwloc_xml_backend_data_s *bdata, int result) { (void) bdata; (void) result; }
static void tt_backend_data(struct hwloc_xml_backend_data_s *bd, struct tt_elem *root)
{
  static const struct hwloc_xml_backend_data_s bz; *bd = bz;
  tt_import_root = root;
  bd->look_init = tt_i_look_init; bd->look_done = tt_i_look_done; bd->next_attr = tt_i_next_attr; bd->find_child = tt_i_find_child; bd->close_tag = tt_i_close_tag;
  bd->close_child = tt_i_close_child; bd->get_content = tt_i_get_content; bd->close_content = tt_i_close_content; bd->msgprefix = (char *) "vp";
}
/* bind a fresh state to an element (unit harnesses that call one importer directly) */
static void tt_state_at(struct hwloc__xml_import_state_s *st, struct hwloc_xml_backend_data_s *bd, struct tt_elem *e)
{ st->global = bd; st->parent = NULL; tt_rewind(e); tt_bind(st, e); }

/* element trees are equal: same tags, attributes in order, content bytes, children in order */
static int tt_equal(const struct tt_elem *a, const struct tt_elem *b)
{
  if (strcmp(a->tag, b->tag) || a->nattrs != b->nattrs || a->has_content != b->has_content || a->clen != b->clen || a->nchildren != b->nchildren) return 0;
  for (unsigned i = 0; i < a->nattrs && i < TT_MAXA; i++) if (strcmp(a->aname[i], b->aname[i]) || strcmp(a->avalue[i], b->avalue[i])) return 0;
  if (a->has_content && memcmp(a->content, b->content, a->clen)) return 0;
  const struct tt_elem *ca = a->first_child, *cb = b->first_child;
  for (; ca && cb; ca = ca->next, cb = cb->next) if (!tt_equal(ca, cb)) return 0;
  return !ca && !cb;
}
#ifndef VP_CBMC
/* native replay aid: print the differences */
static void tt_diff(const struct tt_elem *a, const struct tt_elem *b, int depth)
{
  if (strcmp(a->tag, b->tag)) { fprintf(stderr, "tt_diff[%d]: tag %s vs %s\n", depth, a->tag, b->tag); return; }
  if (a->nattrs != b->nattrs) fprintf(stderr, "tt_diff[%d] <%s>: %u vs %u attributes\n", depth, a->tag, a->nattrs, b->nattrs);
  for (unsigned i = 0; i < a->nattrs && i < b->nattrs; i++) if (strcmp(a->aname[i], b->aname[i]) || strcmp(a->avalue[i], b->avalue[i])) fprintf(stderr, "tt_diff[%d] <%s>: %s=\"%s\" vs %s=\"%s\"\n", depth, a->tag, a->aname[i], a->avalue[i], b->aname[i], b->avalue[i]);
  if (a->has_content != b->has_content || a->clen != b->clen || (a->has_content && memcmp(a->content, b->content, a->clen))) fprintf(stderr, "tt_diff[%d] <%s>: content \"%s\" vs \"%s\"\n", depth, a->tag, a->content ? a->content : "", b->content ? b->content : "");
  if (a->nchildren != b->nchildren) fprintf(stderr, "tt_diff[%d] <%s>: %u vs %u children\n", depth, a->tag, a->nchildren, b->nchildren);
  const struct tt_elem *ca = a->first_child, *cb = b->first_child;
  for (; ca && cb; ca = ca->next, cb = cb->next) tt_diff(ca, cb, depth + 1);
}
#endif
#endif
