/* C19 — shared-memory topologies: length suffices, adopted copy equal and read-only.   (also C12: dup)
 * Real code: hwloc/shmem.c and hwloc/topology.c (both textually included) + distances.c, memattrs.c,
 * cpukinds.c, bitmap.c, traversal.c (linked): hwloc__topology_dup and everything below it run for real.
 * OS: lseek/read/write/ftruncate/mmap/munmap/sysconf are harness stubs (the fault/address model).
 */
#ifndef SEED
#define SEED 3
#endif
#define VP_SEED_REAL_DISTANCES 1
#define VP_SEED_REAL_MEMATTRS 1
#define VP_SEED_REAL_CPUKINDS 1
#include "vp_seed.h"
#include <sys/mman.h>
#include <unistd.h>

#ifndef PAGESZ
#define PAGESZ 8      /* a tiny page: the round-up in get_length hides nothing */
#endif
/* ---- OS / component environment -------------------------------------------------------------------------- */
static char *vp_region; static size_t vp_region_len;      /* what mmap hands out */
static int vp_mmap_mode;                                  /* 0 requested address, 1 another address, 2 MAP_FAILED */
static int vp_mmaps, vp_munmaps; static void *vp_unmapped; static char vp_other[64];
static char vp_file[32];                                  /* the first bytes of the file (header) */
static int vp_components;
#ifdef VP_CBMC
void hwloc_components_init(void) { vp_components++; }
void hwloc_components_fini(void) { vp_components--; }
void hwloc_topology_components_init(struct hwloc_topology *t) { (void) t; }
void hwloc_topology_components_fini(struct hwloc_topology *t) { (void) t; }
void hwloc_backends_disable_all(struct hwloc_topology *t) { (void) t; }
void hwloc_set_binding_hooks(struct hwloc_topology *t) { (void) t; }
long sysconf(int name) { (void) name; return PAGESZ; }
off_t lseek(int fd, off_t off, int wh) { (void) fd; (void) wh; return off; }
ssize_t write(int fd, const void *buf, size_t n) { (void) fd; for (size_t i = 0; i < 24; i++) if (i < n) vp_file[i] = ((const char *) buf)[i]; return (ssize_t) n; }
ssize_t read(int fd, void *buf, size_t n) { (void) fd; for (size_t i = 0; i < 24; i++) if (i < n) ((char *) buf)[i] = vp_file[i]; return (ssize_t) n; }
int ftruncate(int fd, off_t len) { (void) fd; (void) len; return 0; }
void *mmap(void *addr, size_t len, int prot, int fl, int fd, off_t off)
{ (void) prot; (void) fl; (void) fd; (void) off; (void) len; (void) addr; vp_mmaps++; return vp_mmap_mode == 0 ? (void *) vp_region : vp_mmap_mode == 1 ? (void *) vp_other : MAP_FAILED; }
int munmap(void *addr, size_t len) { (void) len; vp_munmaps++; vp_unmapped = addr; return 0; }
#endif
#include "hwloc/shmem.c"

/* ---- allocator arithmetic: the length pass accumulates exactly what the write pass consumes ------------------- */
VP_HARNESS(h_alloc)
{
  size_t total = 0; struct hwloc_tma lt, wt;
  lt.malloc = tma_get_length_malloc; lt.dontfree = 0; lt.data = &total;
  static char base[8]; wt.malloc = tma_shmem_malloc; wt.dontfree = 1; wt.data = base;
  char *prev_end = base;
  for (unsigned i = 0; i < 6; i++) {
    size_t n = (size_t) vp_in64(); VP_ASSUME(n < (1UL << 32));
    /* length pass: only the arithmetic is of interest, the scratch block is a constant-size one */
    size_t before = total; size_t *tl = lt.data; *tl += (n + HWLOC_SHMEM_MALLOC_ALIGN - 1) & ~(HWLOC_SHMEM_MALLOC_ALIGN - 1);
    char *p = tma_shmem_malloc(&wt, n);
    VP_CHECK(p == prev_end, "write pass: blocks are handed out back to back");
    VP_CHECK(((uintptr_t) (p - base) & 7) == 0, "write pass: every block is 8-aligned");
    VP_CHECK((size_t) ((char *) wt.data - p) >= n, "write pass: a block is at least as long as requested");
    VP_CHECK((size_t) ((char *) wt.data - base) == total, "the length accumulated by the length pass equals the bytes consumed by the write pass");
    VP_CHECK(total >= before, "no wrap-around below 2^32 per request");
    prev_end = wt.data;
  }
  (void) lt;
  VP_WITNESS_IF(total == 24 + 8, "odd sizes rounded up");
}

/* ---- get_length -> write -> adopt on a concrete seed, exactly-sized mapping ---------------------------------------- */
VP_HARNESS(h_write_adopt)
{
  unsigned long tflags = SEED == 4 ? HWLOC_TOPOLOGY_FLAG_INCLUDE_DISALLOWED : 0;
  struct hwloc_topology *t = vp_seed_build(SEED, tflags); struct vp_seed S = vp_seed;
  hwloc_internal_memattrs_prepare(t);
  hwloc__add_info(&t->infos, "k", "v");
  S.pu[0]->name = strdup("pu");
  size_t len = 0;
  int r = hwloc_shmem_topology_get_length(t, &len, 0);
  VP_CHECK(r == 0 && len > 0 && len % PAGESZ == 0, "get_length succeeds with a page-rounded length");
  /* the mapping is an object of EXACTLY len bytes: any write beyond the announced length is a bounds violation */
  vp_region = malloc(len); vp_region_len = len;
  VP_NONNULL(vp_region);
  vp_mmap_mode = 0;
  r = hwloc_shmem_topology_write(t, 3, 0, vp_region, len, 0);
  VP_CHECK(r == 0, "write succeeds into a mapping of the announced length");
  /* adopt with the same arguments */
  hwloc_topology_t a = NULL;
  r = hwloc_shmem_topology_adopt(&a, 3, 0, vp_region, len, 0);
  VP_CHECK(r == 0 && a != NULL, "adopt with the same file, offset, address and length succeeds");
  VP_CHECK(a->adopted_shmem_addr == vp_region && a->adopted_shmem_length == len, "the adopted topology remembers its mapping");
  hwloc_obj_t root = a->levels[0][0];
  VP_CHECK((char *) root >= vp_region && (char *) root < vp_region + len, "adopted objects live inside the mapping");
  VP_CHECK(vp_w(root->cpuset) == S.cpus && vp_w(root->nodeset) == S.nodes && a->nb_levels == t->nb_levels, "adopted topology: same root sets and depth");
  VP_CHECK(a->infos.count == t->infos.count && (char *) a->infos.array < vp_region || (char *) a->infos.array >= vp_region + len, "adopted topology infos are a private copy");
  hwloc_obj_t apu = a->levels[a->nb_levels - 1][0];
  VP_CHECK(apu->name && apu->name[0] == 'p' && apu->name[1] == 'u' && apu->name[2] == 0 && (char *) apu->name >= vp_region && (char *) apu->name < vp_region + len, "object names are copied into the mapping");
  /* memory attributes of the stored copy were refreshed by the writer: readers must not need to write */
  for (unsigned i = 0; i < a->nr_memattrs; i++) VP_CHECK(a->memattrs[i].iflags & (HWLOC_IMATTR_FLAG_CACHE_VALID | HWLOC_IMATTR_FLAG_CONVENIENCE), "stored memory attributes are valid: adopters need no refresh of the read-only mapping");
#if SEED == 4
  /* hwloc_topology_allow() works on an adopted INCLUDE_DISALLOWED topology without touching the mapping */
  unsigned long before_c = vp_w(((struct hwloc_topology *) (vp_region + 24))->allowed_cpuset);
  r = hwloc_topology_allow(a, NULL, NULL, HWLOC_ALLOW_FLAG_ALL);
  VP_CHECK(r == 0, "allow(ALL) works on an adopted topology loaded with INCLUDE_DISALLOWED");
  VP_CHECK(vp_w(a->allowed_cpuset) == S.cpus, "allow(ALL): every PU allowed");
  VP_CHECK(vp_w(((struct hwloc_topology *) (vp_region + 24))->allowed_cpuset) == before_c, "allow() does not write into the (read-only) mapping");
#endif
  /* destroy unmaps exactly the mapping */
  vp_munmaps = 0;
  hwloc_topology_destroy(a);
  VP_CHECK(vp_munmaps == 1 && vp_unmapped == vp_region, "destroy of an adopted topology unmaps its mapping once");
  VP_WITNESS("write + adopt + destroy completed");
}

/* ---- adopt: header / argument validation, address availability ------------------------------------------------------- */
VP_HARNESS(h_header)
{
  struct hwloc_topology *t = vp_seed_build(3, 0);
  static struct { char hdr[24]; struct hwloc_topology topo; } region;
  memcpy(&region.topo, t, sizeof(*t));
  region.topo.backends = NULL;
  vp_region = (char *) &region; vp_region_len = sizeof region;
  struct hwloc_shmem_header h;
  h.header_version = vp_in_uint(); h.header_length = vp_in_uint(); h.mmap_address = vp_in64(); h.mmap_length = vp_in64();
  memcpy(vp_file, &h, sizeof h);
  unsigned long flags = vp_in64();
  size_t len = (size_t) vp_in64(); int addr_ok = vp_in_bool();
  void *addr = addr_ok ? (void *) &region : (void *) vp_other;
  vp_mmap_mode = (int) vp_in_range(0, 2);
  unsigned abi = vp_in_uint(); region.topo.topology_abi = abi;
  hwloc_topology_t a = (void *) 1;
  vp_mmaps = vp_munmaps = 0; vp_components = 0;
  errno = 0;
  int r = hwloc_shmem_topology_adopt(&a, 3, 0, addr, len, flags);
  int hdr_ok = h.header_version == HWLOC_SHMEM_HEADER_VERSION && h.header_length == 24 && h.mmap_address == (uintptr_t) addr && h.mmap_length == len;
  if (flags || !hdr_ok) {
    VP_CHECK(r == -1 && errno == EINVAL && vp_mmaps == 0 && a == (void *) 1, "adopt: non-zero flags or a header that does not match address/length -> EINVAL before mapping anything");
  } else if (vp_mmap_mode == 2) VP_CHECK(r == -1 && vp_munmaps == 0 && a == (void *) 1, "adopt: mmap failure is reported");
  else if (vp_mmap_mode == 1 || !addr_ok) {
    /* the kernel placed the mapping elsewhere: the requested range is not available */
    if (vp_mmap_mode == 1 || addr != (void *) &region) VP_CHECK(r == -1 && errno == EBUSY && vp_munmaps == 1 && a == (void *) 1, "adopt: an unavailable address range -> EBUSY and the stray mapping is released");
  } else if (abi != HWLOC_TOPOLOGY_ABI) VP_CHECK(r == -1 && errno == EINVAL && vp_munmaps == 1 && vp_components == 0, "adopt: incompatible ABI -> EINVAL, mapping released");
  else {
    VP_CHECK(r == 0 && a != NULL && a != (void *) 1 && a->adopted_shmem_addr == addr && a->adopted_shmem_length == len, "adopt succeeds");
    VP_CHECK(a->tma == NULL && a->userdata_export_cb == NULL && a->userdata_import_cb == NULL && a->support.cpubind != region.topo.support.cpubind, "adopt: local copies of what must be writable");
  }
  VP_WITNESS_IF(r == 0, "a matching header adopted");
  VP_WITNESS_IF(r == -1 && errno == EBUSY, "address range unavailable");
  VP_WITNESS_IF(r == -1 && hdr_ok && !flags && vp_mmap_mode == 0 && addr_ok, "ABI mismatch");
}

/* ---- every structure-modifying call on an adopted topology is refused with EPERM ---------------------------------------- */
VP_HARNESS(h_guards)
{
  struct hwloc_topology *t = vp_seed_build(1, 0); struct vp_seed S = vp_seed;
  t->adopted_shmem_addr = (void *) t; t->adopted_shmem_length = 4096;
  unsigned long ac = vp_w(t->allowed_cpuset), rc = S.cpus; unsigned nl = t->nb_levels; struct hwloc_internal_distances_s *fd = t->first_dist; unsigned ni = t->infos.count;
  unsigned long q = vp_in64(), fl = vp_in64(); VP_ASSUME(q < 256);
  hwloc_bitmap_t set = vp_bm(q);
  int which = (int) vp_in_range(0, 8);
  int r = 0; void *p = (void *) 1;
  errno = 0;
  switch (which) {
  case 0: r = hwloc_topology_restrict(t, set, fl); break;
  case 1: p = hwloc_topology_alloc_group_object(t); break;
  case 2: { /* a Group built by hand (alloc_group is refused on an adopted topology); the refusing call frees it */
            hwloc_obj_t g = malloc(sizeof *g); VP_NONNULL(g); static const struct hwloc_obj oz; *g = oz; g->type = HWLOC_OBJ_GROUP;
            g->attr = malloc(sizeof *g->attr); VP_NONNULL(g->attr); static const union hwloc_obj_attr_u az; *g->attr = az;
            p = hwloc_topology_insert_group_object(t, g); break; }
  case 3: p = hwloc_topology_insert_misc_object(t, S.pu[0], "m"); break;
  case 4: p = hwloc_distances_add_create(t, "n", fl, 0); break;
  case 5: r = hwloc_distances_remove(t); break;
  case 6: r = hwloc_distances_remove_by_depth(t, (int) q); break;
  case 7: r = hwloc_topology_diff_apply(t, NULL, fl); break;
  default: { hwloc_obj_t g2 = malloc(sizeof *g2); VP_NONNULL(g2); static const struct hwloc_obj oz2; *g2 = oz2; g2->type = HWLOC_OBJ_GROUP;
             g2->attr = malloc(sizeof *g2->attr); VP_NONNULL(g2->attr); static const union hwloc_obj_attr_u az2; *g2->attr = az2;
             r = hwloc_topology_free_group_object(t, g2); break; }
  }
  if (which == 1 || which == 2 || which == 3 || which == 4) VP_CHECK(p == NULL && errno == EPERM, "adopted topology: object/distances creation is refused with EPERM");
  else VP_CHECK(r == -1 && errno == EPERM, "adopted topology: restrict/remove/apply/free_group are refused with EPERM");
  VP_CHECK(vp_w(t->allowed_cpuset) == ac && vp_w(t->levels[0][0]->cpuset) == rc && t->nb_levels == nl && t->first_dist == fd && t->infos.count == ni && !t->modified, "adopted topology: a refused call does not touch the mapping");
  VP_WITNESS_IF(which == 0 && q == 1, "restrict refused");
  VP_WITNESS_IF(which == 8, "free_group refused");
}

/* ---- dup through an instrumented allocator: every block gets exactly the size it asked for (C19 + C12) ------------------- */
static unsigned vp_reqs; static size_t vp_req_total;
static void *vp_exact_malloc(struct hwloc_tma *tma, size_t n) { (void) tma; vp_reqs++; vp_req_total += (n + 7) & ~7UL; void *p = malloc(n); VP_NONNULL(p); return p; }
VP_HARNESS(h_dup_blocks)
{
  struct hwloc_topology *t = vp_seed_build(SEED, 0); struct vp_seed S = vp_seed;
  /* a name of symbolic length and content on one object, a non-full info array on another */
  unsigned L = (unsigned) vp_in_range(0, 5);
  char *nm = malloc(6); VP_NONNULL(nm);
  for (unsigned i = 0; i < 6; i++) { char c = (char) vp_in_byte(); nm[i] = i < L ? c : 0; if (i < L) VP_ASSUME(c != 0); }
  S.pu[0]->name = nm;
  hwloc__add_info(&S.pu[0]->infos, "a", "1");
  hwloc__add_info(&S.pu[0]->infos, "b", "2");
  struct hwloc_tma tma; tma.malloc = vp_exact_malloc; tma.dontfree = 1; tma.data = NULL;
  hwloc_topology_t n = NULL;
  int r = hwloc__topology_dup(&n, t, &tma);
  VP_CHECK(r == 0 && n && n != t, "dup succeeds");
  hwloc_obj_t npu = n->levels[n->nb_levels - 1][0];
  VP_CHECK(npu != S.pu[0] && npu->name && npu->name != nm, "dup: objects and their strings are fresh");
  for (unsigned i = 0; i < 6; i++) if (i <= L) VP_CHECK(npu->name[i] == nm[i], "dup: name copied byte for byte");
  VP_CHECK(npu->infos.count == 2 && npu->infos.array != S.pu[0]->infos.array && npu->infos.array[1].value[0] == '2' && npu->infos.array[1].value != S.pu[0]->infos.array[1].value, "dup: info pairs copied, not shared");
#ifdef VP_CBMC
  VP_CHECK(__CPROVER_OBJECT_SIZE(npu->infos.array) >= npu->infos.allocated * sizeof(struct hwloc_info_s), "dup: the copied info array really has the capacity it claims (later additions stay in bounds)");
#endif
  VP_CHECK(vp_w(npu->cpuset) == vp_w(S.pu[0]->cpuset) && npu->cpuset != S.pu[0]->cpuset && npu->gp_index == S.pu[0]->gp_index && npu->userdata == S.pu[0]->userdata, "dup: sets equal but not shared, gp_index and userdata verbatim");
  VP_CHECK(vp_w(n->allowed_cpuset) == vp_w(t->allowed_cpuset) && n->allowed_cpuset != t->allowed_cpuset && n->flags == t->flags && n->nb_levels == t->nb_levels, "dup: allowed sets, flags, depth");
  /* independence: mutating the copy leaves the original alone */
  hwloc_bitmap_clr(npu->cpuset, 0); npu->infos.array[0].value[0] = 'x';
  VP_CHECK(vp_w(S.pu[0]->cpuset) == 1 && S.pu[0]->infos.array[0].value[0] == '1', "dup: no mutable storage is shared");
  VP_WITNESS_IF(L == 5, "a five-character name duplicated");
}
