/* C20 — command-line tools compute what the library API defines: the hwloc-calc location evaluator.
 * Real code: utils/hwloc/hwloc-calc.h (header-inline evaluator shared by hwloc-calc, hwloc-bind, hwloc-info),
 * on the hand-linked topology of vp_mini.h (Machine, 2 Packages, PUs 0,1,2,5, 2 NUMA nodes). Diagnostics (asprintf of sets, fprintf) are not the subject: stubbed.
 * Process-level behaviour (exit statuses, option parsing, output formats) is outside.
 */
#if defined(FIX_S2) && !defined(FIX_SEED)
#define FIX_SEED 2
#endif
#ifdef FIX_SEED
/* the nested-NUMA template runs on seed S2 built by the real core: package 0 holds NUMA#0, and a CPU-less NUMA#2 hangs off
 * the machine — only the NODESET of the selected parent tells that NUMA#2 is not inside package 0 */
/* FIX_SEED 10: S1 with ONE NUMA node attached to the machine: the node is not inside any package, it only intersects them */
#define SEED FIX_SEED
#include "vp_seed.h"
#include <ctype.h>
static struct hwloc_topology *fixture_build(void) { return vp_seed_build(FIX_SEED, 0); }
#define FIX_CPUS vp_seed.cpus
#define FIX_NODES vp_seed.nodes
#else
#include "private/autogen/config.h"
#include "hwloc.h"
#include "private/private.h"
#include "private/misc.h"
#include <string.h>
#include <assert.h>
#include "vp_mini.h"
#include <ctype.h>
#ifdef VP_CBMC
void hwloc_internal_distances_refresh(hwloc_topology_t t) { (void) t; }
void hwloc_internal_memattrs_refresh(hwloc_topology_t t) { (void) t; }
int hwloc_hide_errors(void) { return 2; }
char *getenv(const char *n) { (void) n; return 0; }
#endif
#define vp_bm vp_mbm
#define vp_w vp_mw
static struct hwloc_topology *fixture_build(void) { return vp_mini_build(); }
#define FIX_CPUS 0x27UL
#define FIX_NODES 0x3UL
#endif
#ifdef VP_CBMC
/* glibc's isdigit is a table lookup through __ctype_b_loc(): a plain function instead (C locale) */
#undef isdigit
#undef isspace
int isdigit(int c) { return c >= '0' && c <= '9'; }
#endif
/* diagnostics only: keep the evaluator, drop the formatting */
static int vp_noprint(char **strp, hwloc_const_bitmap_t set) { (void) set; *strp = NULL; return 0; }
#define hwloc_bitmap_asprintf vp_noprint
#include "misc.h"
#include "hwloc-calc.h"
#undef hwloc_bitmap_asprintf

/* ---- range parser on arbitrary bytes -------------------------------------------------------------------------- */
#ifndef L
#define L 5
#endif
VP_HARNESS(h_range)
{
  char *s = malloc(L + 1); VP_NONNULL(s);
  for (unsigned i = 0; i < L; i++) s[i] = (char) vp_in_byte();
  s[L] = 0;
  int first = 77, amount = 77, step = 77, wrap = 77; const char *dot = (const char *) 1;
  int r = hwloc_calc_parse_range(s, &first, &amount, &step, &wrap, &dot, -1);
  VP_CHECK(r == 0 || r == -1, "parse_range returns 0 or -1");
  VP_CHECK(dot == NULL || (dot >= s && dot < s + L && *dot == '.'), "parse_range: the reported sub-location separator lies inside the string");
  if (r == 0) {
    VP_CHECK(step == 1 || step == 2, "parse_range: step 1 (ranges) or 2 (odd/even)");
    VP_CHECK(first >= 0, "parse_range: a non-negative first index");
    VP_CHECK(amount == -1 || amount >= 1 || (wrap && amount >= 0), "parse_range: an accepted range is never reversed (a negative amount would make the evaluator loop ~2^32 times)");
    VP_CHECK(wrap == 0 || amount != -1, "parse_range: wrapping only with an explicit width");
  }
  VP_WITNESS_IF(r == 0 && amount == 3 && first == 1, "a 1-3 range");
  VP_WITNESS_IF(r == 0 && wrap, "a wrapping range");
  VP_WITNESS_IF(r == -1, "rejected");
}

/* ---- location evaluator vs set algebra on the seed ---------------------------------------------------------------- */
#ifndef TYPE
#define TYPE 0        /* 0 pu, 1 pack, 2 numa */
#endif
#ifndef TPL
#define TPL 0         /* 0 "T:d"  1 "T:d-d"  2 "T:d-"  3 "T:d:d"  4 "T:all|odd|even"  5 "pack:d.pu:d"  6 "pack:d.numa:all"  7 "all"/"root" */
#endif
#ifndef OPP
#define OPP 0         /* 1: the location carries an operator prefix (~ x ^), chosen symbolically */
#endif
static const char *const tname[3] = { "pu", "pack", "numa" };
struct lvl { unsigned n; unsigned long c[4], ns[4]; unsigned os[4]; };
static void level_table(struct hwloc_topology *t, int type, struct lvl *lv)
{
  static const hwloc_obj_type_t ty[3] = { HWLOC_OBJ_PU, HWLOC_OBJ_PACKAGE, HWLOC_OBJ_NUMANODE };
  hwloc_obj_t o = NULL; lv->n = 0;
  while ((o = hwloc_get_next_obj_by_type(t, ty[type], o)) != NULL && lv->n < 4) { lv->c[lv->n] = vp_w(o->cpuset); lv->ns[lv->n] = vp_w(o->nodeset); lv->os[lv->n] = o->os_index; lv->n++; }
}
struct out { int r, expect_err; unsigned long oc, on, ec, en; };
static struct lvl lv, lpu, lnuma, lpack;      /* brute-force tables of the levels, computed once per query */
/* one evaluation with CONCRETE digits/keyword (d1, d2, kw are loop constants of the caller), symbolic accumulators,
 * indexing mode and operator */
static void one(struct hwloc_topology *t, unsigned d1, unsigned d2, unsigned kw, int logical, int mode, unsigned long ac, unsigned long an, struct out *o)
{
  struct hwloc_calc_location_context_s lc; lc.topology = t; lc.topodepth = hwloc_topology_get_depth(t); lc.only_hbm = -1; lc.logical = logical; lc.verbose = -1;
  struct hwloc_calc_set_context_s sc; sc.nodeset_input = 0; sc.cpuset_input_format = HWLOC_UTILS_CPUSET_FORMAT_HWLOC; sc.output_cpuset = vp_bm(ac); sc.output_nodeset = vp_bm(an);
  char *s = malloc(32); VP_NONNULL(s); unsigned p = 0;
#if OPP
  s[p++] = mode == 1 ? '~' : mode == 2 ? 'x' : '^';
#endif
  unsigned long ec = 0, en = 0; int expect_err = 0, open_ended = 0, sparse = 0;
#define SEL(i) do { if ((i) < lv.n) { ec |= lv.c[i]; en |= lv.ns[i]; } } while (0)
#define SELIDX(idx) do { if (lc.logical) SEL(idx); else for (unsigned k_ = 0; k_ < 4; k_++) if (k_ < lv.n && lv.os[k_] == (idx)) SEL(k_); } while (0)
#if TPL <= 4
  for (unsigned i = 0; tname[TYPE][i]; i++) s[p++] = tname[TYPE][i];
  s[p++] = ':';
#endif
#if TPL == 0
  s[p++] = (char) ('0' + d1); SELIDX(d1);
#elif TPL == 1
  s[p++] = (char) ('0' + d1); s[p++] = '-'; s[p++] = (char) ('0' + d2);
  if (d2 < d1) expect_err = 1; else for (unsigned i = 0; i < 6; i++) if (i >= d1 && i <= d2) SELIDX(i);
#elif TPL == 2
  s[p++] = (char) ('0' + d1); s[p++] = '-';
  /* hwloc(7): "x- enumerates all objects starting from index x": every object whose (logical or physical) index is >= d1 */
  for (unsigned i = 0; i < 4; i++) if (i < lv.n && (lc.logical ? i : lv.os[i]) >= d1) SEL(i);
  open_ended = 1;
#elif TPL == 3
  s[p++] = (char) ('0' + d1); s[p++] = ':'; s[p++] = (char) ('0' + d2);
  { unsigned i = d1; for (unsigned j = 0; j < 6; j++) if (j < d2) { if (i >= lv.n) i = 0; SELIDX(i); i++; } }
#elif TPL == 4
  { const char *k = kw == 0 ? "all" : kw == 1 ? "odd" : "even"; for (unsigned i = 0; k[i]; i++) s[p++] = k[i];
    /* hwloc(7): "all valid index values" / "all valid odd (even) index values", in the index space in use */
    for (unsigned i = 0; i < 4; i++) if (i < lv.n && (kw == 0 || ((lc.logical ? i : lv.os[i]) & 1) == (kw == 1))) SEL(i);
    open_ended = 1; }
#elif TPL == 5 || TPL == 6
  { const char *h = "pack:"; for (unsigned i = 0; h[i]; i++) s[p++] = h[i]; s[p++] = (char) ('0' + d1);
    const char *m = TPL == 5 ? ".pu:" : ".numa:all"; for (unsigned i = 0; m[i]; i++) s[p++] = m[i];
    if (TPL == 5) s[p++] = (char) ('0' + d2);
    /* parent: d1-th package (logical) or the package with os_index d1 */
    int par = -1; for (unsigned k = 0; k < 4; k++) if (k < lpack.n && (lc.logical ? k == d1 : lpack.os[k] == d1)) par = (int) k;
    if (par >= 0) { struct lvl *sub = TPL == 5 ? &lpu : &lnuma; unsigned rank = 0;
      for (unsigned k = 0; k < 4; k++) if (k < sub->n) {
        int inside = !(sub->c[k] && !(sub->c[k] & lpack.c[par])) && !(sub->ns[k] && !(sub->ns[k] & lpack.ns[par])) && (sub->c[k] || sub->ns[k]);
        if (inside) { int take = TPL == 6 || (lc.logical ? rank == d2 : sub->os[k] == d2); if (take) { ec |= sub->c[k]; en |= sub->ns[k]; } if (sub->os[k] != rank) sparse = 1; rank++; } } }
    if (TPL == 6) open_ended = 1; }
#else
  { const char *k = kw ? "all" : "root"; for (unsigned i = 0; k[i]; i++) s[p++] = k[i]; ec = FIX_CPUS; en = FIX_NODES; }
#endif
#if TPL <= 4
  for (unsigned i = 0; i < 4; i++) if (i < lv.n && lv.os[i] != i) sparse = 1;
#endif
#ifdef KF_C20_PHYSICAL_SPARSE
  /* known finding (known_findings.json): with physical input indexes, open-ended ranges and the all/odd/even keywords
   * enumerate index values below the NUMBER of objects instead of all valid index values; objects whose os_index is
   * not below that number are missed. Excluded: exactly those inputs. */
  if (!lc.logical && open_ended && sparse) { o->r = 98; return; }
#endif
  s[p] = 0;
  o->r = hwloc_calc_process_location_as_set(&lc, &sc, s);
  o->oc = vp_w(sc.output_cpuset); o->on = vp_w(sc.output_nodeset); o->ec = ec; o->en = en; o->expect_err = expect_err;
}
/* which of d2 / kw a template reads (the others are pinned to 0 so that each case is executed once) */
#ifndef DN
#define DN 6
#define DVALS { 0, 1, 2, 3, 4, 5 }
#endif
#define USES_D2 (TPL == 1 || TPL == 3 || TPL == 5)
#define USES_KW (TPL == 4 || TPL == 7)
#define USES_D1 (TPL != 4 && TPL != 7)
VP_HARNESS(h_location)
{
  struct hwloc_topology *t = fixture_build();
  level_table(t, TYPE, &lv); level_table(t, 0, &lpu); level_table(t, 2, &lnuma); level_table(t, 1, &lpack);
  int logical = vp_in_bool();
  unsigned long ac = vp_in64(), an = vp_in64(); VP_ASSUME(ac < 64 && an < 8);
  int mode = 0;      /* 0 add 1 clr 2 and 3 xor */
#if OPP
  mode = (int) vp_in_range(1, 3);
#endif
  unsigned d1 = (unsigned) vp_in_range(0, 5), d2 = (unsigned) vp_in_range(0, 5), kw = (unsigned) vp_in_range(0, 2);
  VP_ASSUME((USES_D1 || d1 == 0) && (USES_D2 || d2 == 0) && (USES_KW || kw == 0));
  /* the digits and the keyword select one of the concretely built strings: a symbolic character inside the text
   * would let symex follow every reading of it (a '.', a NUL, a letter) through the whole evaluator */
  struct out o; o.r = 99; o.expect_err = 0; o.oc = o.on = o.ec = o.en = 0;
  static const unsigned dv[DN] = DVALS;      /* the digit values a query ranges over (all of 0..5 unless the tier narrows it) */
  int in1 = !USES_D1, in2 = !USES_D2;
  for (unsigned i = 0; i < DN; i++) { if (d1 == dv[i]) in1 = 1; if (d2 == dv[i]) in2 = 1; }
  VP_ASSUME(in1 && in2);
  for (unsigned i1 = 0; i1 < (USES_D1 ? DN : 1); i1++) for (unsigned i2 = 0; i2 < (USES_D2 ? DN : 1); i2++) for (unsigned vk = 0; vk < (USES_KW ? 3 : 1); vk++) for (int vm = OPP ? 1 : 0; vm <= (OPP ? 3 : 0); vm++) {
    unsigned v1 = USES_D1 ? dv[i1] : 0, v2 = USES_D2 ? dv[i2] : 0;
    if (d1 == v1 && d2 == v2 && kw == vk && mode == vm) one(t, v1, v2, vk, logical, vm, ac, an, &o);
  }
  int r = o.r, expect_err = o.expect_err; unsigned long oc = o.oc, on = o.on, ec = o.ec, en = o.en;
  VP_CHECK(r != 99, "one case executed");
  VP_ASSUME(r != 98);      /* only with a known-finding exclusion macro */
  if (expect_err) { VP_CHECK(r == -1, "a reversed range is a malformed location: rejected"); VP_CHECK(oc == ac && on == an, "a rejected location leaves the accumulated sets unchanged"); }
  else {
    VP_CHECK(r == 0, "a well-formed location is accepted");
    unsigned long xc = mode == 0 ? (ac | ec) : mode == 1 ? (ac & ~ec) : mode == 2 ? (ac & ec) : (ac ^ ec);
    unsigned long xn = mode == 0 ? (an | en) : mode == 1 ? (an & ~en) : mode == 2 ? (an & en) : (an ^ en);
    VP_CHECK(oc == xc, "cpuset = accumulator (op) union of the cpusets of the named objects, by brute force on the topology");
    VP_CHECK(on == xn, "nodeset = accumulator (op) union of the nodesets of the named objects");
  }
  VP_WITNESS_IF(r == 0 && ec != 0 && oc != ac, "the location changed the accumulated cpuset");
#if TPL == 6
  VP_WITNESS_IF(r == 0 && d1 == 0 && en == 0x1, "only the NUMA node inside package 0 (not a CPU-less node attached elsewhere)");
#endif
}
