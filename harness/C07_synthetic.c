/* C07 — synthetic descriptions: safe parsing, faithful level table, index interleaving, export contract.
 * Real code: hwloc/topology-synthetic.c (textually included), hwloc_type_sscanf (traversal.c, linked),
 * export on seed S1 built by the real core. The level-array boundary is reached through the guarded hook
 * HWLOC_VERIF_SYNTHETIC_MAX_DEPTH (quick tier) and at the real 128 (thorough tier).
 */
#define SEED 1
#include "vp_seed.h"
#include "hwloc/topology-synthetic.c"

/* ---- depth boundary: n levels "d d ... d" with symbolic arity digits, optional ending ------------------------------- */
#ifndef NG
#define NG 2      /* number of typed Group levels before the final PU number */
#endif
VP_HARNESS(h_depth)
{
  struct hwloc_synthetic_backend_data_s *data = malloc(sizeof(*data));
  VP_NONNULL(data);
  /* "group:d group:d ... group:d d": every level typed, no NUMA written -> the parser inserts a NUMA level below the
   * machine by shifting the level table up by one (the memmove this harness is about) */
  char *s = malloc(8 * NG + 2);
  VP_NONNULL(s);
  unsigned dg[NG + 1], p = 0;
  /* arities are concrete (alternating 2,1): a symbolic digit makes strtoul's end pointer, hence every later parse
   * position, symbolic; this harness is about the level-count boundary, arbitrary content is h_parse_bytes */
  for (unsigned i = 0; i < NG; i++) { dg[i] = 2 - (i & 1); s[p++] = 'g'; s[p++] = 'r'; s[p++] = 'o'; s[p++] = 'u'; s[p++] = 'p'; s[p++] = ':'; s[p++] = (char) ('0' + dg[i]); s[p++] = ' '; }
  dg[NG] = 2; s[p++] = (char) ('0' + dg[NG]); s[p] = 0;
  errno = 0;
  int r = hwloc_backend_synthetic_init(data, s);
  /* machine + NG groups + PU = NG + 2 levels must stay below the table size, the implicit NUMA level then still fits */
  if (NG + 2 <= HWLOC_SYNTHETIC_MAX_DEPTH - 1) {
    VP_CHECK(r == 0, "a description whose levels fit the level table is accepted");
    VP_CHECK(data->level[0].attr.type == HWLOC_OBJ_MACHINE && data->level[0].arity == 1 && data->level[1].attr.type == HWLOC_OBJ_NUMANODE && data->level[1].arity == dg[0] && data->level[1].totalwidth == 1, "a single NUMA level is inserted below the machine");
    unsigned long w = 1;
    for (unsigned i = 0; i < NG; i++) { w *= dg[i]; VP_CHECK(data->level[i + 2].attr.type == HWLOC_OBJ_GROUP && data->level[i + 2].totalwidth == w && data->level[i + 2].arity == dg[i + 1], "Group levels with the arities and widths written in the string"); }
    VP_CHECK(data->level[NG + 2].attr.type == HWLOC_OBJ_PU && data->level[NG + 2].totalwidth == w * dg[NG] && data->level[NG + 2].arity == 0, "PU level last, terminated by arity 0");
  } else VP_CHECK(r == -1 && errno == EINVAL, "too many levels are rejected with EINVAL");
#if NG + 3 <= HWLOC_SYNTHETIC_MAX_DEPTH
  VP_WITNESS_IF(r == 0, "accepted");
#else
  VP_WITNESS_IF(r == -1, "rejected");
#endif
}

/* ---- arbitrary bytes ------------------------------------------------------------------------------------------------ */
#ifndef L
#define L 4
#endif
VP_HARNESS(h_parse_bytes)
{
  struct hwloc_synthetic_backend_data_s *data = malloc(sizeof(*data));
  VP_NONNULL(data);
  char *s = malloc(L + 1);
  VP_NONNULL(s);
  for (unsigned i = 0; i < L; i++) s[i] = (char) vp_in_byte();
  s[L] = 0;
  errno = 0;
  int r = hwloc_backend_synthetic_init(data, s);
  VP_CHECK(r == 0 || (r == -1 && errno == EINVAL), "set_synthetic parsing accepts or rejects with -1/EINVAL");
  if (r == 0) {
    unsigned n = 0, pu = 0; while (n < HWLOC_SYNTHETIC_MAX_DEPTH && data->level[n].arity) n++;
    for (unsigned i = 0; i <= n && i < HWLOC_SYNTHETIC_MAX_DEPTH; i++) if (data->level[i].attr.type == HWLOC_OBJ_PU) pu++;
    VP_CHECK(pu == 1 && data->level[n].attr.type == HWLOC_OBJ_PU, "an accepted description has exactly one PU level and it is the last one");
  }
  VP_WITNESS_IF(r == 0 && s[0] == '2' && s[1] == ' ', "a two-level description accepted");
  VP_WITNESS_IF(r == -1, "rejected");
}

/* ---- type-based index interleaving on pack:2 numa:2 core:2 pu:2 ------------------------------------------------------ */
static int idx_w1, idx_w2;
/* one description with CONCRETE type names (a symbolic character inside the text sends symex through every reading of it) */
static void indexes_case(unsigned s0, unsigned s1, unsigned s2)
{
  static const char *const names[3] = { "pack", "numa", "core" };
  unsigned sel[3] = { s0, s1, s2 };
  char *s = malloc(64); VP_NONNULL(s);
  const char *head = "pack:2 numa:2 core:2 pu:2(indexes=";
  unsigned p = 0; for (unsigned i = 0; head[i]; i++) s[p++] = head[i];
  for (unsigned k = 0; k < 3; k++) { for (unsigned i = 0; i < 4; i++) s[p++] = names[sel[k]][i]; s[p++] = k < 2 ? ':' : ')'; }
  s[p] = 0;
  struct hwloc_synthetic_backend_data_s *data = malloc(sizeof(*data));
  VP_NONNULL(data);
  int r = hwloc_backend_synthetic_init(data, s);
  VP_CHECK(r == 0, "description accepted");
  unsigned *arr = data->level[4].indexes.array;     /* levels: machine, pack, numa, core, pu */
  int distinct = sel[0] != sel[1] && sel[0] != sel[2] && sel[1] != sel[2];
  if (!distinct) VP_CHECK(arr == NULL, "a type listed twice makes the interleaving invalid: default ordering is used");
  else {
    VP_CHECK(arr != NULL, "a valid interleaving is honoured");
    unsigned weight[3]; for (unsigned k = 0; k < 3; k++) weight[sel[k]] = 1U << k;     /* first listed type varies fastest */
    for (unsigned l = 0; l < 16; l++) {
      unsigned c_pack = (l >> 3) & 1, c_numa = (l >> 2) & 1, c_core = (l >> 1) & 1, c_pu = l & 1;
      unsigned e = c_pack * weight[0] + c_numa * weight[1] + c_core * weight[2] + c_pu * 8;
      VP_CHECK(arr[l] == e, "os_index ordering is exactly the interleaving written in the string (first listed type fastest, unlisted levels slowest)");
    }
  }
  if (distinct && sel[0] == 2 && sel[1] == 1 && sel[2] == 0) idx_w1 = 1;
  if (!distinct) idx_w2 = 1;
}
VP_HARNESS(h_indexes_types)
{
  unsigned sel[3]; for (unsigned i = 0; i < 3; i++) sel[i] = (unsigned) vp_in_range(0, 2);
  for (unsigned a = 0; a < 3; a++) for (unsigned b = 0; b < 3; b++) for (unsigned c = 0; c < 3; c++) if (sel[0] == a && sel[1] == b && sel[2] == c) indexes_case(a, b, c);
  VP_WITNESS_IF(idx_w1, "core:numa:pack");
  VP_WITNESS_IF(idx_w2, "a duplicated type");
}

/* ---- index VALUES: explicit lists and numeric interleavings, incl. duplicates and loop counts whose product overflows ------------------ */
#ifndef IVN1
#define IVN1 3
#endif
#ifndef IVN2
#define IVN2 2
#endif
#ifndef IVMODE
#define IVMODE 0      /* 0: pu:3(indexes=a,b,c) with a,b,c in 0..3; 1: pu:4(indexes=S1*N1:S2*N2[:1*BIG]) */
#endif
static unsigned iv_runs, iv_kept, iv_dropped;
static unsigned put(char *s, unsigned p, const char *t) { for (unsigned i = 0; t[i]; i++) s[p++] = t[i]; return p; }
static void values_case(unsigned a, unsigned b, unsigned c, unsigned d, unsigned e)
{
  static const char *const dig[4] = { "0", "1", "2", "3" };
  static const char *const nbn[4] = { "2", "2147483648", "4", "1" };      /* the first IVN1 / IVN2 of them are used for the first / second loop */
  static const char *const stp[2] = { "1", "2" };
  char *s = malloc(96); VP_NONNULL(s);
  unsigned p = 0, total;
#if IVMODE == 0
  (void) d; (void) e; total = 3;
  p = put(s, p, "pu:3(indexes="); p = put(s, p, dig[a]); p = put(s, p, ","); p = put(s, p, dig[b]); p = put(s, p, ","); p = put(s, p, dig[c]); p = put(s, p, ")");
#else
  total = 4;
  p = put(s, p, "pu:4(indexes="); p = put(s, p, stp[a]); p = put(s, p, "*"); p = put(s, p, nbn[b]); p = put(s, p, ":"); p = put(s, p, stp[c]); p = put(s, p, "*"); p = put(s, p, nbn[d]);
  if (e) p = put(s, p, ":1*2147483648");
  p = put(s, p, ")");
#endif
  s[p] = 0;
  struct hwloc_synthetic_backend_data_s *data = malloc(sizeof(*data)); VP_NONNULL(data);
  errno = 0;
  int r = hwloc_backend_synthetic_init(data, s);
  iv_runs++;
  VP_CHECK(r == 0 || (r == -1 && errno == EINVAL), "indexes: the description is accepted or rejected with -1/EINVAL (never an abort)");
  if (r) return;
  unsigned pl = 0; while (pl < 4 && data->level[pl].attr.type != HWLOC_OBJ_PU) pl++;      /* machine, (a NUMA level is added when none is written), pu */
  VP_CHECK(pl < 4, "indexes: the PU level exists"); if (pl >= 4) return;
  unsigned *arr = data->level[pl].indexes.array;
  if (arr) {
    /* what is kept must give every object its own os_index: objects with equal indexes are merged and the level loses its width */
    for (unsigned i = 0; i < total; i++) for (unsigned j = 0; j < i; j++) VP_CHECK(arr[i] != arr[j], "indexes: the indexes kept for a level are pairwise distinct (the level keeps the arity written in the string)");
#if IVMODE == 0
    VP_CHECK(arr[0] == a && arr[1] == b && arr[2] == c, "indexes: an explicit list is taken as written");
#else
    for (unsigned i = 0; i < total; i++) VP_CHECK(arr[i] < total, "indexes: an interleaving yields a permutation of 0..n-1");
#endif
    iv_kept++;
  } else {
#if IVMODE == 0
    VP_CHECK(a == b || a == c || b == c, "indexes: a list of distinct values is honoured");
#endif
    iv_dropped++;
  }
}
VP_HARNESS(h_indexes_values)
{
#if IVMODE == 0
  unsigned x = (unsigned) vp_in_range(0, 3), y = (unsigned) vp_in_range(0, 3), z = (unsigned) vp_in_range(0, 3);
  for (unsigned a = 0; a < 4; a++) for (unsigned b = 0; b < 4; b++) for (unsigned c = 0; c < 4; c++) if (x == a && y == b && z == c) values_case(a, b, c, 0, 0);
#else
  unsigned x = (unsigned) vp_in_range(0, 1), y = (unsigned) vp_in_range(0, IVN1 - 1), z = (unsigned) vp_in_range(0, 1), u = (unsigned) vp_in_range(0, IVN2 - 1), v = (unsigned) vp_in_range(0, 1);
  for (unsigned a = 0; a < 2; a++) for (unsigned b = 0; b < IVN1; b++) for (unsigned c = 0; c < 2; c++) for (unsigned d = 0; d < IVN2; d++) for (unsigned e = 0; e < 2; e++) if (x == a && y == b && z == c && u == d && v == e) values_case(a, b, c, d, e);
#endif
  VP_WITNESS_IF(iv_kept >= 1, "an index specification honoured");
  VP_WITNESS_IF(iv_dropped >= 1, "an invalid index specification ignored");
}

/* ---- export: snprintf contract and flag validation on the symmetric seed S1 --------------------------------------------- */
#define CAP 64
VP_HARNESS(h_export_cursor)
{
  struct hwloc_topology *t = vp_seed_build(1, 0);
  VP_ASSUME(t->levels[0][0]->symmetric_subtree);
  unsigned long flags = vp_in64();
  char *full = malloc(CAP + 1), *buf = malloc(CAP + 1);
  VP_NONNULL(full); VP_NONNULL(buf);
  size_t len = (size_t) vp_in_range(0, CAP);
  unsigned char canary = vp_in_byte();
  for (unsigned i = 0; i <= CAP; i++) { buf[i] = (char) canary; full[i] = 0; }
  errno = 0;
  int n = hwloc_topology_export_synthetic(t, full, CAP + 1, flags);
  unsigned long known = HWLOC_TOPOLOGY_EXPORT_SYNTHETIC_FLAG_NO_EXTENDED_TYPES | HWLOC_TOPOLOGY_EXPORT_SYNTHETIC_FLAG_NO_ATTRS | HWLOC_TOPOLOGY_EXPORT_SYNTHETIC_FLAG_V1 | HWLOC_TOPOLOGY_EXPORT_SYNTHETIC_FLAG_IGNORE_MEMORY;
  if (flags & ~known) VP_CHECK(n == -1 && errno == EINVAL, "export_synthetic: unknown flags -> EINVAL");
  else {
    VP_CHECK(n > 0, "export_synthetic succeeds on a symmetric topology for every known flag subset");
    VP_ASSUME(n < CAP);
    int m = hwloc_topology_export_synthetic(t, buf, len, flags);
    VP_CHECK(m == n, "export_synthetic returns the length the untruncated text needs, for every buffer length");
    for (unsigned i = 0; i <= CAP; i++) if (i >= len) VP_CHECK(buf[i] == (char) canary, "export_synthetic never writes at or beyond buffer+buflen");
    if (len > 0) {
      size_t end = (size_t) n < len - 1 ? (size_t) n : len - 1;
      VP_CHECK(buf[end] == 0, "export_synthetic NUL-terminates whenever buflen > 0");
      for (unsigned i = 0; i < CAP; i++) if (i < end) VP_CHECK(buf[i] == full[i], "the truncated text is a prefix of the full text");
    }
  }
  VP_WITNESS_IF(n > 10 && len > 4 && len < (size_t) n, "a truncated export");
  VP_WITNESS_IF(n == -1, "unknown flags");
}
