/* C10 (native part) — the Linux thread-binding hooks against a kernel model.
 * Real code: hwloc/topology-linux.c (textually included): hwloc_linux_set_tid_cpubind,
 * hwloc_linux_get_tid_cpubind, hwloc_linux_find_kernel_nr_cpus, the thisthread/thread hooks built on them.
 * The live round trip of the property ("bind the current thread to S, read it back, get S") cannot run on a
 * solver; what can be decided is its software half: for EVERY mask the kernel may hold and EVERY set the caller
 * passes, the bytes handed to sched_setaffinity are exactly the set, and the bitmap produced from
 * sched_getaffinity is exactly the kernel's mask — whatever the output bitmap contained before.
 * Kernel model: one affinity mask of KNR bits; sched_getaffinity fails with EINVAL when the buffer is smaller
 * than the kernel's mask (what Linux does), sched_setaffinity ignores bits beyond KNR and fails with EINVAL on an
 * empty intersection. /sys is absent (open fails): the probing loop of find_kernel_nr_cpus runs for real.
 */
#define RUNSTATEDIR "/nonexistent"
#include "private/autogen/config.h"
#include "vp.h"
#include <sched.h>
#include <errno.h>
#include <stdlib.h>
#ifndef KNR
#define KNR 128                 /* kernel CONFIG_NR_CPUS in the model */
#endif
static unsigned long vp_kmask[KNR / 64];
static int vp_setaff_calls, vp_getaff_calls; static size_t vp_last_setsize;
#ifdef VP_CBMC
/* a fixed 32-byte block whatever the count (a block of symbolic size is an array-theory object: no verdict); the
 * CPU_*_S macros bound every access by the setsize argument themselves, and the kernel model only reads setsize bytes */
cpu_set_t *__sched_cpualloc(size_t count) { __CPROVER_assert(CPU_ALLOC_SIZE(count) <= 32, "VP_MODEL: cpu_set_t larger than the model's 256 CPUs"); unsigned long *p = malloc(4 * sizeof(unsigned long)); __CPROVER_assume(p != 0); return (cpu_set_t *) p; }
void __sched_cpufree(cpu_set_t *set) { free(set); }
int sched_getaffinity(pid_t pid, size_t setsize, cpu_set_t *set)
{
  (void) pid; vp_getaff_calls++;
  if (setsize * 8 < KNR) { errno = EINVAL; return -1; }
  for (size_t i = 0; i < setsize / 8; i++) ((unsigned long *) set)[i] = i < KNR / 64 ? vp_kmask[i] : 0UL;
  return 0;
}
int sched_setaffinity(pid_t pid, size_t setsize, const cpu_set_t *set)
{
  (void) pid; vp_setaff_calls++; vp_last_setsize = setsize;
  unsigned long m[KNR / 64]; int any = 0;
  for (size_t i = 0; i < KNR / 64; i++) { m[i] = i < setsize / 8 ? ((const unsigned long *) set)[i] : 0UL; any |= m[i] != 0; }
  if (!any) { errno = EINVAL; return -1; }
  for (size_t i = 0; i < KNR / 64; i++) vp_kmask[i] = m[i];
  return 0;
}
int open(const char *p, int fl, ...) { (void) p; (void) fl; errno = ENOENT; return -1; }
int openat(int d, const char *p, int fl, ...) { (void) d; (void) p; (void) fl; errno = ENOENT; return -1; }
char *getenv(const char *n) { (void) n; return 0; }
int hwloc_hide_errors(void) { return 2; }
#else
/* native replay: the same kernel model interposed in front of the real syscalls */
#define sched_getaffinity vp_sched_getaffinity
#define sched_setaffinity vp_sched_setaffinity
static int vp_sched_getaffinity(pid_t pid, size_t setsize, cpu_set_t *set)
{
  (void) pid; vp_getaff_calls++;
  if (setsize * 8 < KNR) { errno = EINVAL; return -1; }
  for (size_t i = 0; i < setsize / 8; i++) ((unsigned long *) set)[i] = i < KNR / 64 ? vp_kmask[i] : 0UL;
  return 0;
}
static int vp_sched_setaffinity(pid_t pid, size_t setsize, const cpu_set_t *set)
{
  (void) pid; vp_setaff_calls++; vp_last_setsize = setsize;
  unsigned long m[KNR / 64]; int any = 0;
  for (size_t i = 0; i < KNR / 64; i++) { m[i] = i < setsize / 8 ? ((const unsigned long *) set)[i] : 0UL; any |= m[i] != 0; }
  if (!any) { errno = EINVAL; return -1; }
  for (size_t i = 0; i < KNR / 64; i++) vp_kmask[i] = m[i];
  return 0;
}
#endif
#include "hwloc/topology-linux.c"

/* a two-object topology is all these hooks read: levels[0][0]->complete_cpuset */
static struct hwloc_topology *mk_topo(unsigned long cw0, unsigned long cw1, int has_complete)
{
  struct hwloc_topology *t = malloc(sizeof *t); VP_NONNULL(t);
  static const struct hwloc_topology tz; *t = tz;
  hwloc_obj_t root = malloc(sizeof *root); VP_NONNULL(root);
  static const struct hwloc_obj oz; *root = oz;
  hwloc_obj_t *lv = malloc(sizeof *lv); VP_NONNULL(lv); lv[0] = root;
  hwloc_obj_t **lvs = malloc(sizeof *lvs); VP_NONNULL(lvs); lvs[0] = lv;
  t->levels = lvs; t->nb_levels = 1;
  if (has_complete) {
    root->complete_cpuset = hwloc_bitmap_alloc(); VP_NONNULL(root->complete_cpuset);
    hwloc_bitmap_set_ith_ulong(root->complete_cpuset, 0, cw0);
    hwloc_bitmap_set_ith_ulong(root->complete_cpuset, 1, cw1);
  }
  return t;
}
static unsigned long wd(hwloc_const_bitmap_t b, unsigned i) { return hwloc_bitmap_to_ith_ulong(b, i); }

/* get: the bitmap is the kernel mask cut at the last CPU of the complete cpuset, whatever it contained before */
VP_HARNESS(h_linux_get)
{
  unsigned long cw0 = vp_in64(), cw1 = vp_in64(); int hc = vp_in_bool();
  struct hwloc_topology *t = mk_topo(cw0, cw1, hc);
  vp_kmask[0] = vp_in64(); vp_kmask[1] = vp_in64();
  unsigned long p0 = vp_in64(), p1 = vp_in64(), p2 = vp_in64(); int pinf = vp_in_bool();
  hwloc_bitmap_t out = hwloc_bitmap_alloc(); VP_NONNULL(out);
  hwloc_bitmap_set_ith_ulong(out, 0, p0); hwloc_bitmap_set_ith_ulong(out, 1, p1); hwloc_bitmap_set_ith_ulong(out, 2, p2);
  if (pinf) hwloc_bitmap_set_range(out, 192, -1);
  int r = hwloc_linux_get_tid_cpubind(t, 0, out);
  VP_CHECK(r == 0, "get_tid_cpubind succeeds once the probing loop has found the kernel mask size");
  int last = -1;
  if (hc) last = cw1 ? 64 + (63 - __builtin_clzl(cw1)) : cw0 ? 63 - __builtin_clzl(cw0) : -1;
  if (last == -1) last = KNR - 1;
  unsigned long m0 = vp_kmask[0], m1 = vp_kmask[1];
  if (last < 63) { m0 &= (2UL << last) - 1; m1 = 0; } else if (last == 63) m1 = 0; else if (last < 127) m1 &= (2UL << (last - 64)) - 1;
  VP_CHECK(wd(out, 0) == m0 && wd(out, 1) == m1, "get_tid_cpubind: the result is the kernel's mask up to the last CPU of the complete cpuset");
  VP_CHECK(wd(out, 2) == 0 && wd(out, 3) == 0 && !hwloc_bitmap_isfull(out) && hwloc_bitmap_last(out) <= last, "get_tid_cpubind: nothing of the previous content of the output bitmap survives");
  VP_WITNESS_IF(p0 == ~0UL && m0 == 0x5 && wd(out, 0) == 0x5, "a full output bitmap overwritten by a two-CPU mask");
  VP_WITNESS_IF(!hc, "topology not ready yet: kernel size used");
}

#ifndef NCPU
#define NCPU 3
#endif
/* set then get through the kernel model */
VP_HARNESS(h_linux_roundtrip)
{
  unsigned long cw0 = vp_in64(), cw1 = vp_in64();
  struct hwloc_topology *t = mk_topo(cw0, cw1, 1);
  /* the set: NCPU symbolic CPU numbers below 128 (possibly equal). The hook walks the set with hwloc_bitmap_next, once
   * per CPU: the number of CPUs is the loop bound, checked by the unwinding assertion */
  unsigned long s0 = 0, s1 = 0;
  for (unsigned i = 0; i < NCPU; i++) { unsigned c = (unsigned) vp_in_range(0, 127); if (c < 64) s0 |= 1UL << c; else s1 |= 1UL << (c - 64); }
  VP_ASSUME(!(s0 & ~cw0) && !(s1 & ~cw1));      /* what the generic layer lets through: non-empty, inside the complete cpuset */
  hwloc_bitmap_t set = hwloc_bitmap_alloc(); VP_NONNULL(set);
  hwloc_bitmap_set_ith_ulong(set, 0, s0); hwloc_bitmap_set_ith_ulong(set, 1, s1);
  vp_kmask[0] = vp_in64(); vp_kmask[1] = vp_in64();
  int r = hwloc_linux_set_tid_cpubind(t, 0, set);
  VP_CHECK(r == 0 && vp_setaff_calls == 1, "set_tid_cpubind hands the set to the kernel once");
  VP_CHECK(vp_kmask[0] == s0 && vp_kmask[1] == s1, "set_tid_cpubind: the kernel receives exactly the requested CPUs");
  VP_CHECK(vp_last_setsize * 8 > (size_t) hwloc_bitmap_last(set), "set_tid_cpubind: the mask buffer covers the last requested CPU");
  hwloc_bitmap_t out = hwloc_bitmap_alloc_full(); VP_NONNULL(out);
  r = hwloc_linux_get_tid_cpubind(t, 0, out);
  VP_CHECK(r == 0 && hwloc_bitmap_isequal(out, set), "bind then read back returns the bound set");
  VP_WITNESS_IF(s1 == 1UL << 63 && (s0 & 1), "CPUs 0 and 127 bound together");
}
