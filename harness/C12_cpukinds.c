/* C12 — CPU kinds are duplicated into fresh, independent storage.
 * Real code: hwloc_internal_cpukinds_dup (cpukinds.c, linked), hwloc__tma_dup_infos (topology.c, linked),
 * hwloc_bitmap_tma_dup (bitmap.c, linked). The table is built directly in its representation from symbolic contents
 * (registration is C15's subject): NK kinds with arbitrary 1-word cpusets, efficiencies and ranking values, one of them
 * carrying an info pair in a half-full array.
 */
#include "private/autogen/config.h"
#include "hwloc.h"
#include "private/private.h"
#include "private/misc.h"
#include <string.h>
#include "vp_mini.h"
#define vp_w vp_mw
#ifdef VP_CBMC
int hwloc_hide_errors(void) { return 2; }
char *getenv(const char *n) { (void) n; return 0; }
#endif
#ifndef NK
#define NK 2
#endif
VP_HARNESS(h_cpukinds_dup)
{
  struct hwloc_topology *T, *N; VP_NEW(struct hwloc_topology, T); VP_NEW(struct hwloc_topology, N);
  struct hwloc_internal_cpukind_s *k = malloc(4 * sizeof(struct hwloc_internal_cpukind_s)); VP_NONNULL(k);
  unsigned long w[NK];
  for (unsigned i = 0; i < NK; i++) {
    static const struct hwloc_internal_cpukind_s kz; k[i] = kz;
    w[i] = vp_in64(); k[i].cpuset = vp_mbm(w[i]); k[i].efficiency = vp_in_int(); k[i].forced_efficiency = vp_in_int(); k[i].ranking_value = vp_in64();
  }
  struct hwloc_info_s *ia = malloc(8 * sizeof(struct hwloc_info_s)); VP_NONNULL(ia);
  ia[0].name = strdup("CoreType"); ia[0].value = strdup("IntelAtom"); VP_NONNULL(ia[0].name); VP_NONNULL(ia[0].value);
  k[0].infos.array = ia; k[0].infos.count = 1; k[0].infos.allocated = 8;
  T->cpukinds = k; T->nr_cpukinds = NK; T->nr_cpukinds_allocated = 4;
  int r = hwloc_internal_cpukinds_dup(N, T);
  VP_CHECK(r == 0 && N->nr_cpukinds == NK && N->cpukinds != NULL && N->cpukinds != T->cpukinds && N->nr_cpukinds_allocated >= NK, "cpukinds dup: same number of kinds in fresh storage");
#ifdef VP_CBMC
  VP_CHECK(__CPROVER_OBJECT_SIZE(N->cpukinds) >= N->nr_cpukinds_allocated * sizeof(struct hwloc_internal_cpukind_s), "cpukinds dup: the copied table has the capacity it claims");
#endif
  for (unsigned i = 0; i < NK; i++) {
    struct hwloc_internal_cpukind_s *o = &T->cpukinds[i], *n = &N->cpukinds[i];
    VP_CHECK(n->cpuset != o->cpuset && vp_w(n->cpuset) == w[i] && n->efficiency == o->efficiency && n->forced_efficiency == o->forced_efficiency && n->ranking_value == o->ranking_value, "cpukinds dup: cpuset equal but not shared, efficiencies and ranking verbatim");
    VP_CHECK(n->infos.count == o->infos.count && (o->infos.count == 0 || (n->infos.array != o->infos.array && n->infos.array[0].name != o->infos.array[0].name && n->infos.array[0].value != o->infos.array[0].value && n->infos.array[0].value[5] == 'A' && n->infos.array[0].name[0] == 'C')), "cpukinds dup: info pairs copied, not shared");
    if (o->infos.count) VP_CHECK(n->infos.allocated >= n->infos.count, "cpukinds dup: info capacity covers the pairs");
  }
  /* independence in both directions */
  hwloc_bitmap_zero(N->cpukinds[0].cpuset); N->cpukinds[0].infos.array[0].value[0] = 'x';
  VP_CHECK(vp_w(T->cpukinds[0].cpuset) == w[0] && T->cpukinds[0].infos.array[0].value[0] == 'I', "cpukinds dup: independent under mutation of the copy");
  hwloc_bitmap_fill(T->cpukinds[NK - 1].cpuset);
  VP_CHECK(vp_w(N->cpukinds[NK - 1].cpuset) == (NK == 1 ? 0 : w[NK - 1]), "cpukinds dup: independent under mutation of the original");
  VP_WITNESS_IF(w[0] == 0x3 && w[NK - 1] == 0x24, "kinds {0,1} and {2,5} duplicated");
}
