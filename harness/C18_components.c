/* C18 — "... under every component selection": the parser of HWLOC_COMPONENTS (blacklisting with '-', explicit enabling, "stop",
 * phase suffixes) on EVERY string of L arbitrary bytes, against a registry of two fake discovery components whose
 * instantiation may fail. Real code: hwloc/components.c (textually included): hwloc_disc_components_enable_others,
 * hwloc_disc_component_blacklist_one, hwloc_disc_component_find, hwloc_phases_from_string, hwloc_disc_component_try_enable,
 * hwloc_backend_alloc / hwloc_backend_enable.
 */
#include "vp.h"
#include <stdlib.h>
static const char *vp_env_components;
#ifdef VP_CBMC
char *getenv(const char *n) { return (n[0] == 'H' && n[6] == 'C' && n[7] == 'O' && n[8] == 'M' && n[15] == 'S' && n[16] == 0) ? (char *) vp_env_components : 0; }      /* HWLOC_COMPONENTS only */
int hwloc_hide_errors(void) { return 2; }
/* the variable's value has a CONCRETE length per harness instance (L): strlen of that one string returns the constant, so that the
 * parser's strdup() copy has a concrete size (a block of symbolic size is an array-theory object: the solver ran out of memory) */
static const char *vp_known_str; static size_t vp_known_len;
size_t strlen(const char *p) { if (vp_known_str && p == vp_known_str) return vp_known_len; size_t n = 0; while (p[n]) n++; return n; }
char *strdup(const char *p) { size_t n = strlen(p); char *q = malloc(n + 1); __CPROVER_assume(q != 0); for (size_t i = 0; i <= n; i++) q[i] = p[i]; return q; }
#endif
#include "hwloc/components.c"

#ifndef L
#define L 4
#endif
static int vp_inst_fail[2]; static unsigned vp_inst_calls[2], vp_inst_excl[2];
static struct hwloc_backend *inst(struct hwloc_topology *t, struct hwloc_disc_component *c, unsigned excluded, const void *d1, const void *d2, const void *d3)
{
  (void) d1; (void) d2; (void) d3;
  unsigned k = c->name[0] == 'x' ? 1 : 0;
  vp_inst_calls[k]++; vp_inst_excl[k] = excluded;
  if (vp_inst_fail[k]) return NULL;
  return hwloc_backend_alloc(t, c, 0);
}
VP_HARNESS(h_components_env)
{
  static struct hwloc_disc_component c0, c1; static struct hwloc_topology T;
  memset(&T, 0, sizeof T); memset(&c0, 0, sizeof c0); memset(&c1, 0, sizeof c1);
  c0.name = "lx"; c0.phases = HWLOC_DISC_PHASE_CPU | HWLOC_DISC_PHASE_MEMORY; c0.excluded_phases = 0; c0.instantiate = inst; c0.priority = 50; c0.enabled_by_default = 1; c0.next = &c1;
  c1.name = "x"; c1.phases = HWLOC_DISC_PHASE_CPU; c1.excluded_phases = 0; c1.instantiate = inst; c1.priority = 45; c1.enabled_by_default = vp_in_bool() ? 1 : 0; c1.next = NULL;
  hwloc_disc_components = &c0;
  hwloc_topology_components_init(&T);
  vp_inst_fail[0] = vp_in_bool(); vp_inst_fail[1] = vp_in_bool();
  char *env = malloc(L + 1); VP_NONNULL(env);
  for (unsigned i = 0; i < L; i++) { char c = (char) vp_in_byte(); VP_ASSUME(c != 0); env[i] = c; }
  env[L] = 0;
#ifdef VP_CBMC
  vp_known_str = env; vp_known_len = L;
#endif
  int have_env = vp_in_bool();
  vp_env_components = have_env ? env : NULL;
  char copy[L + 1]; for (unsigned i = 0; i <= L; i++) copy[i] = env[i];
  hwloc_disc_components_enable_others(&T);
  /* the environment string itself is never modified (the parser works on a copy) */
  for (unsigned i = 0; i <= L; i++) VP_CHECK(env[i] == copy[i], "HWLOC_COMPONENTS itself is not modified");
  /* every enabled backend belongs to a registered component, no component twice, blacklisted phases are removed */
  unsigned n = 0, seen = 0;
  for (struct hwloc_backend *b = T.backends; b && n < 3; b = b->next, n++) {
    unsigned k = b->component == &c0 ? 0 : b->component == &c1 ? 1 : 2;
    VP_CHECK(k < 2 && !(seen & (1U << k)), "enabled backends belong to registered components, each at most once");
    seen |= 1U << k;
    VP_CHECK(!vp_inst_fail[k], "a component whose instantiation fails is not enabled");
    unsigned bl = 0; for (unsigned i = 0; i < T.nr_blacklisted_components && i < 2; i++) if (T.blacklisted_components[i].component == b->component) bl = T.blacklisted_components[i].phases;
    VP_CHECK(!(b->phases & bl) && (b->phases & ~bl), "an enabled backend keeps none of its blacklisted phases and at least one phase");
  }
  VP_CHECK(n <= 2, "at most one backend per component");
  VP_CHECK(T.nr_blacklisted_components <= 2, "at most one blacklist entry per component");
  if (!have_env) VP_CHECK(((seen & 1) != 0) == !vp_inst_fail[0] && ((seen & 2) != 0) == (c1.enabled_by_default && !vp_inst_fail[1]), "without HWLOC_COMPONENTS exactly the default components that instantiate are enabled");
#if L == 2
  VP_WITNESS_IF(have_env && env[0] == '-' && env[1] == 'x' && !(seen & 2) && (seen & 1), "\"-x\": the component is blacklisted, the other default one enabled");
#elif L == 4
  VP_WITNESS_IF(have_env && env[0] == 's' && env[1] == 't' && env[2] == 'o' && env[3] == 'p' && n == 0, "\"stop\": nothing enabled");
#elif L == 3
  VP_WITNESS_IF(have_env && env[0] == 'x' && env[1] == ',' && seen == 3, "an explicitly listed component first, then the defaults");
#else
  VP_WITNESS_IF(n >= 1, "a backend enabled");
#endif
}
