/* C14 — memory attributes: stored values are returned, best-of queries are optimal.
 * Real code: hwloc/memattrs.c (textually included). The attribute table is built directly in its
 * representation (what register/set_value produce), targets refer to two fake NUMA node records; object
 * lookups (refresh) go through a harness stub. hwloc_get_local_numanode_objs / default nodeset run on a
 * tiny hand-linked NUMA level.
 *   target 0: NUMA#0 (cpuset {0,1,2}) with initiators {PU0}=V0 and {PU1,PU2}=V1;  target 1: NUMA#2 (CPU-less) with {PU0}=V2
 */
#include "vp.h"
#include "hwloc/memattrs.c"

static struct hwloc_topology T;
static struct hwloc_obj N0, N2, ROOT, PKG; static union hwloc_obj_attr_u A0, A2;
static struct hwloc_internal_memattr_s ATTRS[3];      /* Capacity, Locality (convenience), custom X */
#define X 2
static struct hwloc_internal_memattr_target_s TG[4];   /* room for one more */
static struct hwloc_internal_memattr_initiator_s I0[4], I1[4];
static uint64_t V[3]; static int higher;
static hwloc_obj_t numa_lvl[2];

static hwloc_bitmap_t bm(unsigned long m) { hwloc_bitmap_t b = hwloc_bitmap_alloc(); VP_NONNULL(b); hwloc_bitmap_from_ulong(b, m); return b; }
static unsigned long w(hwloc_const_bitmap_t b) { return b ? hwloc_bitmap_to_ulong(b) : 0; }
static struct hwloc_location loc_cpuset(hwloc_bitmap_t b) { struct hwloc_location l; l.type = HWLOC_LOCATION_TYPE_CPUSET; l.location.cpuset = b; return l; }

/* environment */
static unsigned vp_exists = 7;     /* bit0 NUMA#0, bit1 NUMA#2, bit2 PKG */
hwloc_obj_t hwloc_get_obj_by_type_and_gp_index(hwloc_topology_t t, hwloc_obj_type_t type, uint64_t gp)
{ (void) t; if (type == HWLOC_OBJ_NUMANODE && gp == 10) return vp_exists & 1 ? &N0 : NULL; if (type == HWLOC_OBJ_NUMANODE && gp == 12) return vp_exists & 2 ? &N2 : NULL; if (type == HWLOC_OBJ_PACKAGE && gp == 20) return vp_exists & 4 ? &PKG : NULL; return NULL; }
#ifdef VP_CBMC
int hwloc_get_type_depth(hwloc_topology_t t, hwloc_obj_type_t type) { (void) t; return type == HWLOC_OBJ_NUMANODE ? HWLOC_TYPE_DEPTH_NUMANODE : type == HWLOC_OBJ_MACHINE ? 0 : HWLOC_TYPE_DEPTH_UNKNOWN; }
hwloc_obj_t hwloc_get_obj_by_depth(hwloc_topology_t t, int depth, unsigned idx) { (void) t; if (depth == HWLOC_TYPE_DEPTH_NUMANODE) return idx < 2 ? numa_lvl[idx] : NULL; if (depth == 0 && idx == 0) return &ROOT; return NULL; }
unsigned hwloc_get_nbobjs_by_depth(hwloc_topology_t t, int depth) { (void) t; return depth == HWLOC_TYPE_DEPTH_NUMANODE ? 2 : depth == 0 ? 1 : 0; }
int hwloc_hide_errors(void) { return 2; }
char *getenv(const char *n) { (void) n; return 0; }
#endif

static void setup(void)
{
  memset(&T, 0, sizeof T);
  T.state = HWLOC_TOPOLOGY_STATE_IS_LOADED;
  for (unsigned ty = 0; ty < HWLOC_OBJ_TYPE_MAX; ty++) T.type_depth[ty] = HWLOC_TYPE_DEPTH_UNKNOWN;
  T.type_depth[HWLOC_OBJ_MACHINE] = 0; T.type_depth[HWLOC_OBJ_NUMANODE] = HWLOC_TYPE_DEPTH_NUMANODE;
  static hwloc_obj_t lv0[1]; static hwloc_obj_t *lvs[1]; static unsigned lvn[1];
  lv0[0] = &ROOT; lvs[0] = lv0; lvn[0] = 1; T.levels = lvs; T.level_nbobjects = lvn; T.nb_levels = 1;
  ROOT.type = HWLOC_OBJ_MACHINE; ROOT.cpuset = bm(0x27); ROOT.nodeset = bm(0x5); ROOT.complete_cpuset = bm(0x27); ROOT.complete_nodeset = bm(0x5);
  N0.type = HWLOC_OBJ_NUMANODE; N0.gp_index = 10; N0.os_index = 0; N0.cpuset = bm(0x7); N0.nodeset = bm(0x1); N0.attr = &A0; N0.logical_index = 0; N0.depth = HWLOC_TYPE_DEPTH_NUMANODE;
  N2.type = HWLOC_OBJ_NUMANODE; N2.gp_index = 12; N2.os_index = 2; N2.cpuset = bm(0x0); N2.nodeset = bm(0x4); N2.attr = &A2; N2.logical_index = 1; N2.depth = HWLOC_TYPE_DEPTH_NUMANODE;
  N0.next_cousin = &N2; N2.prev_cousin = &N0; numa_lvl[0] = &N0; numa_lvl[1] = &N2;
  T.slevels[HWLOC_SLEVEL_NUMANODE].objs = numa_lvl; T.slevels[HWLOC_SLEVEL_NUMANODE].nbobjs = 2; T.slevels[HWLOC_SLEVEL_NUMANODE].first = &N0; T.slevels[HWLOC_SLEVEL_NUMANODE].last = &N2;
  PKG.type = HWLOC_OBJ_PACKAGE; PKG.gp_index = 20; PKG.cpuset = bm(0x20);
  higher = vp_in_bool();
  memset(ATTRS, 0, sizeof ATTRS);
  ATTRS[0].name = (char *) "Capacity"; ATTRS[0].flags = HWLOC_MEMATTR_FLAG_HIGHER_FIRST; ATTRS[0].iflags = HWLOC_IMATTR_FLAG_STATIC_NAME | HWLOC_IMATTR_FLAG_CONVENIENCE | HWLOC_IMATTR_FLAG_CACHE_VALID;
  ATTRS[1].name = (char *) "Locality"; ATTRS[1].flags = HWLOC_MEMATTR_FLAG_LOWER_FIRST; ATTRS[1].iflags = HWLOC_IMATTR_FLAG_STATIC_NAME | HWLOC_IMATTR_FLAG_CONVENIENCE | HWLOC_IMATTR_FLAG_CACHE_VALID;
  ATTRS[X].name = (char *) "X"; ATTRS[X].flags = HWLOC_MEMATTR_FLAG_NEED_INITIATOR | (higher ? HWLOC_MEMATTR_FLAG_HIGHER_FIRST : HWLOC_MEMATTR_FLAG_LOWER_FIRST); ATTRS[X].iflags = HWLOC_IMATTR_FLAG_STATIC_NAME | HWLOC_IMATTR_FLAG_CACHE_VALID;
  for (unsigned i = 0; i < 3; i++) V[i] = vp_in64();
  memset(TG, 0, sizeof TG); memset(I0, 0, sizeof I0); memset(I1, 0, sizeof I1);
  I0[0].initiator.type = HWLOC_LOCATION_TYPE_CPUSET; I0[0].initiator.location.cpuset = bm(0x1); I0[0].value = V[0];
  I0[1].initiator.type = HWLOC_LOCATION_TYPE_CPUSET; I0[1].initiator.location.cpuset = bm(0x6); I0[1].value = V[1];
  I1[0].initiator.type = HWLOC_LOCATION_TYPE_CPUSET; I1[0].initiator.location.cpuset = bm(0x1); I1[0].value = V[2];
  TG[0].obj = &N0; TG[0].type = HWLOC_OBJ_NUMANODE; TG[0].os_index = 0; TG[0].gp_index = 10; TG[0].nr_initiators = 2; TG[0].initiators = I0;
  TG[1].obj = &N2; TG[1].type = HWLOC_OBJ_NUMANODE; TG[1].os_index = 2; TG[1].gp_index = 12; TG[1].nr_initiators = 1; TG[1].initiators = I1;
  ATTRS[X].targets = TG; ATTRS[X].nr_targets = 2;
  T.memattrs = ATTRS; T.nr_memattrs = 3;
}

/* ---- register / name / flags (the table is reallocated: heap copy) ---------------------------------------------------- */
VP_HARNESS(h_register)
{
  setup();
  struct hwloc_internal_memattr_s *heap = malloc(3 * sizeof(*heap)); VP_NONNULL(heap);
  for (unsigned i = 0; i < 3; i++) heap[i] = ATTRS[i];
  T.memattrs = heap;
  unsigned long flags = vp_in64();
  unsigned n = (unsigned) vp_in_range(0, 3);
  const char *name = n == 0 ? NULL : n == 1 ? "X" : n == 2 ? "Capacity" : "Y";
  hwloc_memattr_id_t id = 777;
  errno = 0;
  int r = hwloc_memattr_register(&T, name, flags, &id);
  unsigned long dir = flags & (HWLOC_MEMATTR_FLAG_LOWER_FIRST | HWLOC_MEMATTR_FLAG_HIGHER_FIRST);
  int flags_ok = !(flags & ~(HWLOC_MEMATTR_FLAG_NEED_INITIATOR | HWLOC_MEMATTR_FLAG_LOWER_FIRST | HWLOC_MEMATTR_FLAG_HIGHER_FIRST)) && (dir == HWLOC_MEMATTR_FLAG_LOWER_FIRST || dir == HWLOC_MEMATTR_FLAG_HIGHER_FIRST);
  if (!flags_ok || !name) VP_CHECK(r == -1 && errno == EINVAL && T.nr_memattrs == 3 && id == 777, "register: invalid flags (not exactly one direction) or NULL name -> EINVAL, nothing registered");
  else if (n == 1 || n == 2) VP_CHECK(r == -1 && errno == EBUSY && T.nr_memattrs == 3, "register: an existing name -> EBUSY");
  else {
    VP_CHECK(r == 0 && id == 3 && T.nr_memattrs == 4, "register: ids are dense");
    hwloc_memattr_id_t id2 = 0; const char *nm = NULL; unsigned long fl = 0;
    VP_CHECK(hwloc_memattr_get_by_name(&T, "Y", &id2) == 0 && id2 == id, "get_by_name finds the new attribute");
    VP_CHECK(hwloc_memattr_get_name(&T, id, &nm) == 0 && nm && nm[0] == 'Y' && nm[1] == 0, "get_name returns its name");
    VP_CHECK(hwloc_memattr_get_flags(&T, id, &fl) == 0 && fl == flags, "get_flags returns its flags");
    VP_CHECK(hwloc_memattr_get_by_name(&T, "X", &id2) == 0 && id2 == X && T.memattrs[X].nr_targets == 2 && T.memattrs[X].targets == TG, "previous attributes keep their ids and contents");
  }
  VP_WITNESS_IF(r == 0, "a new attribute registered");
  VP_WITNESS_IF(r == -1 && errno == EBUSY, "a duplicate name");
}

/* ---- set_value / get_value ------------------------------------------------------------------------------------------------- */
#ifndef TGT
#define TGT 0      /* 0: NUMA#0, 1: NUMA#2 (exhaustive split: the target decides which initiator array may grow) */
#endif
VP_HARNESS(h_value)
{
  setup();
  /* the initiator array of the chosen target lives on the heap with room for exactly its entries (realloc grows it) */
  struct hwloc_internal_memattr_initiator_s *heap = malloc((TGT == 0 ? 2 : 1) * sizeof(*heap)); VP_NONNULL(heap);
  if (TGT == 0) { heap[0] = I0[0]; heap[1] = I0[1]; TG[0].initiators = heap; } else { heap[0] = I1[0]; TG[1].initiators = heap; }
  hwloc_obj_t tgt = TGT == 0 ? &N0 : &N2;
  unsigned long q = vp_in64(); VP_ASSUME(q < 64);
#ifndef KIND
#define KIND 0
#endif
  /* exhaustive split over the initiator kind (0 cpuset, 1 object, 2 NULL): a symbolic discriminant of the location union
   * turns every access through it into a case split over all objects */
  const int kind = KIND;
  struct hwloc_location l, *lp = &l;
  if (kind == 0) l = loc_cpuset(bm(q)); else if (kind == 1) { l.type = HWLOC_LOCATION_TYPE_OBJECT; l.location.object = &PKG; } else lp = NULL;
  uint64_t v = vp_in64(); unsigned long flags = vp_in64();
  errno = 0;
  int r = hwloc_memattr_set_value(&T, X, tgt, lp, flags, v);
  if (flags || kind == 2 || (kind == 0 && q == 0)) VP_CHECK(r == -1 && errno == EINVAL, "set_value: flags, missing or empty initiator -> EINVAL");
  else {
    VP_CHECK(r == 0, "set_value succeeds");
#if KIND != 1
    /* (object initiators: CBMC 6.11's simplifier mis-evaluates `location->location.object->gp_index` - a dereference through
     *  a non-first union member - so the identity match of get_value cannot be decided here; the stored entry is checked
     *  through get_initiators below, which does not depend on that expression) */
    uint64_t g = 0;
    VP_CHECK(hwloc_memattr_get_value(&T, X, tgt, lp, 0, &g) == 0 && g == v, "get_value returns the last value stored for (attribute, target, initiator)");
#endif
  }
  int hit0 = r == 0 && TGT == 0 && kind == 0 && !(q & ~0x1UL), hit1 = r == 0 && TGT == 0 && kind == 0 && !hit0 && !(q & ~0x6UL), hit2 = r == 0 && TGT == 1 && kind == 0 && !(q & ~0x1UL);
  struct hwloc_location a = loc_cpuset(bm(0x1)), b = loc_cpuset(bm(0x4)); uint64_t g;
  VP_CHECK(hwloc_memattr_get_value(&T, X, &N0, &a, 0, &g) == 0 && g == (hit0 ? v : V[0]), "cell (NUMA0,{PU0}) keeps its value unless it was the one set");
  VP_CHECK(hwloc_memattr_get_value(&T, X, &N0, &b, 0, &g) == 0 && g == (hit1 ? v : V[1]), "a query cpuset included in a stored initiator cpuset matches it; cell (NUMA0,{PU1,PU2}) keeps its value unless set");
  VP_CHECK(hwloc_memattr_get_value(&T, X, &N2, &a, 0, &g) == 0 && g == (hit2 ? v : V[2]), "cell (NUMA2,{PU0}) keeps its value unless it was the one set");
  if (r == 0 && kind == 1) {
    unsigned nr = 4; struct hwloc_location ini[4]; uint64_t vals[4];
    VP_CHECK(hwloc_memattr_get_initiators(&T, X, tgt, 0, &nr, ini, vals) == 0 && nr == (TGT == 0 ? 3 : 2), "get_initiators lists the new object initiator");
    VP_CHECK(ini[nr - 1].type == HWLOC_LOCATION_TYPE_OBJECT && ini[nr - 1].location.object == &PKG && vals[nr - 1] == v, "an object initiator is reported as that object with its value");
  }
#if KIND == 0
#if TGT == 0
  VP_WITNESS_IF(hit1 && q == 0x4, "a sub-cpuset updating an existing cell");
#endif
  VP_WITNESS_IF(r == 0 && q == 0x20 && !hit0 && !hit1 && !hit2, "a new cpuset initiator created");
#elif KIND == 1
  VP_WITNESS_IF(r == 0, "an object initiator stored");
#else
  VP_WITNESS_IF(r == -1, "a missing initiator rejected");
#endif
}

/* ---- Capacity / Locality --------------------------------------------------------------------------------------------------------- */
VP_HARNESS(h_convenience)
{
  setup();
  unsigned which = (unsigned) vp_in_range(0, 1); hwloc_obj_t n = which ? &N2 : &N0;
  uint64_t lm = vp_in64(); n->attr->numanode.local_memory = lm;
  uint64_t g = 0; struct hwloc_location a = loc_cpuset(bm(0x1));
  VP_CHECK(hwloc_memattr_get_value(&T, HWLOC_MEMATTR_ID_CAPACITY, n, NULL, 0, &g) == 0 && g == lm, "Capacity equals the node's local memory");
  VP_CHECK(hwloc_memattr_get_value(&T, HWLOC_MEMATTR_ID_LOCALITY, n, NULL, 0, &g) == 0 && g == (which ? 0 : 3), "Locality equals the weight of the node's cpuset");
  errno = 0;
  VP_CHECK(hwloc_memattr_set_value(&T, HWLOC_MEMATTR_ID_CAPACITY, n, NULL, 0, 5) == -1 && errno == EINVAL, "Capacity is read-only");
  errno = 0;
  VP_CHECK(hwloc_memattr_set_value(&T, HWLOC_MEMATTR_ID_LOCALITY, n, &a, 0, 5) == -1 && errno == EINVAL, "Locality is read-only");
  hwloc_obj_t best = NULL; uint64_t bv = 0;
  A0.numanode.local_memory = vp_in64(); A2.numanode.local_memory = vp_in64();
  VP_CHECK(hwloc_memattr_get_best_target(&T, HWLOC_MEMATTR_ID_CAPACITY, NULL, 0, &best, &bv) == 0 && bv == (A0.numanode.local_memory >= A2.numanode.local_memory ? A0.numanode.local_memory : A2.numanode.local_memory) && best->attr->numanode.local_memory == bv, "best Capacity target has the largest local memory");
  VP_WITNESS_IF(which == 1 && lm == 7, "the CPU-less node");
}

/* ---- enumeration and best-of queries ------------------------------------------------------------------------------------------------- */
VP_HARNESS(h_enum_best)
{
  setup();
  unsigned long q = vp_in64(); VP_ASSUME(q < 64);
  struct hwloc_location l = loc_cpuset(bm(q));
  int m0 = q && !(q & ~0x1UL), m1 = q && !m0 && !(q & ~0x6UL), m2 = q && !(q & ~0x1UL);
  unsigned nr = (unsigned) vp_in_range(0, 3), nr0 = nr; hwloc_obj_t tg[3] = { (void *) 1, (void *) 1, (void *) 1 }; uint64_t tv[3] = { 9, 9, 9 };
  int r = hwloc_memattr_get_targets(&T, X, &l, 0, &nr, tg, tv);
  if (q == 0) VP_CHECK(r == 0 && nr == 0, "get_targets: an empty initiator matches nothing");
  else {
    unsigned e = (unsigned) ((m0 || m1) + m2);
    VP_CHECK(r == 0 && nr == e, "get_targets: *nr is the number of matching targets even when the array is smaller");
    unsigned k = 0;
    if (m0 || m1) { if (k < nr0) VP_CHECK(tg[k] == &N0 && tv[k] == (m0 ? V[0] : V[1]), "get_targets: NUMA0 with the value of the matching initiator"); k++; }
    if (m2) { if (k < nr0) VP_CHECK(tg[k] == &N2 && tv[k] == V[2], "get_targets: NUMA2 with its value"); k++; }
    for (unsigned i = 0; i < 3; i++) if (i >= k || i >= nr0) VP_CHECK(tg[i] == (void *) 1, "get_targets: nothing written beyond the matches / the caller's array");
  }
  hwloc_obj_t best = NULL; uint64_t bv = 0;
  errno = 0;
  r = hwloc_memattr_get_best_target(&T, X, &l, 0, &best, &bv);
  if (!(m0 || m1 || m2)) VP_CHECK(r == -1 && (errno == ENOENT || errno == EINVAL), "best_target: ENOENT when nothing matches");
  else {
    uint64_t v0 = m0 ? V[0] : V[1];
    VP_CHECK(r == 0 && best, "best_target found");
    if ((m0 || m1) && m2) { uint64_t e = higher ? (v0 > V[2] ? v0 : V[2]) : (v0 < V[2] ? v0 : V[2]); VP_CHECK(bv == e && (best == &N0 || best == &N2) && bv == (best == &N0 ? v0 : V[2]), "best_target: value maximal (HIGHER_FIRST) / minimal (LOWER_FIRST) among matching targets"); }
    else if (m2) VP_CHECK(best == &N2 && bv == V[2], "best_target: the only matching target");
    else VP_CHECK(best == &N0 && bv == v0, "best_target: the only matching target");
  }
  unsigned ni = (unsigned) vp_in_range(0, 3), ni0 = ni; struct hwloc_location ini[3]; uint64_t iv[3] = { 9, 9, 9 };
  r = hwloc_memattr_get_initiators(&T, X, &N0, 0, &ni, ini, iv);
  VP_CHECK(r == 0 && ni == 2, "get_initiators: *nr is the number of stored initiators");
  if (ni0 >= 1) VP_CHECK(ini[0].type == HWLOC_LOCATION_TYPE_CPUSET && w(ini[0].location.cpuset) == 0x1 && iv[0] == V[0], "get_initiators: first stored entry");
  if (ni0 >= 2) VP_CHECK(ini[1].type == HWLOC_LOCATION_TYPE_CPUSET && w(ini[1].location.cpuset) == 0x6 && iv[1] == V[1], "get_initiators: second stored entry");
  if (ni0 < 3) VP_CHECK(iv[2] == 9, "get_initiators: nothing written beyond the caller's array");
  struct hwloc_location bi; uint64_t biv = 0;
  r = hwloc_memattr_get_best_initiator(&T, X, &N0, 0, &bi, &biv);
  { uint64_t e = higher ? (V[0] > V[1] ? V[0] : V[1]) : (V[0] < V[1] ? V[0] : V[1]);
    VP_CHECK(r == 0 && biv == e && bi.type == HWLOC_LOCATION_TYPE_CPUSET && biv == (w(bi.location.cpuset) == 0x1 ? V[0] : V[1]), "best_initiator: value maximal/minimal among the target's initiators"); }
  VP_WITNESS_IF(m1 && m2 == 0 && nr == 1, "a query included in the second initiator only");
  VP_WITNESS_IF(m0 && m2 && best == &N2 && higher, "best target decided by the values");
}

/* ---- local NUMA nodes and default nodeset -------------------------------------------------------------------------------------------- */
VP_HARNESS(h_local)
{
  setup();
  unsigned long q = vp_in64(); VP_ASSUME(q < 64);
  unsigned long flags = vp_in64();
  int kind = (int) vp_in_range(0, 2);
  struct hwloc_location l, *lp = &l;
  if (kind == 0) l = loc_cpuset(bm(q)); else if (kind == 1) { l.type = HWLOC_LOCATION_TYPE_OBJECT; l.location.object = &PKG; q = 0x20; } else lp = NULL;
  unsigned nr = (unsigned) vp_in_range(0, 3), nr0 = nr; hwloc_obj_t nodes[3] = { (void *) 1, (void *) 1, (void *) 1 };
  errno = 0;
  int r = hwloc_get_local_numanode_objs(&T, lp, &nr, nodes, flags);
  unsigned long known = HWLOC_LOCAL_NUMANODE_FLAG_SMALLER_LOCALITY | HWLOC_LOCAL_NUMANODE_FLAG_LARGER_LOCALITY | HWLOC_LOCAL_NUMANODE_FLAG_ALL;
  if ((flags & ~known) || (kind == 2 && !(flags & HWLOC_LOCAL_NUMANODE_FLAG_ALL))) VP_CHECK(r == -1 && errno == EINVAL, "local_numanode_objs: unknown flags, or no location without ALL -> EINVAL");
  else {
    hwloc_obj_t e[2]; unsigned ne = 0; hwloc_obj_t nn[2] = { &N0, &N2 }; unsigned long cs[2] = { 0x7, 0x0 };
    for (unsigned i = 0; i < 2; i++) { unsigned long c = cs[i];
      int m = (flags & HWLOC_LOCAL_NUMANODE_FLAG_ALL) || c == q || ((flags & HWLOC_LOCAL_NUMANODE_FLAG_LARGER_LOCALITY) && !(q & ~c)) || ((flags & HWLOC_LOCAL_NUMANODE_FLAG_SMALLER_LOCALITY) && !(c & ~q));
      if (m) e[ne++] = nn[i]; }
    VP_CHECK(r == 0 && nr == ne, "local_numanode_objs: exactly the nodes whose cpuset is equal / larger / smaller as selected; *nr is the count");
    for (unsigned i = 0; i < 2; i++) if (i < ne && i < nr0) VP_CHECK(nodes[i] == e[i], "local_numanode_objs: nodes in logical order");
    for (unsigned i = 0; i < 3; i++) if (i >= ne || i >= nr0) VP_CHECK(nodes[i] == (void *) 1, "local_numanode_objs: nothing written beyond");
  }
  VP_WITNESS_IF(r == 0 && nr == 2 && kind == 0 && q == 0 && (flags & HWLOC_LOCAL_NUMANODE_FLAG_SMALLER_LOCALITY), "the CPU-less node selected as smaller locality");
  VP_WITNESS_IF(r == 0 && nr == 0 && kind == 1, "an object location without local node");
}

/* ---- refresh after the topology cpuset shrank / objects disappeared ---------------------------------------------------------------------- */
VP_HARNESS(h_refresh)
{
  setup();
  unsigned long root = vp_in64(); VP_ASSUME(root < 64);
  hwloc_bitmap_from_ulong(ROOT.cpuset, root);
  vp_exists = (unsigned) vp_in_range(0, 7);
  int was_valid = vp_in_bool();
  if (!was_valid) hwloc_internal_memattrs_need_refresh(&T);
  VP_CHECK(!!(ATTRS[X].iflags & HWLOC_IMATTR_FLAG_CACHE_VALID) == was_valid && (ATTRS[0].iflags & HWLOC_IMATTR_FLAG_CACHE_VALID), "need_refresh invalidates every non-convenience attribute");
  /* destroy paths free the bitmaps and arrays: the static arrays of this harness must not be freed -> heap copies */
  struct hwloc_internal_memattr_target_s *ht = malloc(2 * sizeof(*ht)); struct hwloc_internal_memattr_initiator_s *h0 = malloc(2 * sizeof(*h0)), *h1 = malloc(sizeof(*h1));
  VP_NONNULL(ht); VP_NONNULL(h0); VP_NONNULL(h1);
  h0[0] = I0[0]; h0[1] = I0[1]; h1[0] = I1[0]; ht[0] = TG[0]; ht[1] = TG[1]; ht[0].initiators = h0; ht[1].initiators = h1; ATTRS[X].targets = ht;
  hwloc_internal_memattrs_refresh(&T);
  struct hwloc_internal_memattr_s *im = &ATTRS[X];
  VP_CHECK(im->iflags & HWLOC_IMATTR_FLAG_CACHE_VALID, "refresh: every attribute cache is valid afterwards");
  if (!was_valid) {
    int k0 = (vp_exists & 1) && (root & 0x1), k1 = (vp_exists & 1) && (root & 0x6), k2 = (vp_exists & 2) && (root & 0x1);
    unsigned et = (unsigned) ((k0 || k1) + k2);
    VP_CHECK(im->nr_targets == et, "refresh: entries of removed targets, and targets whose initiators all became empty, disappear");
    unsigned t = 0;
    if (k0 || k1) {
      struct hwloc_internal_memattr_target_s *g = &im->targets[t++];
      VP_CHECK(g->obj == &N0 && g->nr_initiators == (unsigned) (k0 + k1), "refresh: NUMA0 keeps exactly its non-empty initiators");
      unsigned i = 0;
      if (k0) { VP_CHECK(w(g->initiators[i].initiator.location.cpuset) == 0x1 && g->initiators[i].value == V[0], "refresh: a surviving initiator keeps its (restricted) cpuset and its value"); i++; }
      if (k1) { VP_CHECK(w(g->initiators[i].initiator.location.cpuset) == (root & 0x6) && g->initiators[i].value == V[1], "refresh: a surviving initiator keeps its (restricted) cpuset and its value"); i++; }
    }
    if (k2) { struct hwloc_internal_memattr_target_s *g = &im->targets[t++]; VP_CHECK(g->obj == &N2 && g->nr_initiators == 1 && g->initiators[0].value == V[2], "refresh: NUMA2 keeps its entry"); }
    VP_WITNESS_IF(!k0 && k1, "first initiator emptied, second one moved down");
  } else VP_CHECK(im->nr_targets == 2, "refresh leaves a valid attribute alone");
  VP_WITNESS_IF(!was_valid && im->nr_targets == 0, "everything removed");
  VP_WITNESS_IF(was_valid, "nothing to refresh");
}

/* ---- dup of the table (C12): equal content, nothing shared, cached objects dropped ------------------------------------------------------ */
VP_HARNESS(h_dup)
{
  setup();
  /* history: optionally every target of X was removed by a refresh (restrict), leaving nr_targets == 0 with the array still allocated */
#ifndef EMPT
#define EMPT 0
#endif
  const int emptied = EMPT;      /* exhaustive split: copy lengths stay concrete */
  struct hwloc_internal_memattr_target_s *ht = malloc(2 * sizeof(*ht)); VP_NONNULL(ht);
  ht[0] = TG[0]; ht[1] = TG[1]; ATTRS[X].targets = ht;
  if (emptied) ATTRS[X].nr_targets = 0;
  /* one object initiator */
  I1[0].initiator.type = HWLOC_LOCATION_TYPE_OBJECT; I1[0].initiator.location.object.obj = &PKG; I1[0].initiator.location.object.gp_index = 20; I1[0].initiator.location.object.type = HWLOC_OBJ_PACKAGE;
  static struct hwloc_topology N; memset(&N, 0, sizeof N);
  int r = hwloc_internal_memattrs_dup(&N, &T);
  VP_CHECK(r == 0 && N.nr_memattrs == 3 && N.memattrs != T.memattrs, "memattrs dup: same number of attributes in fresh storage");
  for (unsigned id = 0; id < 3; id++) {
    struct hwloc_internal_memattr_s *o = &T.memattrs[id], *n = &N.memattrs[id];
    VP_CHECK(n->name != o->name && n->name[0] == o->name[0] && n->flags == o->flags && n->nr_targets == o->nr_targets && !(n->iflags & HWLOC_IMATTR_FLAG_STATIC_NAME), "memattrs dup: name copied (owned), flags and target count equal");
    VP_CHECK(!(n->iflags & HWLOC_IMATTR_FLAG_CACHE_VALID) || (n->iflags & HWLOC_IMATTR_FLAG_CONVENIENCE), "memattrs dup: cached objects must be re-resolved in the new topology");
    VP_CHECK(n->targets == NULL || n->targets != o->targets, "memattrs dup: the targets array is never shared with the original (destroying both must not free it twice)");
  }
  if (!emptied) {
    struct hwloc_internal_memattr_s *o = &T.memattrs[X], *n = &N.memattrs[X];
    for (unsigned j = 0; j < 2; j++) {
      struct hwloc_internal_memattr_target_s *ot = &o->targets[j], *nt = &n->targets[j];
      VP_CHECK(nt->type == ot->type && nt->gp_index == ot->gp_index && nt->os_index == ot->os_index && nt->nr_initiators == ot->nr_initiators && nt->obj == NULL, "memattrs dup: target identity, cached object dropped");
      VP_CHECK(nt->initiators != ot->initiators, "memattrs dup: initiator arrays are not shared");
      for (unsigned k = 0; k < 2; k++) if (k < ot->nr_initiators) {
        VP_CHECK(nt->initiators[k].value == ot->initiators[k].value && nt->initiators[k].initiator.type == ot->initiators[k].initiator.type, "memattrs dup: initiator values");
        if (ot->initiators[k].initiator.type == HWLOC_LOCATION_TYPE_CPUSET) VP_CHECK(nt->initiators[k].initiator.location.cpuset != ot->initiators[k].initiator.location.cpuset && w(nt->initiators[k].initiator.location.cpuset) == w(ot->initiators[k].initiator.location.cpuset), "memattrs dup: initiator cpusets equal but not shared");
        else VP_CHECK(nt->initiators[k].initiator.location.object.gp_index == 20 && nt->initiators[k].initiator.location.object.obj == NULL, "memattrs dup: object initiators keep their identity, cached pointer dropped");
      }
    }
    N.memattrs[X].targets[0].initiators[0].value ^= 1;
    VP_CHECK(T.memattrs[X].targets[0].initiators[0].value == V[0], "memattrs dup: values are independent");
  }
#if EMPT
  VP_WITNESS("an attribute whose targets were all removed but whose array is still allocated");
#else
  VP_WITNESS("a populated table duplicated");
#endif
}

/* ---- C17: consulting calls on a refreshed topology write nothing ---------------------------------------------------------- */
/* Every attribute claims CACHE_VALID (the state hwloc_topology_refresh leaves) while the environment says that objects are
 * gone and the root cpuset shrank: a reader that refreshed anyway would drop targets/initiators (observable, also natively). */
#ifndef RD
#define RD 0     /* which reader: 0 get_value 1 get_best_target 2 get_best_initiator 3 get_targets 4 get_initiators */
#endif
VP_HARNESS(h_reader_pure)
{
  setup();
  unsigned long root = vp_in64(); VP_ASSUME(root < 64);
  hwloc_bitmap_from_ulong(ROOT.cpuset, root);
  vp_exists = (unsigned) vp_in_range(0, 7);                      /* stale on purpose */
  struct hwloc_internal_memattr_s *im = &ATTRS[X];
  unsigned it0 = im->iflags;
  struct hwloc_location l = loc_cpuset(bm(vp_in_range(0, 63)));
  uint64_t v = 0; hwloc_obj_t best = NULL; struct hwloc_location bl; unsigned nr = 2; hwloc_obj_t tg[2] = { NULL, NULL }; uint64_t vals[2]; struct hwloc_location inits[2];
  int r;
#if RD == 0
  r = hwloc_memattr_get_value(&T, X, &N0, &l, 0, &v);
#elif RD == 1
  r = hwloc_memattr_get_best_target(&T, X, &l, 0, &best, &v);
#elif RD == 2
  r = hwloc_memattr_get_best_initiator(&T, X, &N0, 0, &bl, &v);
#elif RD == 3
  r = hwloc_memattr_get_targets(&T, X, &l, 0, &nr, tg, vals);
#else
  r = hwloc_memattr_get_initiators(&T, X, &N0, 0, &nr, inits, vals);
#endif
  (void) r;
  VP_CHECK(im->iflags == it0 && (ATTRS[0].iflags & HWLOC_IMATTR_FLAG_CACHE_VALID) && (ATTRS[1].iflags & HWLOC_IMATTR_FLAG_CACHE_VALID), "reader purity: validity flags untouched");
  VP_CHECK(im->nr_targets == 2 && im->targets == TG && TG[0].obj == &N0 && TG[1].obj == &N2 && TG[0].nr_initiators == 2 && TG[1].nr_initiators == 1 && TG[0].initiators == I0 && TG[1].initiators == I1, "reader purity: a consulting call on a refreshed topology does not rebuild the target table");
  VP_CHECK(I0[0].value == V[0] && I0[1].value == V[1] && I1[0].value == V[2] && w(I0[0].initiator.location.cpuset) == 0x1 && w(I0[1].initiator.location.cpuset) == 0x6 && w(I1[0].initiator.location.cpuset) == 0x1, "reader purity: initiators (values and cpusets) untouched");
  VP_WITNESS_IF(vp_exists == 0 && root == 0x20, "a reader ran while every cached object is stale");
}

/* ---- hwloc_topology_get_default_nodeset: existing nodes with pairwise-disjoint cpusets ------------------------------------------ */
#ifndef DN
#define DN 3
#endif
static unsigned dn_runs, dn_two;
/* one run with CONCRETE os_index values (the sort then yields known pointers; a symbolic order sends every later access through
 * a symbolic pointer); cpusets, subtypes, root cpuset, flags and the output pre-state stay symbolic */
static void default_nodeset_case(const unsigned *os)
{
  memset(&T, 0, sizeof T);
  static hwloc_obj_t lv0[1]; static hwloc_obj_t *lvs[1]; static unsigned lvn[1];
  lv0[0] = &ROOT; lvs[0] = lv0; lvn[0] = 1; T.levels = lvs; T.level_nbobjects = lvn; T.nb_levels = 1;
  unsigned long rootc = vp_in_range(1, 63);
  ROOT.type = HWLOC_OBJ_MACHINE; ROOT.cpuset = bm(rootc);
  struct hwloc_obj *ND = malloc(DN * sizeof(struct hwloc_obj)); hwloc_obj_t *lvl = malloc(DN * sizeof(hwloc_obj_t)); VP_NONNULL(ND); VP_NONNULL(lvl);
  static const char *const st[3] = { NULL, "A", "B" }; static const struct hwloc_obj oz;
  unsigned long cs[DN]; unsigned long usedos = 0;
  for (unsigned i = 0; i < DN; i++) {
    usedos |= 1UL << os[i];
    cs[i] = vp_in_range(0, 63); VP_ASSUME(!(cs[i] & ~rootc));
    unsigned k = (unsigned) vp_in_range(0, 2);
    ND[i] = oz; ND[i].type = HWLOC_OBJ_NUMANODE; ND[i].os_index = os[i]; ND[i].cpuset = bm(cs[i]); ND[i].nodeset = bm(1UL << os[i]); ND[i].subtype = k == 0 ? NULL : k == 1 ? (char *) st[1] : (char *) st[2]; ND[i].logical_index = i; lvl[i] = &ND[i];
  }
  T.slevels[HWLOC_SLEVEL_NUMANODE].objs = lvl; T.slevels[HWLOC_SLEVEL_NUMANODE].nbobjs = DN; T.slevels[HWLOC_SLEVEL_NUMANODE].first = &ND[0]; T.slevels[HWLOC_SLEVEL_NUMANODE].last = &ND[DN - 1];
  unsigned long flags = vp_in64();
  hwloc_bitmap_t out = bm(vp_in_range(0, 255));
  errno = 0;
  int r = hwloc_topology_get_default_nodeset(&T, out, flags);
  dn_runs++;
  if (flags) { VP_CHECK(r == -1 && errno == EINVAL, "default_nodeset: non-zero flags -> EINVAL"); }
  else {
    VP_CHECK(r == 0, "default_nodeset succeeds");
    unsigned long res = w(out), cov = 0; unsigned minos = 9, taken = 0;
    VP_CHECK(!(res & ~usedos), "default_nodeset returns existing nodes only");
    for (unsigned i = 0; i < DN; i++) if (os[i] < minos) minos = os[i];
    VP_CHECK(res & (1UL << minos), "the node with the lowest os_index is always part of the default nodeset");
    for (unsigned i = 0; i < DN; i++) if (res & (1UL << os[i])) { VP_CHECK(!(cs[i] & cov), "the returned nodes have pairwise-disjoint cpusets"); cov |= cs[i]; taken++; }
    if (taken == 2 && cov == rootc) dn_two = 1;
  }
}
VP_HARNESS(h_default_nodeset)
{
  /* level order vs os_index order: dense and sparse numberings in every relative order */
  static const unsigned perms[][4] = { { 0, 1, 2, 3 }, { 2, 0, 1, 3 }, { 1, 2, 0, 3 }, { 0, 2, 5, 4 }, { 5, 2, 0, 1 }, { 2, 5, 0, 4 }, { 1, 2, 3, 0 }, { 3, 1, 2, 5 } };
  unsigned sel = (unsigned) vp_in_range(0, 7);
  for (unsigned v = 0; v < 8; v++) if (sel == v) default_nodeset_case(perms[v]);
  VP_WITNESS_IF(dn_two, "two nodes covering the machine, the other(s) left out");
  VP_WITNESS_IF(dn_runs, "a run executed");
}
