/* C14 — memory attributes: stored values are returned, best-of queries are optimal.
 * Real code: hwloc/memattrs.c (textually included) on seed S2 built by the real core (NUMA0 local to
 * Package0 {PU0,PU1,PU2}, CPU-less NUMA2). The attribute table is prepared by the real
 * hwloc_internal_memattrs_prepare() and filled through the real set_value code during set-up.
 */
#define SEED 2
#define VP_SEED_REAL_MEMATTRS 1
#include "vp_seed.h"
#include "hwloc/memattrs.c"

static struct hwloc_topology *T; static struct vp_seed S;
static hwloc_memattr_id_t ATTR;          /* custom attribute, NEED_INITIATOR, direction symbolic */
static uint64_t V[3];                    /* stored values: (NUMA0, {PU0}), (NUMA0, {PU1,PU2}), (NUMA2, {PU0}) */
static int higher;

static struct hwloc_location loc_cpuset(hwloc_bitmap_t b) { struct hwloc_location l; l.type = HWLOC_LOCATION_TYPE_CPUSET; l.location.cpuset = b; return l; }

static void setup(int with_values)
{
  T = vp_seed_build(2, 0); S = vp_seed;
  hwloc_internal_memattrs_prepare(T);
  higher = vp_in_bool();
  int r = hwloc_memattr_register(T, "X", HWLOC_MEMATTR_FLAG_NEED_INITIATOR | (higher ? HWLOC_MEMATTR_FLAG_HIGHER_FIRST : HWLOC_MEMATTR_FLAG_LOWER_FIRST), &ATTR);
  VP_ASSUME(r == 0);
  if (with_values) {
    for (unsigned i = 0; i < 3; i++) V[i] = vp_in64();
    struct hwloc_location l;
    l = loc_cpuset(vp_bm(0x1)); VP_ASSUME(hwloc_memattr_set_value(T, ATTR, S.numa[0], &l, 0, V[0]) == 0);
    l = loc_cpuset(vp_bm(0x6)); VP_ASSUME(hwloc_memattr_set_value(T, ATTR, S.numa[0], &l, 0, V[1]) == 0);
    l = loc_cpuset(vp_bm(0x1)); VP_ASSUME(hwloc_memattr_set_value(T, ATTR, S.numa[2], &l, 0, V[2]) == 0);
    hwloc_internal_memattrs_refresh(T);
  }
}

/* ---- register / name / flags ------------------------------------------------------------------------ */
VP_HARNESS(h_register)
{
  setup(0);
  unsigned long flags = vp_in64();
  unsigned n = (unsigned) vp_in_range(0, 3);
  const char *name = n == 0 ? NULL : n == 1 ? "X" : n == 2 ? "Capacity" : "Y";
  unsigned nr0 = T->nr_memattrs;
  hwloc_memattr_id_t id = 777;
  errno = 0;
  int r = hwloc_memattr_register(T, name, flags, &id);
  unsigned long dir = flags & (HWLOC_MEMATTR_FLAG_LOWER_FIRST | HWLOC_MEMATTR_FLAG_HIGHER_FIRST);
  int flags_ok = !(flags & ~(HWLOC_MEMATTR_FLAG_NEED_INITIATOR | HWLOC_MEMATTR_FLAG_LOWER_FIRST | HWLOC_MEMATTR_FLAG_HIGHER_FIRST)) && (dir == HWLOC_MEMATTR_FLAG_LOWER_FIRST || dir == HWLOC_MEMATTR_FLAG_HIGHER_FIRST);
  if (!flags_ok || !name) VP_CHECK(r == -1 && errno == EINVAL && T->nr_memattrs == nr0 && id == 777, "register: invalid flags (not exactly one direction) or NULL name -> EINVAL, nothing registered");
  else if (n == 1 || n == 2) VP_CHECK(r == -1 && errno == EBUSY && T->nr_memattrs == nr0, "register: an existing name -> EBUSY");
  else {
    VP_CHECK(r == 0 && id == nr0 && T->nr_memattrs == nr0 + 1, "register: ids are dense");
    hwloc_memattr_id_t id2 = 0; const char *nm = NULL; unsigned long fl = 0;
    VP_CHECK(hwloc_memattr_get_by_name(T, "Y", &id2) == 0 && id2 == id, "get_by_name finds the new attribute");
    VP_CHECK(hwloc_memattr_get_name(T, id, &nm) == 0 && nm && nm[0] == 'Y' && nm[1] == 0, "get_name returns its name");
    VP_CHECK(hwloc_memattr_get_flags(T, id, &fl) == 0 && fl == flags, "get_flags returns its flags");
    VP_CHECK(hwloc_memattr_get_by_name(T, "X", &id2) == 0 && id2 == ATTR, "previous attributes keep their ids");
  }
  VP_WITNESS_IF(r == 0, "a new attribute registered");
  VP_WITNESS_IF(r == -1 && errno == EBUSY, "a duplicate name");
}

/* ---- set_value / get_value: last stored value is returned, other cells untouched -------------------------- */
#ifndef TGT
#define TGT 0      /* 0: NUMA0, 1: NUMA2 (exhaustive split: the target decides which array may be realloc'ed) */
#endif
VP_HARNESS(h_value)
{
  setup(1);
  hwloc_obj_t tgt = TGT == 0 ? S.numa[0] : S.numa[2];
  unsigned long q = vp_in64(); VP_ASSUME(q < 64);
  int kind = (int) vp_in_range(0, 2);                     /* 0 cpuset, 1 object, 2 NULL initiator */
  hwloc_bitmap_t qs = vp_bm(q);
  struct hwloc_location l, *lp = &l;
  if (kind == 0) l = loc_cpuset(qs); else if (kind == 1) { l.type = HWLOC_LOCATION_TYPE_OBJECT; l.location.object = S.pkg[1]; } else lp = NULL;
  uint64_t v = vp_in64(); unsigned long flags = vp_in64();
  errno = 0;
  int r = hwloc_memattr_set_value(T, ATTR, tgt, lp, flags, v);
  if (flags || kind == 2 || (kind == 0 && q == 0)) VP_CHECK(r == -1 && errno == EINVAL, "set_value: flags, missing or empty initiator -> EINVAL");
  else {
    VP_CHECK(r == 0, "set_value succeeds");
    uint64_t g = 0;
    VP_CHECK(hwloc_memattr_get_value(T, ATTR, tgt, lp, 0, &g) == 0 && g == v, "get_value returns the last value stored for (attribute, target, initiator)");
  }
  /* which pre-existing cell may legitimately have changed: the one whose stored cpuset includes q, on the chosen target */
  int hit0 = r == 0 && TGT == 0 && kind == 0 && !(q & ~0x1UL), hit1 = r == 0 && TGT == 0 && kind == 0 && !hit0 && !(q & ~0x6UL), hit2 = r == 0 && TGT == 1 && kind == 0 && !(q & ~0x1UL);
  struct hwloc_location a = loc_cpuset(vp_bm(0x1)), b = loc_cpuset(vp_bm(0x4)); uint64_t g;
  VP_CHECK(hwloc_memattr_get_value(T, ATTR, S.numa[0], &a, 0, &g) == 0 && g == (hit0 ? v : V[0]), "cell (NUMA0,{PU0}) keeps its value unless it was the one set");
  VP_CHECK(hwloc_memattr_get_value(T, ATTR, S.numa[0], &b, 0, &g) == 0 && g == (hit1 ? v : V[1]), "a query cpuset included in a stored initiator cpuset matches it; cell (NUMA0,{PU1,PU2}) keeps its value unless set");
  VP_CHECK(hwloc_memattr_get_value(T, ATTR, S.numa[2], &a, 0, &g) == 0 && g == (hit2 ? v : V[2]), "cell (NUMA2,{PU0}) keeps its value unless it was the one set");
  /* object initiators match by identity and are reported back as the same object */
  if (r == 0 && kind == 1) {
    unsigned nr = 4; struct hwloc_location ini[4]; uint64_t vals[4];
    VP_CHECK(hwloc_memattr_get_initiators(T, ATTR, tgt, 0, &nr, ini, vals) == 0 && nr == (TGT == 0 ? 3 : 2), "get_initiators lists the new object initiator");
    VP_CHECK(ini[nr - 1].type == HWLOC_LOCATION_TYPE_OBJECT && ini[nr - 1].location.object == S.pkg[1] && vals[nr - 1] == v, "an object initiator is reported as that object with its value");
  }
  VP_WITNESS_IF(hit1 && q == 0x4, "a sub-cpuset updating an existing cell");
  VP_WITNESS_IF(r == 0 && kind == 1, "an object initiator stored");
  VP_WITNESS_IF(r == 0 && kind == 0 && q == 0x20 && !hit0 && !hit1 && !hit2, "a new cpuset initiator created");
}

/* ---- Capacity / Locality are read-only and equal local memory / cpuset weight ------------------------------ */
VP_HARNESS(h_convenience)
{
  setup(0);
  unsigned which = (unsigned) vp_in_range(0, 1); hwloc_obj_t n = which ? S.numa[2] : S.numa[0];
  uint64_t lm = vp_in64(); n->attr->numanode.local_memory = lm;
  uint64_t g = 0; struct hwloc_location a = loc_cpuset(vp_bm(0x1));
  VP_CHECK(hwloc_memattr_get_value(T, HWLOC_MEMATTR_ID_CAPACITY, n, NULL, 0, &g) == 0 && g == lm, "Capacity equals the node's local memory");
  VP_CHECK(hwloc_memattr_get_value(T, HWLOC_MEMATTR_ID_LOCALITY, n, NULL, 0, &g) == 0 && g == (which ? 0 : 3), "Locality equals the weight of the node's cpuset");
  errno = 0;
  VP_CHECK(hwloc_memattr_set_value(T, HWLOC_MEMATTR_ID_CAPACITY, n, NULL, 0, 5) == -1 && errno == EINVAL, "Capacity is read-only");
  errno = 0;
  VP_CHECK(hwloc_memattr_set_value(T, HWLOC_MEMATTR_ID_LOCALITY, n, &a, 0, 5) == -1 && errno == EINVAL, "Locality is read-only");
  VP_WITNESS_IF(which == 1 && lm == 7, "the CPU-less node");
}

/* ---- enumeration and best-of queries ----------------------------------------------------------------------- */
VP_HARNESS(h_enum_best)
{
  setup(1);
  unsigned long q = vp_in64(); VP_ASSUME(q < 64);
  struct hwloc_location l = loc_cpuset(vp_bm(q));
  int m0 = q && !(q & ~0x1UL), m1 = q && !m0 && !(q & ~0x6UL), m2 = q && !(q & ~0x1UL);   /* which cells the query matches */
  /* get_targets with the initiator */
  unsigned nr = (unsigned) vp_in_range(0, 3), nr0 = nr; hwloc_obj_t tg[3] = { (void *) 1, (void *) 1, (void *) 1 }; uint64_t tv[3] = { 9, 9, 9 };
  int r = hwloc_memattr_get_targets(T, ATTR, &l, 0, &nr, tg, tv);
  if (q == 0) VP_CHECK(r == 0 && nr == 0, "get_targets: an empty initiator matches nothing");
  else {
    unsigned e = (unsigned) ((m0 || m1) + m2);
    VP_CHECK(r == 0 && nr == e, "get_targets: *nr is the number of matching targets even when the array is smaller");
    unsigned k = 0;
    if (m0 || m1) { if (k < nr0) VP_CHECK(tg[k] == S.numa[0] && tv[k] == (m0 ? V[0] : V[1]), "get_targets: NUMA0 with the value of the matching initiator"); k++; }
    if (m2) { if (k < nr0) VP_CHECK(tg[k] == S.numa[2] && tv[k] == V[2], "get_targets: NUMA2 with its value"); k++; }
    for (unsigned i = 0; i < 3; i++) if (i >= k || i >= nr0) VP_CHECK(tg[i] == (void *) 1, "get_targets: nothing written beyond the matches / the caller's array");
  }
  /* best target */
  hwloc_obj_t best = NULL; uint64_t bv = 0;
  errno = 0;
  r = hwloc_memattr_get_best_target(T, ATTR, &l, 0, &best, &bv);
  if (!(m0 || m1 || m2)) VP_CHECK(r == -1 && (errno == ENOENT || errno == EINVAL), "best_target: ENOENT when nothing matches");
  else {
    uint64_t v0 = m0 ? V[0] : V[1];
    VP_CHECK(r == 0 && best, "best_target found");
    if ((m0 || m1) && m2) { uint64_t e = higher ? (v0 > V[2] ? v0 : V[2]) : (v0 < V[2] ? v0 : V[2]); VP_CHECK(bv == e && (best == S.numa[0] || best == S.numa[2]) && bv == (best == S.numa[0] ? v0 : V[2]), "best_target: value maximal (HIGHER_FIRST) / minimal (LOWER_FIRST) among matching targets"); }
    else if (m2) VP_CHECK(best == S.numa[2] && bv == V[2], "best_target: the only matching target");
    else VP_CHECK(best == S.numa[0] && bv == v0, "best_target: the only matching target");
  }
  /* initiators of NUMA0 and best initiator */
  unsigned ni = (unsigned) vp_in_range(0, 3), ni0 = ni; struct hwloc_location ini[3]; uint64_t iv[3] = { 9, 9, 9 };
  r = hwloc_memattr_get_initiators(T, ATTR, S.numa[0], 0, &ni, ini, iv);
  VP_CHECK(r == 0 && ni == 2, "get_initiators: *nr is the number of stored initiators");
  if (ni0 >= 1) VP_CHECK(ini[0].type == HWLOC_LOCATION_TYPE_CPUSET && vp_w(ini[0].location.cpuset) == 0x1 && iv[0] == V[0], "get_initiators: first stored entry");
  if (ni0 >= 2) VP_CHECK(ini[1].type == HWLOC_LOCATION_TYPE_CPUSET && vp_w(ini[1].location.cpuset) == 0x6 && iv[1] == V[1], "get_initiators: second stored entry");
  if (ni0 < 3) VP_CHECK(iv[2] == 9, "get_initiators: nothing written beyond the caller's array");
  struct hwloc_location bi; uint64_t biv = 0;
  r = hwloc_memattr_get_best_initiator(T, ATTR, S.numa[0], 0, &bi, &biv);
  { uint64_t e = higher ? (V[0] > V[1] ? V[0] : V[1]) : (V[0] < V[1] ? V[0] : V[1]);
    VP_CHECK(r == 0 && biv == e && bi.type == HWLOC_LOCATION_TYPE_CPUSET && biv == (vp_w(bi.location.cpuset) == 0x1 ? V[0] : V[1]), "best_initiator: value maximal/minimal among the target's initiators"); }
  VP_WITNESS_IF(m1 && m2 == 0 && nr == 1, "a query included in the second initiator only");
  VP_WITNESS_IF(m0 && m2 && best == S.numa[2] && higher, "best target decided by the values");
}

/* ---- local NUMA nodes and default nodeset -------------------------------------------------------------------- */
VP_HARNESS(h_local)
{
  setup(0);
  unsigned long q = vp_in64(); VP_ASSUME(q < 64);
  unsigned long flags = vp_in64();
  int kind = (int) vp_in_range(0, 2);
  struct hwloc_location l, *lp = &l;
  if (kind == 0) l = loc_cpuset(vp_bm(q)); else if (kind == 1) { l.type = HWLOC_LOCATION_TYPE_OBJECT; l.location.object = S.pkg[0]; q = 0x7; } else lp = NULL;
  unsigned nr = (unsigned) vp_in_range(0, 3), nr0 = nr; hwloc_obj_t nodes[3] = { (void *) 1, (void *) 1, (void *) 1 };
  errno = 0;
  int r = hwloc_get_local_numanode_objs(T, lp, &nr, nodes, flags);
  unsigned long known = HWLOC_LOCAL_NUMANODE_FLAG_SMALLER_LOCALITY | HWLOC_LOCAL_NUMANODE_FLAG_LARGER_LOCALITY | HWLOC_LOCAL_NUMANODE_FLAG_ALL;
  if ((flags & ~known) || (kind == 2 && !(flags & HWLOC_LOCAL_NUMANODE_FLAG_ALL))) VP_CHECK(r == -1 && errno == EINVAL, "local_numanode_objs: unknown flags, or no location without ALL -> EINVAL");
  else {
    /* brute force over the two NUMA nodes of the seed, in logical order: NUMA0 (cpuset 0x7), NUMA2 (empty cpuset) */
    hwloc_obj_t e[2]; unsigned ne = 0; unsigned long cs[2] = { 0x7, 0x0 }; hwloc_obj_t nn[2];
    nn[0] = T->slevels[HWLOC_SLEVEL_NUMANODE].objs[0]; nn[1] = T->slevels[HWLOC_SLEVEL_NUMANODE].objs[1];
    for (unsigned i = 0; i < 2; i++) { unsigned long c = vp_w(nn[i]->cpuset);
      int m = (flags & HWLOC_LOCAL_NUMANODE_FLAG_ALL) || c == q || ((flags & HWLOC_LOCAL_NUMANODE_FLAG_LARGER_LOCALITY) && !(q & ~c)) || ((flags & HWLOC_LOCAL_NUMANODE_FLAG_SMALLER_LOCALITY) && !(c & ~q));
      if (m) e[ne++] = nn[i]; }
    (void) cs;
    VP_CHECK(r == 0 && nr == ne, "local_numanode_objs: exactly the nodes whose cpuset is equal / larger / smaller as selected; *nr is the count");
    for (unsigned i = 0; i < 2; i++) if (i < ne && i < nr0) VP_CHECK(nodes[i] == e[i], "local_numanode_objs: nodes in logical order");
    for (unsigned i = 0; i < 3; i++) if (i >= ne || i >= nr0) VP_CHECK(nodes[i] == (void *) 1, "local_numanode_objs: nothing written beyond");
  }
  /* default nodeset: existing nodes with pairwise disjoint cpusets */
  hwloc_bitmap_t dn = vp_bm(0x5555);
  unsigned long dflags = vp_in64();
  errno = 0;
  int rd = hwloc_topology_get_default_nodeset(T, dn, dflags);
  if (dflags) VP_CHECK(rd == -1 && errno == EINVAL, "default_nodeset: flags -> EINVAL");
  else {
    VP_CHECK(rd == 0, "default_nodeset succeeds");
    unsigned long w = vp_w(dn), cov = 0;
    VP_CHECK(!(w & ~vp_seed.nodes) && hwloc_bitmap_weight(dn) >= 1, "default_nodeset: only existing nodes");
    for (unsigned i = 0; i < 2; i++) { hwloc_obj_t n = T->slevels[HWLOC_SLEVEL_NUMANODE].objs[i]; if (w & (1UL << n->os_index)) { VP_CHECK(!(vp_w(n->cpuset) & cov), "default_nodeset: pairwise disjoint cpusets"); cov |= vp_w(n->cpuset); } }
  }
  VP_WITNESS_IF(r == 0 && nr == 2 && kind == 0 && q == 0 && (flags & HWLOC_LOCAL_NUMANODE_FLAG_SMALLER_LOCALITY), "the CPU-less node selected as smaller locality");
  VP_WITNESS_IF(r == 0 && nr == 1 && kind == 1, "an object location");
}

/* ---- refresh after the topology cpuset shrank (what restrict leaves behind) -------------------------------------- */
VP_HARNESS(h_refresh)
{
  setup(1);
  unsigned long root = vp_in64(); VP_ASSUME(root < 64);
  hwloc_bitmap_from_ulong(T->levels[0][0]->cpuset, root);
  hwloc_internal_memattrs_need_refresh(T);
  hwloc_internal_memattrs_refresh(T);
  struct hwloc_internal_memattr_s *im = &T->memattrs[ATTR];
  VP_CHECK(im->iflags & HWLOC_IMATTR_FLAG_CACHE_VALID, "refresh: the attribute cache is valid afterwards");
  int k0 = !!(root & 0x1), k1 = !!(root & 0x6), k2 = !!(root & 0x1);
  unsigned et = (unsigned) ((k0 || k1) + k2);
  VP_CHECK(im->nr_targets == et, "refresh: targets whose initiators all became empty disappear");
  unsigned t = 0;
  if (k0 || k1) {
    struct hwloc_internal_memattr_target_s *g = &im->targets[t++];
    VP_CHECK(g->obj == S.numa[0] && g->nr_initiators == (unsigned) (k0 + k1), "refresh: NUMA0 keeps exactly its non-empty initiators");
    unsigned i = 0;
    if (k0) { VP_CHECK(vp_w(g->initiators[i].initiator.location.cpuset) == 0x1 && g->initiators[i].value == V[0], "refresh: surviving initiator keeps its (restricted) cpuset and its value"); i++; }
    if (k1) { VP_CHECK(vp_w(g->initiators[i].initiator.location.cpuset) == (root & 0x6) && g->initiators[i].value == V[1], "refresh: surviving initiator keeps its (restricted) cpuset and its value"); i++; }
  }
  if (k2) { struct hwloc_internal_memattr_target_s *g = &im->targets[t++]; VP_CHECK(g->obj == S.numa[2] && g->nr_initiators == 1 && g->initiators[0].value == V[2], "refresh: NUMA2 keeps its entry"); }
  VP_WITNESS_IF(!k0 && k1, "first initiator emptied, second one moved down");
  VP_WITNESS_IF(et == 0, "everything removed");
}
