/* C12 / C19 — hwloc__topology_dup through an instrumented allocator, on the hand-linked topology of vp_mini.h.
 * Real code: hwloc__topology_dup, hwloc__topology_init, hwloc__duplicate_object, hwloc_bitmap_tma_dup,
 * hwloc__tma_dup_infos, hwloc_tma_strdup/calloc, connect_children/levels on the copy (topology.c, linked),
 * hwloc_internal_{distances,memattrs,cpukinds}_dup (their units, linked).
 * Every tma request is served by a heap object of EXACTLY the requested size and recorded: a write past a block is a
 * bounds violation for the solver (in shared memory it would corrupt the next block), and every pointer reachable from
 * the copy must be a recorded block (a block taken from plain malloc would lie outside the mapping in the adopter).
 */
#include "private/autogen/config.h"
#include "hwloc.h"
#include "private/private.h"
#include "private/misc.h"
#include <string.h>
#include <assert.h>
#include "vp_mini.h"
#define vp_w vp_mw
#ifdef VP_CBMC
int hwloc_hide_errors(void) { return 2; }
char *getenv(const char *n) { (void) n; return 0; }
void hwloc_components_init(void) { }
void hwloc_components_fini(void) { }
void hwloc_topology_components_init(struct hwloc_topology *t) { (void) t; }
void hwloc_topology_components_fini(struct hwloc_topology *t) { (void) t; }
void hwloc_backends_disable_all(struct hwloc_topology *t) { (void) t; }
void hwloc_set_binding_hooks(struct hwloc_topology *t) { (void) t; }
void hwloc_pci_discovery_init(struct hwloc_topology *t) { (void) t; }
void hwloc_pci_discovery_prepare(struct hwloc_topology *t) { (void) t; }
void hwloc_pci_discovery_exit(struct hwloc_topology *t) { (void) t; }
#endif

#define MAXBLK 160
static void *vp_served[MAXBLK]; static unsigned vp_nserved; static size_t vp_total;
static void *vp_exact_malloc(struct hwloc_tma *tma, size_t n)
{ (void) tma; void *p = malloc(n); VP_NONNULL(p); if (vp_nserved < MAXBLK) vp_served[vp_nserved] = p; vp_nserved++; vp_total += (n + 7) & ~(size_t) 7; return p; }
static int served(const void *p) { for (unsigned i = 0; i < MAXBLK; i++) if (i < vp_nserved && vp_served[i] == p) return 1; return 0; }

static void info2(struct hwloc_infos_s *infos)
{
  struct hwloc_info_s *a = malloc(8 * sizeof(struct hwloc_info_s)); VP_NONNULL(a);
  a[0].name = strdup("a"); a[0].value = strdup("1"); a[1].name = strdup("b"); a[1].value = strdup("2");
  VP_NONNULL(a[0].name); VP_NONNULL(a[0].value); VP_NONNULL(a[1].name); VP_NONNULL(a[1].value);
  infos->array = a; infos->count = 2; infos->allocated = 8;       /* a non-full array: the copy must keep a valid capacity */
}
#ifndef NAMELEN
#define NAMELEN 5
#endif
VP_HARNESS(h_dup_blocks)
{
  struct hwloc_topology *t = vp_mini_build();
  hwloc_obj_t opu = vp_mini.pu[0];
  /* the complete_ sets are strict supersets of the sets (an offline PU#6 and a disallowed NUMA node #2 that are not in the tree):
   * each of the four sets of every object then has its own content */
  { hwloc_obj_t all[9]; unsigned na = 0; all[na++] = vp_mini.machine; for (unsigned i = 0; i < 2; i++) { all[na++] = vp_mini.pkg[i]; all[na++] = vp_mini.numa[i]; } for (unsigned i = 0; i < 4; i++) all[na++] = vp_mini.pu[i];
    for (unsigned i = 0; i < 9; i++) { hwloc_bitmap_set(all[i]->complete_cpuset, 6); hwloc_bitmap_set(all[i]->complete_nodeset, 2); } }
  char *nm = malloc(NAMELEN + 1); VP_NONNULL(nm);
  /* concrete bytes: a symbolic byte could be NUL for symex, the copy's block would then have a symbolic size (an
   * array-theory object: the solver runs out of memory); the length is varied per harness instead */
  for (unsigned i = 0; i < NAMELEN; i++) nm[i] = (char) ('a' + i);
  nm[NAMELEN] = 0;
  opu->name = nm; opu->subtype = strdup("st"); opu->userdata = (void *) 0x77;
  info2(&opu->infos); info2(&t->infos);
  struct hwloc_tma tma; tma.malloc = vp_exact_malloc; tma.dontfree = 1; tma.data = NULL;
  hwloc_topology_t n = NULL;
  int r = hwloc__topology_dup(&n, t, &tma);
  VP_CHECK(r == 0 && n && n != t, "dup succeeds");
  VP_CHECK(vp_nserved <= MAXBLK, "harness block table large enough");
  /* structure */
  VP_CHECK(n->nb_levels == 3 && n->level_nbobjects[0] == 1 && n->level_nbobjects[1] == 2 && n->level_nbobjects[2] == 4 && n->slevels[HWLOC_SLEVEL_NUMANODE].nbobjs == 2, "dup: same depth and level widths");
  VP_CHECK(served(n) && served(n->levels) && served(n->level_nbobjects) && served(n->levels[0]) && served(n->levels[1]) && served(n->levels[2]) && served(n->slevels[HWLOC_SLEVEL_NUMANODE].objs), "dup: the topology structure and every level array come from the given allocator");
  VP_CHECK(served(n->support.discovery) && served(n->support.cpubind) && served(n->support.membind) && served(n->support.misc) && served(n->allowed_cpuset) && served(n->allowed_nodeset), "dup: support arrays and allowed sets come from the given allocator");
  VP_CHECK(vp_w(n->allowed_cpuset) == 0x27 && vp_w(n->allowed_nodeset) == 0x3 && n->allowed_cpuset != t->allowed_cpuset && n->flags == t->flags && (n->state & HWLOC_TOPOLOGY_STATE_IS_LOADED), "dup: allowed sets equal but not shared, flags, loaded state");
  for (unsigned d = 0; d < 3; d++) for (unsigned k = 0; k < 4; k++) if (k < n->level_nbobjects[d]) {
    hwloc_obj_t c = n->levels[d][k], o = t->levels[d][k];
    VP_CHECK(c != o && served(c) && served(c->attr) && served(c->cpuset) && served(c->complete_cpuset) && served(c->nodeset) && served(c->complete_nodeset), "dup: every object, its attributes and its four sets come from the given allocator");
    VP_CHECK(c->type == o->type && c->os_index == o->os_index && c->gp_index == o->gp_index && c->depth == o->depth && c->logical_index == o->logical_index && c->sibling_rank == o->sibling_rank && c->arity == o->arity && c->memory_arity == o->memory_arity && c->total_memory == o->total_memory && c->symmetric_subtree == o->symmetric_subtree && c->userdata == o->userdata, "dup: scalar fields, gp_index and userdata verbatim");
    VP_CHECK(vp_w(c->cpuset) == vp_w(o->cpuset) && vp_w(c->nodeset) == vp_w(o->nodeset) && vp_w(c->complete_cpuset) == vp_w(o->complete_cpuset) && vp_w(c->complete_nodeset) == vp_w(o->complete_nodeset), "dup: sets equal");
    if (c->arity) VP_CHECK(served(c->children) && c->children[0] == c->first_child && c->first_child->parent == c && c->last_child == c->children[c->arity - 1], "dup: children arrays come from the given allocator and are linked to the copies");
    if (d) VP_CHECK(c->parent == n->levels[d - 1][o->parent->logical_index], "dup: parent links point into the copy");
    if (k) VP_CHECK(c->prev_cousin == n->levels[d][k - 1] && n->levels[d][k - 1]->next_cousin == c, "dup: cousin links point into the copy");
  }
  for (unsigned k = 0; k < 2; k++) {
    hwloc_obj_t c = n->slevels[HWLOC_SLEVEL_NUMANODE].objs[k], o = vp_mini.numa[k];
    VP_CHECK(c != o && served(c) && served(c->attr) && c->type == HWLOC_OBJ_NUMANODE && c->os_index == k && c->gp_index == o->gp_index && c->attr->numanode.local_memory == o->attr->numanode.local_memory && c->parent == n->levels[1][k] && n->levels[1][k]->memory_first_child == c, "dup: NUMA nodes copied, attached to the copied packages");
  }
  /* strings and infos */
  hwloc_obj_t npu = n->levels[2][0];
  VP_CHECK(npu->name && npu->name != nm && served(npu->name) && npu->subtype && served(npu->subtype) && npu->subtype[0] == 's' && npu->subtype[2] == 0, "dup: name and subtype are fresh strings from the given allocator");
  for (unsigned i = 0; i <= NAMELEN; i++) VP_CHECK(npu->name[i] == nm[i], "dup: name copied byte for byte");
  VP_CHECK(npu->infos.count == 2 && npu->infos.array != opu->infos.array && served(npu->infos.array) && served(npu->infos.array[1].name) && served(npu->infos.array[1].value) && npu->infos.array[1].value[0] == '2' && npu->infos.array[0].name[0] == 'a', "dup: info pairs copied into blocks of the given allocator");
  VP_CHECK(n->infos.count == 2 && served(n->infos.array) && n->infos.array[1].name[0] == 'b' && n->infos.array[1].value != t->infos.array[1].value, "dup: topology infos copied");
  int cap_ok = 1;
#ifdef VP_CBMC
  cap_ok = __CPROVER_OBJECT_SIZE(npu->infos.array) >= npu->infos.allocated * sizeof(struct hwloc_info_s) && npu->infos.allocated >= npu->infos.count;
  VP_CHECK(cap_ok, "dup: the copied info array really has the capacity it claims (later additions stay in bounds)");
#endif
  /* (under the solver the additions below only run when the claim holds: an out-of-bounds store into an undersized block
   *  turns the rest of the query into array theory and exhausts the solver; the native replay runs them and ASan sees the overflow) */
  if (cap_ok)
  /* the copy is safely modifiable: pairs can be added up to the capacity it claims without leaving the block (the original
   * array is half full, so allocated > count) */
  { unsigned room = npu->infos.allocated - npu->infos.count; VP_CHECK(room == 6, "dup: the copy claims the capacity of the original");
    for (unsigned i = 0; i < 6; i++) VP_CHECK(hwloc__add_info(&npu->infos, "k", "v") == 1, "dup: adding a pair to the copy succeeds");
    VP_CHECK(npu->infos.count == 8 && npu->infos.array[7].name[0] == 'k' && opu->infos.count == 2, "dup: six more pairs fit in the copied array"); }
  /* independence: mutating the copy leaves the original alone, and vice versa */
  hwloc_bitmap_clr(npu->cpuset, 0); npu->infos.array[0].value[0] = 'x'; npu->name[0] = 'Z' == nm[0] ? 'Y' : 'Z'; hwloc_bitmap_clr(n->allowed_cpuset, 5);
  VP_CHECK(vp_w(opu->cpuset) == 1 && opu->infos.array[0].value[0] == '1' && opu->name[0] == nm[0] && vp_w(t->allowed_cpuset) == 0x27, "dup: no mutable storage is shared (copy -> original)");
  hwloc_bitmap_set(vp_mini.pkg[1]->cpuset, 9); t->infos.array[0].value[0] = 'y';
  VP_CHECK(vp_w(n->levels[1][1]->cpuset) == 0x24 && n->infos.array[0].value[0] == '1', "dup: no mutable storage is shared (original -> copy)");
  VP_WITNESS("a topology with names, subtype, infos and memory children duplicated block by block");
}
