/* C04 — bitmap <-> string conversions round-trip and honour the snprintf contract.
 * Real code: hwloc_bitmap_{,list_,taskset_}{snprintf,asprintf,sscanf} (hwloc/bitmap.c, textually included)
 * and hwloc_snprintf (hwloc/misc.c, linked).
 */
#include "vp.h"
#include <stdarg.h>
#include <stdio.h>
#ifdef ABSTRACT_PIECES
/* the printers are checked against a CONTRACT version of hwloc_snprintf (defined below): the k-th piece
 * "needs" an arbitrary number r_k of characters and is written with conforming truncation. On this
 * platform configure found a C99 snprintf (HWLOC_HAVE_CORRECT_SNPRINTF), so hwloc_snprintf IS snprintf
 * (private.h macro) and the workaround function of misc.c is not used by the library. */
#endif
#ifdef SIZED_MALLOC
/* asprintf allocates len+1 bytes with len computed from the set: a block of symbolic size is an array-theory object for the
 * solver (no verdict). While the harness has vp_sized_on set, malloc(n) hands out a block of the CONSTANT size SIZED_CAP
 * filled with a canary and records n; the harness then asserts that n is exactly what the text needs and that nothing was
 * written at or beyond offset n — which is what an exactly sized block would have reported. */
#include <stdlib.h>
/* every header of bitmap.c first (their include guards then make bitmap.c's own includes no-ops), so that the macro below only
 * meets the allocation calls written in bitmap.c itself (private.h has tma->malloc(...) members) */
#include "private/autogen/config.h"
#include "hwloc/autogen/config.h"
#include "hwloc.h"
#include "private/misc.h"
#include "private/private.h"
#include "private/debug.h"
#include "hwloc/bitmap.h"
#include <assert.h>
#include <errno.h>
#include <ctype.h>
static int vp_sized_on; static size_t vp_sized_req; static unsigned vp_sized_calls; static char *vp_sized_blk;
#ifndef SIZED_CAP
#define SIZED_CAP 48
#endif
static void *vp_sized_malloc(size_t n)
{
  if (!vp_sized_on) return (malloc)(n);
  vp_sized_req = n; vp_sized_calls++;
  char *p = (malloc)(SIZED_CAP); VP_NONNULL(p);
  for (unsigned i = 0; i < SIZED_CAP; i++) p[i] = (char) 0x5a;
  vp_sized_blk = p;
  return p;
}
#define malloc(n) vp_sized_malloc(n)
#endif
#include "hwloc/bitmap.c"
#ifdef SIZED_MALLOC
#undef malloc
#endif

#ifndef NW
#define NW 1
#endif
#ifndef FMT
#define FMT 0   /* 0 hwloc, 1 list, 2 taskset */
#endif
#ifndef ALLOC
#define ALLOC 8
#endif
#ifndef LISTMASK
#define LISTMASK 0xffUL    /* list format: explicit bits of every word kept inside this mask (few ranges, <= 3 digits) */
#endif

static struct hwloc_bitmap_s *mk(unsigned maxw)
{
  struct hwloc_bitmap_s *s = malloc(sizeof(*s));
  VP_NONNULL(s);
  s->ulongs = malloc(ALLOC * sizeof(unsigned long));
  VP_NONNULL(s->ulongs);
  s->ulongs_count = (unsigned) vp_in_range(1, maxw);
  s->ulongs_allocated = ALLOC;
  for (unsigned i = 0; i < ALLOC; i++) { s->ulongs[i] = i < maxw ? vp_in64() : 0xdeadbeefUL;
#ifdef WMASK
    if (i < maxw) VP_ASSUME((s->ulongs[i] & ~WMASK) == 0 || (s->ulongs[i] | WMASK) == ~0UL);   /* stated bound: explicit bits (or holes) inside WMASK */
#endif
  }
  s->infinite = vp_in_bool();
  return s;
}
static unsigned long word(const struct hwloc_bitmap_s *s, unsigned i)
{ return i < s->ulongs_count ? s->ulongs[i] : (s->infinite ? ~0UL : 0UL); }

static int do_snprintf(char *buf, size_t len, const struct hwloc_bitmap_s *b)
{
#if FMT == 0
  return hwloc_bitmap_snprintf(buf, len, b);
#elif FMT == 1
  return hwloc_bitmap_list_snprintf(buf, len, b);
#else
  return hwloc_bitmap_taskset_snprintf(buf, len, b);
#endif
}
static int do_asprintf(char **p, const struct hwloc_bitmap_s *b)
{
#if FMT == 0
  return hwloc_bitmap_asprintf(p, b);
#elif FMT == 1
  return hwloc_bitmap_list_asprintf(p, b);
#else
  return hwloc_bitmap_taskset_asprintf(p, b);
#endif
}
static int do_sscanf(struct hwloc_bitmap_s *b, const char *s)
{
#if FMT == 0
  return hwloc_bitmap_sscanf(b, s);
#elif FMT == 1
  return hwloc_bitmap_list_sscanf(b, s);
#else
  return hwloc_bitmap_taskset_sscanf(b, s);
#endif
}

/* ------------------------------------------------------------------------------------------------ */
/* cursor contract with ABSTRACT pieces: the k-th piece that the printer emits "needs" r_k characters,
 * r_k arbitrary in [0,R] (this over-approximates every real piece length), and the stub behaves as a
 * conforming vsnprintf: writes min(r_k, size-1) bytes of a pattern + NUL, returns r_k.
 * A piece is identified by call order; hwloc_snprintf's retry calls (into its own malloc'd buffer when
 * the first call returned size-1) are recognised by their destination not being the caller's buffer. */
#ifdef ABSTRACT_PIECES
#ifndef CAP
#define CAP 32
#endif
#ifndef R
#define R 5
#endif
#define PIECES 12
static unsigned char vp_r[PIECES]; static int vp_piece;
int hwloc_snprintf(char *buf, size_t size, const char *fmt, ...)
{
  (void) fmt;
  vp_piece++;
  VP_ASSUME(vp_piece >= 0 && vp_piece < PIECES);   /* stated bound: at most 12 pieces */
  unsigned k = (unsigned) vp_piece, r = vp_r[k];
  for (unsigned j = 0; j < R; j++) if (j < r && size > 0 && j < size - 1) buf[j] = (char) ('A' + k);
  if (size > 0) buf[r < size - 1 ? r : size - 1] = 0;
  return (int) r;
}
VP_HARNESS(h_cursor_abstract)
{
  struct hwloc_bitmap_s *a = mk(NW);
  for (unsigned k = 0; k < PIECES; k++) { vp_r[k] = (unsigned char) vp_in_range(0, R); }
#if FMT == 1
  for (unsigned i = 0; i < NW; i++) VP_ASSUME((a->ulongs[i] & ~LISTMASK) == 0 || i >= a->ulongs_count);
#endif
  char *full = malloc(CAP + 1), *buf = malloc(CAP + 1);
  VP_NONNULL(full); VP_NONNULL(buf);
  size_t len = (size_t) vp_in_range(0, CAP);
  unsigned char canary = vp_in_byte();
  for (unsigned i = 0; i <= CAP; i++) { buf[i] = (char) canary; full[i] = 0; }
  VP_SYMBOLIC_PHASE(1);
  vp_piece = -1;
  int n = do_snprintf(full, CAP + 1, a);
  VP_ASSUME(n >= 0 && n < CAP);       /* full texts longer than CAP-1 are outside this harness */
  vp_piece = -1;
  int m = do_snprintf(len ? buf : NULL, len, a);
  VP_CHECK(m == n, "snprintf returns the length the untruncated text needs, for every buffer length");
  for (unsigned i = 0; i <= CAP; i++) if (i >= len) VP_CHECK(buf[i] == (char) canary, "snprintf never writes at or beyond buf+buflen");
  if (len > 0) {
    size_t end = (size_t) n < len - 1 ? (size_t) n : len - 1;
    VP_CHECK(buf[end] == 0, "snprintf NUL-terminates whenever buflen > 0");
    for (unsigned i = 0; i < CAP; i++) if (i < end) VP_CHECK(buf[i] == full[i], "the truncated text is a prefix of the full text");
  }
  VP_WITNESS_IF(n >= 6 && len >= 3 && len < (size_t) n && vp_r[1] == R, "a truncation in the middle of a later piece");
  VP_WITNESS_IF(len == 0, "NULL buffer with length 0");
}
#elif defined(SNPRINTF_CONTRACT)
/* ------------------------------------------------------------------------------------------------ */
/* the real hwloc_snprintf (misc.c) against the snprintf contract, for a conforming vsnprintf and for the
 * legacy ones it works around (returning size-1 or -1 on truncation) */
#ifdef VP_CBMC
static unsigned vp_need, vp_style;
int vsnprintf(char *buf, size_t size, const char *fmt, va_list ap)
{
  (void) fmt; (void) ap;
  unsigned r = vp_need;
  for (unsigned j = 0; j < 24; j++) if (j < r && size > 0 && j < size - 1) buf[j] = (char) ('a' + j);
  if (size > 0) buf[r < size - 1 ? r : size - 1] = 0;
  if (r >= size) { if (vp_style == 1) return (int) size - 1; if (vp_style == 2) { errno = 0; return -1; } }
  return (int) r;
}
#endif
VP_HARNESS(h_hwloc_snprintf_contract)
{
  char *buf = malloc(17);
  VP_NONNULL(buf);
  size_t size = (size_t) vp_in_range(0, 16);
  unsigned need = (unsigned) vp_in_range(0, 20), style = (unsigned) vp_in_range(0, 2);
  unsigned char canary = vp_in_byte();
  for (unsigned i = 0; i < 17; i++) buf[i] = (char) canary;
#ifdef VP_CBMC
  vp_need = need; vp_style = style;
  int r = hwloc_snprintf(size ? buf : NULL, size, "x");
  VP_CHECK(r == (int) need, "hwloc_snprintf returns the length the untruncated text needs, whatever the libc style");
  for (unsigned i = 0; i < 17; i++) if (i >= size) VP_CHECK(buf[i] == (char) canary, "hwloc_snprintf never writes at or beyond size");
  if (size) {
    size_t end = need < size - 1 ? need : size - 1;
    VP_CHECK(buf[end] == 0, "hwloc_snprintf NUL-terminates");
    for (unsigned i = 0; i < 16; i++) if (i < end) VP_CHECK(buf[i] == (char) ('a' + i), "hwloc_snprintf: truncated text is a prefix");
  }
  VP_WITNESS_IF(style == 1 && need == size - 1 && size > 2, "exact fit under a legacy libc: retry path");
  VP_WITNESS_IF(style == 2 && need > size && size > 1, "legacy -1 style truncation");
#else
  /* native replay: glibc is conforming; run the conforming case with a real format */
  int r = hwloc_snprintf(size ? buf : NULL, size, "%.*s", (int) need, "abcdefghijklmnopqrstuvwxyz");
  VP_CHECK(r == (int) need, "hwloc_snprintf returns the needed length");
  for (unsigned i = 0; i < 17; i++) if (i >= size) VP_CHECK(buf[i] == (char) canary, "hwloc_snprintf never writes at or beyond size");
  (void) style;
#endif
}
#else

/* ------------------------------------------------------------------------------------------------ */
/* cursor contract with TRUE lengths (vsnprintf model of env/vp_libc.c) */
#ifndef CAP
#define CAP 40
#endif
VP_HARNESS(h_cursor_true)
{
  struct hwloc_bitmap_s *a = mk(NW);
  char *full = malloc(CAP + 1), *buf = malloc(CAP + 1);
  VP_NONNULL(full); VP_NONNULL(buf);
  size_t len = (size_t) vp_in_range(0, CAP);
  unsigned char canary = vp_in_byte();
  for (unsigned i = 0; i <= CAP; i++) { buf[i] = (char) canary; full[i] = 0; }
#if FMT == 1
  for (unsigned i = 0; i < NW; i++) VP_ASSUME((a->ulongs[i] & ~LISTMASK) == 0 || i >= a->ulongs_count);
#endif
  VP_SYMBOLIC_PHASE(1);
  int n = do_snprintf(full, CAP + 1, a);
  VP_ASSUME(n >= 0 && n < CAP);
  int m = do_snprintf(len ? buf : NULL, len, a);
  VP_CHECK(m == n, "snprintf returns the length the untruncated text needs, for every buffer length");
  for (unsigned i = 0; i <= CAP; i++) if (i >= len) VP_CHECK(buf[i] == (char) canary, "snprintf never writes at or beyond buf+buflen");
  if (len > 0) {
    size_t end = (size_t) n < len - 1 ? (size_t) n : len - 1;
    VP_CHECK(buf[end] == 0, "snprintf NUL-terminates whenever buflen > 0");
    for (unsigned i = 0; i < CAP; i++) if (i < end) VP_CHECK(buf[i] == full[i], "the truncated text is a prefix of the full text");
  }
  VP_WITNESS_IF(n >= 10 && len >= 3 && len < (size_t) n, "a truncated text");
}

/* ------------------------------------------------------------------------------------------------ */
/* print -> parse identity, and asprintf == snprintf */
VP_HARNESS(h_roundtrip)
{
  struct hwloc_bitmap_s *a = mk(NW), *p = hwloc_bitmap_alloc();
  VP_NONNULL(p);
#if FMT == 1
  for (unsigned i = 0; i < NW; i++) VP_ASSUME((a->ulongs[i] & ~LISTMASK) == 0 || i >= a->ulongs_count);
#endif
  char *buf = malloc(CAP + 1);
  VP_NONNULL(buf);
  VP_SYMBOLIC_PHASE(1);
  int n = do_snprintf(buf, CAP + 1, a);
  VP_CHECK(n > 0 || (FMT == 1 && n == 0), "snprintf produces a text");
  VP_ASSUME(n < CAP);
  VP_CHECK(buf[n] == 0, "text is NUL-terminated at its length");
  int r = do_sscanf(p, buf);
  VP_CHECK(r == 0, "sscanf accepts what snprintf printed");
  VP_CHECK(p->ulongs_count >= 1 && p->ulongs_count <= p->ulongs_allocated && (p->infinite == 0 || p->infinite == 1), "parsed bitmap satisfies the representation invariant");
  for (unsigned i = 0; i <= NW + 1; i++) VP_CHECK(word(p, i) == word(a, i), "print then parse yields an equal bitmap (word by word)");
  VP_CHECK(!!p->infinite == !!a->infinite, "print then parse keeps the infinite tail");
  VP_WITNESS_IF(a->infinite && a->ulongs[0] == 0x5, "an infinite set with a hole");
  VP_WITNESS_IF(!a->infinite && n >= 6, "a finite set with a long text");
}

VP_HARNESS(h_asprintf)
{
  struct hwloc_bitmap_s *a = mk(NW);
#if FMT == 1
  for (unsigned i = 0; i < NW; i++) VP_ASSUME((a->ulongs[i] & ~LISTMASK) == 0 || i >= a->ulongs_count);
#endif
  char *buf = malloc(CAP + 1), *s = NULL;
  VP_NONNULL(buf);
  /* asprintf allocates len+1 bytes: a concrete-size malloc keeps the query small, so the text length is
   * bounded by assumption and the allocation model is CBMC's own malloc */
  int n = do_snprintf(buf, CAP + 1, a);
  VP_ASSUME(n >= 0 && n < CAP);
  int m = do_asprintf(&s, a);
  VP_CHECK(m == n, "asprintf returns the same length as snprintf");
  VP_CHECK(s != NULL, "asprintf returns a string");
  for (unsigned i = 0; i < CAP; i++) if (i <= (unsigned) n) VP_CHECK(s[i] == buf[i], "asprintf produces the same text as snprintf");
  VP_WITNESS_IF(n >= 8, "a non-trivial text");
}

#ifdef SIZED_MALLOC
/* asprintf == snprintf, with the allocation request observed instead of materialised (see vp_sized_malloc) */
VP_HARNESS(h_asprintf_sized)
{
  struct hwloc_bitmap_s *a = mk(NW);
#if FMT == 1
  for (unsigned i = 0; i < NW; i++) VP_ASSUME((a->ulongs[i] & ~LISTMASK) == 0 || i >= a->ulongs_count);
#endif
#ifdef TOPLO
  /* stated bound: the top explicit word lies in [TOPLO, TOPHI) so that the text length is around the interesting sizes */
  VP_ASSUME(a->ulongs_count == NW && !a->infinite && a->ulongs[NW - 1] >= TOPLO && a->ulongs[NW - 1] < TOPHI);
#endif
  char *buf = malloc(CAP + 1), *s = NULL;
  VP_NONNULL(buf);
  int n = do_snprintf(buf, CAP + 1, a);
  VP_ASSUME(n >= 0 && n < CAP && n + 1 < SIZED_CAP);
  vp_sized_on = 1;
  int m = do_asprintf(&s, a);
  vp_sized_on = 0;
  VP_CHECK(m == n, "asprintf returns the same length as snprintf");
  VP_CHECK(s != NULL, "asprintf returns a string");
  for (unsigned i = 0; i < CAP; i++) if (i <= (unsigned) n) VP_CHECK(s[i] == buf[i], "asprintf produces the same text as snprintf (including the terminator)");
  if (s == vp_sized_blk) {
    VP_CHECK(vp_sized_req >= (size_t) n + 1, "asprintf asks for at least length+1 bytes");
    for (unsigned i = 0; i < SIZED_CAP; i++) if (i >= vp_sized_req) VP_CHECK(s[i] == (char) 0x5a, "asprintf never writes at or beyond the size it asked for");
  }
  VP_WITNESS_IF(n >= 8, "a non-trivial text");
#ifdef TOPLO
  VP_WITNESS_IF(n == 32, "a text of exactly 32 characters");
#endif
}
#endif

#ifdef ASP_CONTRACT
/* The three *_asprintf functions against a CONTRACT of the printer they call. Their real bodies are copied out of the current
 * hwloc/bitmap.c by the driver (asp.inc, renamed *__vp) and compiled here with the printer names redirected to a stand-in
 * that obeys the snprintf contract for an ARBITRARY text: N characters (0..ACAP, symbolic, non-NUL), the same for every call on
 * the same set. malloc is the observing allocator (constant-size block, request recorded). Decided for every N: the result is
 * N, the string is the full text with its terminator, the request was at least N+1 bytes and nothing was written beyond it. */
#ifndef ACAP
#define ACAP 40
#endif
static unsigned vp_txt_n; static char vp_txt[ACAP + 1]; static unsigned vp_stub_calls;
static int vp_stub_snprintf(char *buf, size_t buflen, const struct hwloc_bitmap_s *set)
{
  (void) set; vp_stub_calls++;
  if (buflen > 0) {
    for (unsigned i = 0; i < ACAP; i++) if (i < vp_txt_n && (size_t) i + 1 < buflen) buf[i] = vp_txt[i];
    for (unsigned i = 0; i <= ACAP; i++) if (i == (vp_txt_n < buflen - 1 ? vp_txt_n : (unsigned) (buflen - 1))) buf[i] = 0;
  }
  return (int) vp_txt_n;
}
#define hwloc_bitmap_snprintf vp_stub_snprintf
#define hwloc_bitmap_list_snprintf vp_stub_snprintf
#define hwloc_bitmap_taskset_snprintf vp_stub_snprintf
#define malloc(n) vp_sized_malloc(n)
#include "asp.inc"
#undef malloc
#undef hwloc_bitmap_snprintf
#undef hwloc_bitmap_list_snprintf
#undef hwloc_bitmap_taskset_snprintf
VP_HARNESS(h_asprintf_contract)
{
  struct hwloc_bitmap_s *a = mk(1);
  vp_txt_n = (unsigned) vp_in_range(0, ACAP);
  for (unsigned i = 0; i < ACAP; i++) { char c = (char) vp_in_byte(); VP_ASSUME(c != 0); vp_txt[i] = c; }
  vp_txt[ACAP] = 0;
  char *s = NULL;
  vp_sized_on = 1;
#if FMT == 0
  int m = hwloc_bitmap_asprintf__vp(&s, a);
#elif FMT == 1
  int m = hwloc_bitmap_list_asprintf__vp(&s, a);
#else
  int m = hwloc_bitmap_taskset_asprintf__vp(&s, a);
#endif
  vp_sized_on = 0;
  VP_CHECK(m == (int) vp_txt_n, "asprintf returns the length snprintf reports");
  VP_CHECK(s != NULL, "asprintf returns a string");
  for (unsigned i = 0; i < ACAP; i++) if (i < vp_txt_n) VP_CHECK(s[i] == vp_txt[i], "asprintf produces the full text snprintf produces");
  for (unsigned i = 0; i <= ACAP; i++) if (i == vp_txt_n) VP_CHECK(s[i] == 0, "the text is terminated at its length");
  if (s == vp_sized_blk) {
    VP_CHECK(vp_sized_req >= (size_t) vp_txt_n + 1, "asprintf asks for at least length+1 bytes");
    for (unsigned i = 0; i < SIZED_CAP; i++) if (i >= vp_sized_req) VP_CHECK(s[i] == (char) 0x5a, "asprintf never writes at or beyond the size it asked for");
  }
  VP_WITNESS_IF(vp_txt_n == 32, "a text of exactly 32 characters");
  VP_WITNESS_IF(vp_txt_n == 0, "the empty text");
}
#endif

/* ------------------------------------------------------------------------------------------------ */
/* parsing an arbitrary NUL-terminated string held in an exactly sized object */
#ifndef L
#define L 5
#endif
VP_HARNESS(h_parse)
{
  char *s = malloc(L + 1);
  VP_NONNULL(s);
  unsigned n = (unsigned) vp_in_range(0, L);
  for (unsigned i = 0; i < L; i++) { unsigned char c = vp_in_byte(); s[i] = (char) (i < n ? c : 0); if (i < n) VP_ASSUME(c != 0); }
  s[L] = 0;
  /* string of length n; the object is L+1 bytes: exact-size variant for n == L, and the bytes after the
   * terminator are zero so that an over-read inside the object cannot change the verdict silently */
  struct hwloc_bitmap_s *p = mk(2);
  unsigned long old0 = p->ulongs[0];
  VP_SYMBOLIC_PHASE(1);
  int r = do_sscanf(p, s);
  VP_CHECK(r == 0 || r == -1, "sscanf returns 0 or -1");
  VP_CHECK(p->ulongs_count >= 1 && p->ulongs_count <= p->ulongs_allocated && (p->infinite == 0 || p->infinite == 1), "the result satisfies the representation invariant");
  if (r == -1) { VP_CHECK(!p->infinite, "a rejected string leaves the empty set"); for (unsigned i = 0; i < ALLOC; i++) if (i < p->ulongs_count) VP_CHECK(p->ulongs[i] == 0, "a rejected string leaves the empty set"); }
#ifdef STABLE
  { /* the result is a function of the string: a second parse into a different pre-state agrees */
    struct hwloc_bitmap_s *p2 = mk(2);
    int r2 = do_sscanf(p2, s);
    VP_CHECK(r2 == r, "sscanf: same verdict whatever the destination held before");
    for (unsigned i = 0; i <= 3; i++) VP_CHECK(word(p2, i) == word(p, i), "sscanf: same set whatever the destination held before");
  }
  if (r == 0) {
    /* whatever is accepted is a function of the string and is stable under print -> parse */
    struct hwloc_bitmap_s *q = hwloc_bitmap_alloc(); char *buf = malloc(CAP + 1);
    VP_NONNULL(q); VP_NONNULL(buf);
    int len = do_snprintf(buf, CAP + 1, p);
    VP_ASSUME(len >= 0 && len < CAP);
    VP_CHECK(do_sscanf(q, buf) == 0, "the printed form of an accepted string is accepted");
    for (unsigned i = 0; i <= 3; i++) VP_CHECK(word(q, i) == word(p, i), "accepted input is stable under print then parse");
    VP_CHECK(!!q->infinite == !!p->infinite, "accepted input is stable under print then parse (tail)");
  }
#endif
  (void) old0;
  VP_WITNESS_IF(r == 0 && n == L && p->ulongs[0] == 0x12, "a full-length string accepted");
  VP_WITNESS_IF(r == -1 && n >= 2, "a string rejected");
  VP_WITNESS_IF(r == 0 && n == 0, "the empty string");
}
#endif
