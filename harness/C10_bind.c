/* C10 — binding calls validate arguments, hand only legal sets to the OS hook, dummy hooks for foreign systems.
 * Real code: hwloc/bind.c (textually included) on seed S4 built WITHOUT INCLUDE_DISALLOWED, so that the
 * topology cpuset (PU 0,2,5 = 0x25) is a strict subset of the complete cpuset (0x27) and the topology
 * nodeset (0x1) of the complete nodeset (0x3). Hooks are recorders returning a symbolic result.
 * The live OS round trip (bind -> get on the running system) needs real syscalls: outside.
 */
#define SEED 4
#include "vp_seed.h"
#include "hwloc/bind.c"

#ifdef VP_CBMC
/* native hook installers are not part of the claim */
void hwloc_set_linuxfs_hooks(struct hwloc_binding_hooks *h, struct hwloc_topology_support *s) { (void) h; (void) s; }
#endif

static struct hwloc_topology *T;
static int calls, last_hook, last_flags, last_policy, last_weight; static unsigned long last_w; static hwloc_const_bitmap_t last_set; static int ret_a, ret_b, err_a, err_b;
/* the set is sampled inside the hook: by-cpuset membind entry points free their temporary nodeset before returning */
#define REC(id, s, fl) do { calls++; last_hook = id; last_set = s; last_w = hwloc_bitmap_to_ulong(s); last_weight = hwloc_bitmap_weight(s); last_flags = fl; } while (0)
static int hk_set_thisproc(hwloc_topology_t t, hwloc_const_cpuset_t s, int fl) { (void) t; REC(1, s, fl); errno = err_a; return ret_a; }
static int hk_set_thisthread(hwloc_topology_t t, hwloc_const_cpuset_t s, int fl) { (void) t; REC(2, s, fl); errno = err_b; return ret_b; }
static int hk_set_proc(hwloc_topology_t t, hwloc_pid_t p, hwloc_const_cpuset_t s, int fl) { (void) t; (void) p; REC(3, s, fl); errno = err_a; return ret_a; }
static int hk_set_thread(hwloc_topology_t t, hwloc_thread_t p, hwloc_const_cpuset_t s, int fl) { (void) t; (void) p; REC(4, s, fl); errno = err_a; return ret_a; }
static int hk_get_thisproc(hwloc_topology_t t, hwloc_cpuset_t s, int fl) { (void) t; REC(5, s, fl); errno = err_a; return ret_a; }
static int hk_get_thisthread(hwloc_topology_t t, hwloc_cpuset_t s, int fl) { (void) t; REC(6, s, fl); errno = err_b; return ret_b; }
static int hk_set_thisproc_mem(hwloc_topology_t t, hwloc_const_nodeset_t s, hwloc_membind_policy_t p, int fl) { (void) t; REC(7, s, fl); last_policy = (int) p; errno = err_a; return ret_a; }
static int hk_set_thisthread_mem(hwloc_topology_t t, hwloc_const_nodeset_t s, hwloc_membind_policy_t p, int fl) { (void) t; REC(8, s, fl); last_policy = (int) p; errno = err_b; return ret_b; }
static int hk_set_area_mem(hwloc_topology_t t, const void *a, size_t l, hwloc_const_nodeset_t s, hwloc_membind_policy_t p, int fl) { (void) t; (void) a; (void) l; REC(9, s, fl); last_policy = (int) p; errno = err_a; return ret_a; }

static hwloc_bitmap_t in_set(unsigned long *wp, int *infp)
{
  unsigned long q = vp_in64(); int inf = vp_in_bool();
  VP_ASSUME(q < 256);
  hwloc_bitmap_t b = vp_bm(q);
  if (inf) hwloc_bitmap_set_range(b, 64, -1);
  *wp = q; *infp = inf;
  return b;
}
static void results(void)
{
  ret_a = vp_in_int(); ret_b = vp_in_int(); VP_ASSUME(ret_a >= -1 && ret_a <= 0 && ret_b >= -1 && ret_b <= 0);
  err_a = vp_in_bool() ? ENOSYS : EPERM; err_b = vp_in_bool() ? ENOSYS : EPERM;
}
#define CPUS 0x25UL
#define CCPUS 0x27UL
#define NODES 0x1UL
#define CNODES 0x3UL

/* ---- set_cpubind / set_proc_cpubind / set_thread_cpubind ----------------------------------------------------- */
#ifndef EP
#define EP 0
#endif
VP_HARNESS(h_set_cpubind)
{
  T = vp_seed_build(4, 0);
  VP_ASSUME(vp_w(T->levels[0][0]->cpuset) == CPUS && vp_w(T->levels[0][0]->complete_cpuset) == CCPUS);
  unsigned long q; int inf; hwloc_bitmap_t set = in_set(&q, &inf);
  int flags = vp_in_int();
  int hp = vp_in_bool(), ht = vp_in_bool();
  results();
  memset(&T->binding_hooks, 0, sizeof T->binding_hooks);
  if (hp) { T->binding_hooks.set_thisproc_cpubind = hk_set_thisproc; T->binding_hooks.set_proc_cpubind = hk_set_proc; T->binding_hooks.set_thread_cpubind = hk_set_thread; }
  if (ht) T->binding_hooks.set_thisthread_cpubind = hk_set_thisthread;
  VP_SYMBOLIC_PHASE(1);
  errno = 0;
#if EP == 0
  int r = hwloc_set_cpubind(T, set, flags);
#elif EP == 1
  int r = hwloc_set_proc_cpubind(T, 1234, set, flags);
#else
  int r = hwloc_set_thread_cpubind(T, (hwloc_thread_t) 0, set, flags);
#endif
  int bad = (flags & ~HWLOC_CPUBIND_ALLFLAGS) || (q == 0 && !inf) || inf || (q & ~CCPUS);
  if (bad) {
    VP_CHECK(r == -1 && errno == EINVAL, "set_cpubind: unknown flags, empty set or set not included in the complete set -> -1/EINVAL");
    VP_CHECK(calls == 0, "set_cpubind: rejected before touching the operating system");
  } else {
    unsigned long expect = (CPUS & ~q) == 0 ? CCPUS : q;
#if EP == 0
    int first = (flags & HWLOC_CPUBIND_PROCESS) ? (hp ? 1 : 0) : (flags & HWLOC_CPUBIND_THREAD) ? (ht ? 2 : 0) : (hp ? 1 : ht ? 2 : 0);
    if (!first) VP_CHECK(r == -1 && errno == ENOSYS && calls == 0, "set_cpubind: no hook -> -1/ENOSYS");
    else {
      VP_CHECK(calls >= 1 && last_w == expect && last_weight > 0, "set_cpubind: a set covering the topology reaches the hook as the complete set, any other valid set unchanged");
      if (!(flags & (HWLOC_CPUBIND_PROCESS | HWLOC_CPUBIND_THREAD)) && hp && ret_a < 0 && err_a == ENOSYS) {
        if (ht) VP_CHECK(calls == 2 && last_hook == 2 && r == ret_b, "set_cpubind: ENOSYS from the process hook falls back to the thread hook");
        else VP_CHECK(calls == 1 && r == -1 && errno == ENOSYS, "set_cpubind: ENOSYS without fallback hook");
      } else VP_CHECK(calls == 1 && last_hook == first && r == (first == 1 ? ret_a : ret_b) && last_flags == flags, "set_cpubind: exactly the selected hook runs and its result is returned");
    }
#else
    if (!hp) VP_CHECK(r == -1 && errno == ENOSYS && calls == 0, "set_proc/thread_cpubind: no hook -> -1/ENOSYS");
    else VP_CHECK(calls == 1 && last_hook == (EP == 1 ? 3 : 4) && last_w == expect && r == ret_a && last_flags == flags, "set_proc/thread_cpubind: the fixed set reaches the hook");
#endif
  }
  VP_WITNESS_IF(!bad && calls && last_w == CCPUS && q == CPUS, "the topology set replaced by the complete set");
  VP_WITNESS_IF(bad && q == 0x2f, "an out-of-range superset rejected");
}

/* ---- get_cpubind: flag validation, dispatch, the caller's bitmap is passed through ----------------------------- */
VP_HARNESS(h_get_cpubind)
{
  T = vp_seed_build(4, 0);
  hwloc_bitmap_t set = vp_bm(0x55);
  int flags = vp_in_int(); int hp = vp_in_bool(), ht = vp_in_bool();
  results();
  memset(&T->binding_hooks, 0, sizeof T->binding_hooks);
  if (hp) T->binding_hooks.get_thisproc_cpubind = hk_get_thisproc;
  if (ht) T->binding_hooks.get_thisthread_cpubind = hk_get_thisthread;
  VP_SYMBOLIC_PHASE(1);
  errno = 0;
  int r = hwloc_get_cpubind(T, set, flags);
  if (flags & ~HWLOC_CPUBIND_ALLFLAGS) VP_CHECK(r == -1 && errno == EINVAL && calls == 0, "get_cpubind: unknown flags -> -1/EINVAL before any hook");
  else {
    int first = (flags & HWLOC_CPUBIND_PROCESS) ? (hp ? 5 : 0) : (flags & HWLOC_CPUBIND_THREAD) ? (ht ? 6 : 0) : (hp ? 5 : ht ? 6 : 0);
    if (!first) VP_CHECK(r == -1 && errno == ENOSYS && calls == 0, "get_cpubind: no hook -> -1/ENOSYS");
    else VP_CHECK(calls >= 1 && last_set == set, "get_cpubind: the caller's bitmap is handed to the hook");
  }
  VP_WITNESS_IF(calls == 2, "fallback from the process hook to the thread hook");
}

/* ---- set_membind (by nodeset or by cpuset) and set_area_membind --------------------------------------------------- */
VP_HARNESS(h_set_membind)
{
  T = vp_seed_build(4, 0);
  VP_ASSUME(vp_w(T->levels[0][0]->nodeset) == NODES && vp_w(T->levels[0][0]->complete_nodeset) == CNODES);
  unsigned long q; int inf; hwloc_bitmap_t set = in_set(&q, &inf);
  int flags = vp_in_int(), policy = vp_in_int();
  int hp = vp_in_bool(), ht = vp_in_bool();
  results();
  memset(&T->binding_hooks, 0, sizeof T->binding_hooks);
  if (hp) { T->binding_hooks.set_thisproc_membind = hk_set_thisproc_mem; T->binding_hooks.set_area_membind = hk_set_area_mem; }
  if (ht) T->binding_hooks.set_thisthread_membind = hk_set_thisthread_mem;
  static char area[16];
  VP_SYMBOLIC_PHASE(1);
  errno = 0;
#if EP == 0
  int r = hwloc_set_membind(T, set, (hwloc_membind_policy_t) policy, flags);
#else
  int r = hwloc_set_area_membind(T, area, sizeof area, set, (hwloc_membind_policy_t) policy, flags);
#endif
  int pol_ok = policy == HWLOC_MEMBIND_DEFAULT || policy == HWLOC_MEMBIND_FIRSTTOUCH || policy == HWLOC_MEMBIND_BIND || policy == HWLOC_MEMBIND_INTERLEAVE || policy == HWLOC_MEMBIND_WEIGHTED_INTERLEAVE || policy == HWLOC_MEMBIND_NEXTTOUCH;
  int bynode = !!(flags & HWLOC_MEMBIND_BYNODESET);
  int set_bad = (q == 0 && !inf) || inf || (q & ~(bynode ? CNODES : CCPUS));
  if ((flags & ~HWLOC_MEMBIND_ALLFLAGS) || !pol_ok || set_bad) {
    VP_CHECK(r == -1 && errno == EINVAL, "set_membind: unknown flags, bad policy, empty or out-of-range set -> -1/EINVAL");
    VP_CHECK(calls == 0, "set_membind: rejected before touching the operating system");
  } else if (calls) {
    unsigned long expect;
    if (bynode) expect = (NODES & ~q) == 0 ? CNODES : q;
    else if ((CPUS & ~q) == 0) expect = CNODES;
    else {
      expect = (q & 0x1) ? 0x1 : 0x0;          /* only NUMA0 (cpuset {PU0}) is left in the topology; PU2/PU5 have no local node */
      if ((NODES & ~expect) == 0) expect = CNODES;   /* the converted nodeset goes through the by-nodeset path: covering -> complete */
    }
    if (expect) VP_CHECK(last_w == expect && last_policy == policy, "set_membind: the hook receives the complete nodeset for a covering set, the (converted) set otherwise");
  }
  if (!(flags & ~HWLOC_MEMBIND_ALLFLAGS) && pol_ok && !set_bad && !hp && !ht && bynode) VP_CHECK(r == -1 && (errno == ENOSYS || errno == EINVAL) && calls == 0, "set_membind: no hook -> -1/ENOSYS");
  VP_WITNESS_IF(calls && bynode && q == NODES && last_w == CNODES, "the topology nodeset replaced by the complete nodeset");
  if (!(flags & ~HWLOC_MEMBIND_ALLFLAGS) && pol_ok && !set_bad && !bynode && !(q & 0x1) && (CPUS & ~q)) VP_CHECK(r == -1 && calls == 0, "set_membind: a cpuset with no local memory converts to an empty nodeset and is rejected before the hook");
  VP_WITNESS_IF(calls && !bynode && q == 0x1, "a cpuset converted to its local node");
  VP_WITNESS_IF(!calls && !bynode && q == 0x4 && r == -1 && pol_ok && !(flags & ~HWLOC_MEMBIND_ALLFLAGS), "a cpuset without local memory rejected");
}

/* ---- dummy hooks for a topology that does not describe this system --------------------------------------------------- */
VP_HARNESS(h_dummy)
{
  T = vp_seed_build(4, 0);
  T->state &= ~HWLOC_TOPOLOGY_STATE_IS_THISSYSTEM;
  memset(&T->binding_hooks, 0, sizeof T->binding_hooks);
  hwloc_set_binding_hooks(T);
  unsigned long q; int inf; hwloc_bitmap_t set = in_set(&q, &inf);
  int flags = vp_in_int(); VP_ASSUME(!(flags & ~HWLOC_CPUBIND_ALLFLAGS));
  VP_ASSUME(q && !inf && !(q & ~CCPUS));
  VP_SYMBOLIC_PHASE(1);
  VP_CHECK(hwloc_set_cpubind(T, set, flags) == 0, "foreign topology: set_cpubind succeeds without any system effect");
  VP_CHECK(hwloc_set_proc_cpubind(T, 1, set, flags) == 0, "foreign topology: set_proc_cpubind succeeds");
  hwloc_bitmap_t out = vp_bm(0x40);
  VP_CHECK(hwloc_get_cpubind(T, out, flags) == 0 && vp_w(out) == CCPUS, "foreign topology: get_cpubind reports the whole machine");
  hwloc_bitmap_from_ulong(out, 0x40);
  VP_CHECK(hwloc_get_last_cpu_location(T, out, flags) == 0 && vp_w(out) == CCPUS, "foreign topology: last_cpu_location reports the whole machine");
  hwloc_membind_policy_t pol = (hwloc_membind_policy_t) 77;
  hwloc_bitmap_t ns = vp_bm(0x40);
  VP_CHECK(hwloc_get_membind(T, ns, &pol, HWLOC_MEMBIND_BYNODESET) == 0 && vp_w(ns) == CNODES, "foreign topology: get_membind reports every node");
  VP_CHECK(!T->support.cpubind->set_thisproc_cpubind && !T->support.membind->set_thisproc_membind, "foreign topology: binding is not reported as supported");
  VP_WITNESS_IF(q == 0x2, "a disallowed PU bound on a foreign topology");
}
