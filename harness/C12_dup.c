/* C12 — hwloc_topology_dup yields an equivalent, fully independent topology: the leaf containers.
 * (The whole-topology copy through an instrumented allocator is C19_shmem.c:h_dup_blocks, the bitmap copy is
 *  C03:unop_dup, the distances list is C13:h_dup; this file adds memory attributes and CPU kinds.)
 * Real code: hwloc/memattrs.c (textually included), hwloc/cpukinds.c (linked) on seed S2.
 */
#define SEED 2
#define VP_SEED_REAL_MEMATTRS 1
#define VP_SEED_REAL_CPUKINDS 1
#include "vp_seed.h"
#include "hwloc/memattrs.c"

static struct hwloc_location loc_cpuset(hwloc_bitmap_t b) { struct hwloc_location l; l.type = HWLOC_LOCATION_TYPE_CPUSET; l.location.cpuset = b; return l; }

VP_HARNESS(h_memattrs_dup)
{
  struct hwloc_topology *T = vp_seed_build(2, 0); struct vp_seed S = vp_seed;
  hwloc_internal_memattrs_prepare(T);
  hwloc_memattr_id_t X, Y; uint64_t v0 = vp_in64(), v1 = vp_in64();
  VP_ASSUME(hwloc_memattr_register(T, "X", HWLOC_MEMATTR_FLAG_NEED_INITIATOR | HWLOC_MEMATTR_FLAG_HIGHER_FIRST, &X) == 0);
  VP_ASSUME(hwloc_memattr_register(T, "Y", HWLOC_MEMATTR_FLAG_NEED_INITIATOR | HWLOC_MEMATTR_FLAG_LOWER_FIRST, &Y) == 0);
  struct hwloc_location l;
  l = loc_cpuset(vp_bm(0x1)); VP_ASSUME(hwloc_memattr_set_value(T, X, S.numa[0], &l, 0, v0) == 0);
  l.type = HWLOC_LOCATION_TYPE_OBJECT; l.location.object = S.pkg[1]; VP_ASSUME(hwloc_memattr_set_value(T, X, S.numa[0], &l, 0, v1) == 0);
  l = loc_cpuset(vp_bm(0x2)); VP_ASSUME(hwloc_memattr_set_value(T, Y, S.numa[0], &l, 0, 5) == 0);
  /* history: a restrict emptied every initiator of Y (root cpuset lost PU1), so Y has no target left but still owns its array */
  int emptied = vp_in_bool();
  if (emptied) { hwloc_bitmap_clr(T->levels[0][0]->cpuset, 1); hwloc_internal_memattrs_need_refresh(T); }
  hwloc_internal_memattrs_refresh(T);
  static struct hwloc_topology N; memset(&N, 0, sizeof N);
  int r = hwloc_internal_memattrs_dup(&N, T);
  VP_CHECK(r == 0 && N.nr_memattrs == T->nr_memattrs && N.memattrs != T->memattrs, "memattrs dup: same number of attributes in fresh storage");
  for (unsigned id = 0; id < T->nr_memattrs; id++) {
    struct hwloc_internal_memattr_s *o = &T->memattrs[id], *n = &N.memattrs[id];
    VP_CHECK(n->name != o->name && !strcmp(n->name, o->name) && n->flags == o->flags && n->nr_targets == o->nr_targets, "memattrs dup: name copied, flags and target count equal");
    VP_CHECK(!(n->iflags & HWLOC_IMATTR_FLAG_CACHE_VALID) || (n->iflags & HWLOC_IMATTR_FLAG_CONVENIENCE), "memattrs dup: cached objects must be re-resolved in the new topology");
    VP_CHECK(n->targets == NULL || n->targets != o->targets, "memattrs dup: the targets array is never shared with the original (destroying both must not free it twice)");
    for (unsigned j = 0; j < o->nr_targets; j++) {
      struct hwloc_internal_memattr_target_s *ot = &o->targets[j], *nt = &n->targets[j];
      VP_CHECK(nt->type == ot->type && nt->gp_index == ot->gp_index && nt->os_index == ot->os_index && nt->nr_initiators == ot->nr_initiators && nt->noinitiator_value == ot->noinitiator_value && nt->obj == NULL, "memattrs dup: target identity and values");
      VP_CHECK(nt->initiators == NULL || nt->initiators != ot->initiators, "memattrs dup: initiator arrays are not shared");
      for (unsigned k = 0; k < ot->nr_initiators; k++) {
        struct hwloc_internal_memattr_initiator_s *oi = &ot->initiators[k], *ni = &nt->initiators[k];
        VP_CHECK(ni->value == oi->value && ni->initiator.type == oi->initiator.type, "memattrs dup: initiator values");
        if (oi->initiator.type == HWLOC_LOCATION_TYPE_CPUSET) VP_CHECK(ni->initiator.location.cpuset != oi->initiator.location.cpuset && vp_w(ni->initiator.location.cpuset) == vp_w(oi->initiator.location.cpuset), "memattrs dup: initiator cpusets equal but not shared");
        else VP_CHECK(ni->initiator.location.object.gp_index == oi->initiator.location.object.gp_index && ni->initiator.location.object.type == oi->initiator.location.object.type && ni->initiator.location.object.obj == NULL, "memattrs dup: object initiators keep their identity, cached pointer dropped");
      }
    }
  }
  /* independence under mutation of the copy */
  N.memattrs[X].targets[0].initiators[0].value ^= 1;
  VP_CHECK(T->memattrs[X].targets[0].initiators[0].value == v0, "memattrs dup: values are independent");
  VP_WITNESS_IF(emptied && T->memattrs[Y].nr_targets == 0 && T->memattrs[Y].targets != NULL, "an attribute whose targets were all removed but whose array is still allocated");
  VP_WITNESS_IF(!emptied, "a populated table duplicated");
}

VP_HARNESS(h_cpukinds_dup)
{
  struct hwloc_topology *T = vp_seed_build(2, 0);
  unsigned long a = vp_in64(), b = vp_in64(); VP_ASSUME(a && b && !(a & b) && !((a | b) & ~0x27UL));
  struct hwloc_infos_s inf; struct hwloc_info_s ia[1]; ia[0].name = (char *) "CoreType"; ia[0].value = (char *) "IntelAtom"; inf.array = ia; inf.count = 1; inf.allocated = 1;
  VP_ASSUME(hwloc_internal_cpukinds_register(T, vp_bm(a), vp_in_int(), &inf, 0) == 0);
  VP_ASSUME(hwloc_internal_cpukinds_register(T, vp_bm(b), vp_in_int(), NULL, 0) == 0);
  static struct hwloc_topology N; memset(&N, 0, sizeof N);
  int r = hwloc_internal_cpukinds_dup(&N, T);
  VP_CHECK(r == 0 && N.nr_cpukinds == 2 && N.cpukinds != T->cpukinds && N.nr_cpukinds_allocated >= 2, "cpukinds dup: same number of kinds in fresh storage");
  for (unsigned i = 0; i < 2; i++) {
    struct hwloc_internal_cpukind_s *o = &T->cpukinds[i], *n = &N.cpukinds[i];
    VP_CHECK(n->cpuset != o->cpuset && vp_w(n->cpuset) == vp_w(o->cpuset) && n->efficiency == o->efficiency && n->forced_efficiency == o->forced_efficiency && n->ranking_value == o->ranking_value, "cpukinds dup: cpuset equal but not shared, efficiencies equal");
    VP_CHECK(n->infos.count == o->infos.count && (o->infos.count == 0 || (n->infos.array != o->infos.array && n->infos.array[0].value != o->infos.array[0].value && !strcmp(n->infos.array[0].value, o->infos.array[0].value))), "cpukinds dup: info pairs copied, not shared");
  }
  hwloc_bitmap_zero(N.cpukinds[0].cpuset);
  VP_CHECK(vp_w(T->cpukinds[0].cpuset) == a, "cpukinds dup: independent under mutation");
  VP_WITNESS("two kinds duplicated");
}
