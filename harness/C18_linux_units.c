/* C18 — leaf kernels of the Linux discovery on arbitrary inputs.
 * Loading a sysfs snapshot is file-system traversal (openat/readdir/read over hundreds of files): it cannot be encoded.
 * What can be decided is what the discovery does with the CONTENT it reads, for every content:
 *  - hwloc__read_path_as_cpulist on every kernel-format cpulist of up to L bytes: exactly the listed PUs
 *  - fixup_cpuless_node_locality_from_distances on every distance matrix and every subset of missing nodes
 *  - hwloc_linux_cpukinds_adjust_maxfreqs on every frequency table (zero frequencies included: missing cpufreq files)
 * Real code: hwloc/topology-linux.c (textually included). OS: open succeeds, read delivers the symbolic content then EOF.
 */
#define RUNSTATEDIR "/nonexistent"
#include "private/autogen/config.h"
#include "vp.h"
#include <errno.h>
#include <stdlib.h>
#include <unistd.h>
#include <fcntl.h>
#ifndef L
#define L 4
#endif
static char vp_content[L + 1]; static unsigned vp_pos, vp_len = L; static int vp_reads, vp_closes;
#ifdef VP_CBMC
int open(const char *p, int fl, ...) { (void) p; (void) fl; return 7; }
int openat(int d, const char *p, int fl, ...) { (void) d; (void) p; (void) fl; return 7; }
int close(int fd) { (void) fd; vp_closes++; return 0; }
ssize_t read(int fd, void *buf, size_t n) { (void) fd; vp_reads++; size_t k = 0; for (unsigned i = 0; i < L; i++) if (vp_pos < vp_len && k < n) { ((char *) buf)[k++] = vp_content[vp_pos++]; } return (ssize_t) k; }
long sysconf(int name) { (void) name; return 16; }        /* a 16-byte "page": the read buffer is a small, exactly sized object */
char *getenv(const char *n) { (void) n; return 0; }
int hwloc_hide_errors(void) { return 2; }
#else
#define open vp_open
#define openat vp_openat
#define close vp_close
#define read vp_read
#define sysconf vp_sysconf
static int vp_open(const char *p, int fl, ...) { (void) p; (void) fl; return 7; }
static int vp_openat(int d, const char *p, int fl, ...) { (void) d; (void) p; (void) fl; return 7; }
static int vp_close(int fd) { (void) fd; vp_closes++; return 0; }
static ssize_t vp_read(int fd, void *buf, size_t n) { (void) fd; vp_reads++; size_t k = 0; for (unsigned i = 0; i < L; i++) if (vp_pos < vp_len && k < n) { ((char *) buf)[k++] = vp_content[vp_pos++]; } return (ssize_t) k; }
static long vp_sysconf(int name) { (void) name; return 16; }
#endif
#include "hwloc/topology-linux.c"

/* ---- cpulist files ---------------------------------------------------------------------------------------------------------- */
/* what the kernel writes in a cpulist file: ascending decimal numbers and ranges "a-b" separated by commas, an optional
 * final newline. The property quantifies over missing files, not over corrupted contents: anything else is not assumed
 * away silently but excluded here, stated as the harness bound. */
static int kernel_cpulist(const char *c, unsigned n, unsigned long *ref)
{
  unsigned i = 0; int last = -1; unsigned long m = 0;
  if (n && c[n - 1] == '\n') n--;
  if (n == 0) return 0;            /* an empty list: hwloc reads it as {0} (strtoul of nothing); no clause of C18 says what an empty list means, so it is outside this harness (DESIGN §7, false alarms) */
  while (i < n) {
    if (c[i] < '0' || c[i] > '9') return 0;
    if (c[i] == '0' && i + 1 < n && c[i + 1] >= '0' && c[i + 1] <= '9') return 0;      /* the kernel prints %u: no leading zero (the parser reads base 0) */
    int a = 0; while (i < n && c[i] >= '0' && c[i] <= '9') { a = a * 10 + (c[i] - '0'); i++; }
    int b = a;
    if (i < n && c[i] == '-') { i++; if (i >= n || c[i] < '0' || c[i] > '9') return 0; if (c[i] == '0' && i + 1 < n && c[i + 1] >= '0' && c[i + 1] <= '9') return 0; b = 0; while (i < n && c[i] >= '0' && c[i] <= '9') { b = b * 10 + (c[i] - '0'); i++; } }
    if (a <= last || b < a || b > 63) return 0;
    for (int k = a; k <= b; k++) m |= 1UL << k;
    last = b;
    if (i < n) { if (c[i] != ',') return 0; i++; if (i >= n) return 0; }
  }
  *ref = m; return 1;
}
VP_HARNESS(h_cpulist_bytes)
{
  for (unsigned i = 0; i < L; i++) vp_content[i] = (char) vp_in_byte();
  unsigned len = (unsigned) vp_in_range(0, L);         /* the file holds the first len bytes */
  unsigned long ref = 0;
  VP_ASSUME(kernel_cpulist(vp_content, len, &ref));
  for (unsigned i = 0; i < L; i++) if (i >= len) vp_content[i] = 0;
  vp_len = len;
  hwloc_bitmap_t set = hwloc_bitmap_alloc(); VP_NONNULL(set);
  /* room for 1024 bits up front: growing the set is unreachable for numbers <= 63 (proved: the realloc model asserts it) */
  hwloc_bitmap_set(set, 1023); hwloc_bitmap_zero(set);
  VP_SYMBOLIC_PHASE(1);
  int r = hwloc__read_path_as_cpulist("/sys/x", set, -1);
#ifndef VP_CBMC
  fprintf(stderr, "cpulist_bytes: len=%u bytes=%02x %02x %02x r=%d set=%#lx full=%d last=%d ref=%#lx\n", len, (unsigned char) vp_content[0], L > 1 ? (unsigned char) vp_content[1] : 0, L > 2 ? (unsigned char) vp_content[2] : 0, r, hwloc_bitmap_to_ulong(set), hwloc_bitmap_isfull(set), hwloc_bitmap_last(set), ref);
#endif
  VP_CHECK(r == 0, "cpulist: a kernel-format list is accepted");
  VP_CHECK(vp_closes == 1, "cpulist: the file is closed exactly once");
  VP_CHECK(!hwloc_bitmap_isfull(set) && hwloc_bitmap_to_ulong(set) == ref && hwloc_bitmap_last(set) < 64, "cpulist: the set is exactly the listed PUs");
  VP_WITNESS_IF(L >= 3 ? ref == 0xe : ref == 0x1000, "a list read (1-3, or PU 12 in the two-byte tier)");
  VP_WITNESS_IF(ref == 0x1, "the list \"0\" read");
}

/* ---- CPU-less NUMA node locality from the distance matrix --------------------------------------------------------------------- */
#ifndef NB
#define NB 3
#endif
#ifndef IDX
#define IDX 0
#endif
static int loc_w1, loc_w2;
/* one call with a CONCRETE set of missing nodes (a pointer that is "object or NULL" under a symbolic guard makes every
 * read through it an unknown, incl. the word count of its bitmap: a block of symbolic size in hwloc_bitmap_or) */
static void locality_case(unsigned pm, const unsigned long *cw, const uint64_t *dist)
{
  unsigned i = IDX;
  hwloc_obj_t nodes[NB]; int present[NB];
  for (unsigned k = 0, bit = 0; k < NB; k++) {
    present[k] = k == i ? 1 : (int) ((pm >> bit++) & 1);
    if (present[k]) { nodes[k] = malloc(sizeof(struct hwloc_obj)); VP_NONNULL(nodes[k]); static const struct hwloc_obj oz; *nodes[k] = oz; nodes[k]->cpuset = hwloc_bitmap_alloc(); VP_NONNULL(nodes[k]->cpuset); hwloc_bitmap_from_ulong(nodes[k]->cpuset, cw[k]); }
    else nodes[k] = NULL;      /* a node directory that could not be read */
  }
  uint64_t d2[NB * NB]; for (unsigned k = 0; k < NB * NB; k++) d2[k] = dist[k];
  VP_SYMBOLIC_PHASE(1);      /* 1-word sets: growing a bitmap is unreachable (the realloc model asserts it) */
  int r = fixup_cpuless_node_locality_from_distances(i, NB, nodes, d2);
  VP_SYMBOLIC_PHASE(0);
  unsigned min = 0; int have = 0;
  for (unsigned j = 0; j < NB; j++) if (j != i && present[j]) { unsigned d = (unsigned) dist[i * NB + j]; if (!have || d < min) { min = d; have = 1; } }
  unsigned long expect = cw[i];
  if (r == 0) {
    for (unsigned j = 0; j < NB; j++) if (j != i && present[j] && dist[i * NB + j] == min) expect |= cw[j];
    VP_CHECK(hwloc_bitmap_to_ulong(nodes[i]->cpuset) == expect, "cpuless locality: the node takes the cpusets of exactly the existing nodes at minimal distance");
  } else VP_CHECK(r == -1 && hwloc_bitmap_to_ulong(nodes[i]->cpuset) == cw[i], "cpuless locality: -1 leaves the node alone");
  for (unsigned j = 0; j < NB; j++) if (j != i && present[j]) VP_CHECK(hwloc_bitmap_to_ulong(nodes[j]->cpuset) == cw[j], "cpuless locality: other nodes are untouched");
  if (r == 0 && pm != (1U << (NB - 1)) - 1) loc_w1 = 1;
  if (r == -1) loc_w2 = 1;
}
VP_HARNESS(h_cpuless_locality)
{
  unsigned long cw[NB]; uint64_t dist[NB * NB];
  for (unsigned k = 0; k < NB; k++) cw[k] = vp_in64() & 0xff;
  for (unsigned k = 0; k < NB * NB; k++) { dist[k] = vp_in64(); VP_ASSUME(dist[k] <= 0xffffffffUL); }      /* the kernel reports small integers; the function keeps them in an unsigned */
  unsigned pm = (unsigned) vp_in_range(0, (1 << (NB - 1)) - 1);
  for (unsigned v = 0; v < (1U << (NB - 1)); v++) if (pm == v) locality_case(v, cw, dist);
  VP_WITNESS_IF(loc_w1, "a locality found while another node is missing");
  VP_WITNESS_IF(loc_w2, "no locality");
}

/* ---- cpufreq: max frequencies of PUs sharing a base frequency ----------------------------------------------------------------------- */
#ifndef NP
#define NP 3
#endif
VP_HARNESS(h_adjust_maxfreqs)
{
  struct hwloc_linux_cpukinds_by_pu by[NP]; unsigned long mf[NP], bf[NP];
  for (unsigned k = 0; k < NP; k++) { mf[k] = vp_in64(); bf[k] = vp_in64(); VP_ASSUME(mf[k] <= 0xffffff && bf[k] <= 3); by[k].pu = k; by[k].max_freq = mf[k]; by[k].base_freq = bf[k]; by[k].capacity = 0; by[k].done = 0; }
  unsigned adj = (unsigned) vp_in_range(0, 100);
  hwloc_linux_cpukinds_adjust_maxfreqs(NP, by, adj);
  for (unsigned k = 0; k < NP; k++) {
    /* the group of k: same base frequency */
    unsigned long mn = mf[k], mx = mf[k];
    for (unsigned j = 0; j < NP; j++) if (bf[j] == bf[k]) { if (mf[j] < mn) mn = mf[j]; if (mf[j] > mx) mx = mf[j]; }
    VP_CHECK(by[k].base_freq == bf[k] && (by[k].max_freq == mf[k] || by[k].max_freq == mn), "adjust_maxfreqs: a PU keeps its max frequency or takes the lowest one of its base-frequency group");
    if (mn == mx) VP_CHECK(by[k].max_freq == mf[k], "adjust_maxfreqs: a homogeneous group is untouched");
    for (unsigned j = 0; j < NP; j++) if (bf[j] == bf[k]) VP_CHECK((by[j].max_freq == mf[j]) == (by[k].max_freq == mf[k]) || mf[j] == mn || mf[k] == mn, "adjust_maxfreqs: a group is adjusted as a whole");
  }
  VP_WITNESS_IF(by[0].max_freq != mf[0], "a max frequency lowered to the group's minimum");
  VP_WITNESS_IF(mf[1] == 0 && bf[0] == bf[1] && mf[0] != 0, "a PU without max frequency in a group");
}
