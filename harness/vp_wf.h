/* vp_wf.h — an independent well-formedness checker for loaded topologies (the clauses of C01), written on public fields
 * with word arithmetic (1-word sets). Shared by the harnesses that run a real loading pipeline (seeds, XML documents,
 * synthetic descriptions). Requires vp_seed.h (vp_w). tf: the topology flags the topology was loaded with. */
#ifndef VP_WF_H
#define VP_WF_H
static void vp_wf_check(struct hwloc_topology *t, unsigned long tf)
{
  hwloc_obj_t root = t->levels[0][0];
  VP_CHECK(t->nb_levels >= 2 && t->level_nbobjects[0] == 1 && root->type == HWLOC_OBJ_MACHINE && !root->parent, "a single Machine root");
  for (unsigned d = 1; d < t->nb_levels; d++) VP_CHECK(t->levels[d][0]->type != HWLOC_OBJ_MACHINE, "a single Machine root");
  VP_CHECK(t->levels[t->nb_levels - 1][0]->type == HWLOC_OBJ_PU, "PUs form the deepest normal level");
  VP_CHECK(t->slevels[HWLOC_SLEVEL_NUMANODE].nbobjs >= 1, "at least one NUMA node");
  unsigned long seen_gp = 0, pus = 0;
  for (unsigned d = 0; d < t->nb_levels; d++) {
    hwloc_obj_t prev = NULL;
    for (unsigned k = 0; k < t->level_nbobjects[d]; k++) {
      hwloc_obj_t o = t->levels[d][k];
      VP_CHECK(o->depth == (int) d && o->logical_index == k && o->prev_cousin == prev && (!prev || prev->next_cousin == o) && o->type == t->levels[d][0]->type, "depth, logical_index, cousin links and per-depth lookup agree");
      VP_CHECK(hwloc_get_type_depth(t, o->type) == (int) d || hwloc_get_type_depth(t, o->type) == HWLOC_TYPE_DEPTH_MULTIPLE, "type_depth agrees with the level");
      VP_CHECK(o->gp_index < 64 && !(seen_gp & (1UL << o->gp_index)), "gp_index values are unique"); seen_gp |= 1UL << o->gp_index;
      unsigned long c = vp_w(o->cpuset), u = 0; unsigned a = 0; hwloc_obj_t pc = NULL;
      for (hwloc_obj_t ch = o->first_child; ch && a < 6; ch = ch->next_sibling, a++) {
        VP_CHECK(ch->parent == o && ch->sibling_rank == a && ch->prev_sibling == pc && o->children[a] == ch && !(vp_w(ch->cpuset) & u), "children links, sibling_rank, children[] and disjoint cpusets"); u |= vp_w(ch->cpuset); pc = ch; }
      VP_CHECK(o->arity == a && (a == 0 || (o->last_child == pc && u == c)), "arity, last_child; a normal object's cpuset is the disjoint union of its normal children's");
      if (hwloc__obj_type_is_cache(o->type)) VP_CHECK(o->type == hwloc_cache_type_by_depth_type(o->attr->cache.depth, o->attr->cache.type), "cache attributes match the object type");
      if (o->type == HWLOC_OBJ_PU) { VP_CHECK(c == (1UL << o->os_index) && !(pus & c), "a PU's cpuset is exactly its own os_index, unique"); pus |= c; }
      uint64_t mem = 0; unsigned ma = 0; unsigned long ln = 0;
      for (hwloc_obj_t mc = o->memory_first_child; mc && ma < 4; mc = mc->next_sibling, ma++) { VP_CHECK(mc->parent == o && vp_w(mc->cpuset) == c, "memory children share their parent's cpuset"); mem += mc->total_memory; ln |= vp_w(mc->nodeset); }
      VP_CHECK(o->memory_arity == ma, "memory_arity");
      unsigned long cn = 0; for (hwloc_obj_t ch = o->first_child; ch; ch = ch->next_sibling) { mem += ch->total_memory; cn |= vp_w(ch->nodeset); }
      VP_CHECK(o->total_memory == mem, "total_memory is the sum of NUMA local memory below");
      unsigned long inh = o->parent ? vp_w(o->parent->nodeset) & ~0UL : 0;
      VP_CHECK((vp_w(o->nodeset) & ~(ln | cn | inh)) == 0 && !(ln & ~vp_w(o->nodeset)) && !(cn & ~vp_w(o->nodeset)), "nodeset is made of inherited, locally attached and children NUMA nodes");
      VP_CHECK(!(c & ~vp_w(o->complete_cpuset)) && !(vp_w(o->nodeset) & ~vp_w(o->complete_nodeset)), "sets included in their complete_ counterparts");
      prev = o;
    }
  }
  VP_CHECK(pus == vp_w(root->cpuset), "the PU level covers the root cpuset");
  unsigned long nn = 0;
  for (unsigned k = 0; k < t->slevels[HWLOC_SLEVEL_NUMANODE].nbobjs; k++) { hwloc_obj_t n = t->slevels[HWLOC_SLEVEL_NUMANODE].objs[k];
    VP_CHECK(n->type == HWLOC_OBJ_NUMANODE && n->depth == HWLOC_TYPE_DEPTH_NUMANODE && n->logical_index == k && vp_w(n->nodeset) == (1UL << n->os_index) && !(nn & vp_w(n->nodeset)) && n->total_memory == n->attr->numanode.local_memory, "NUMA level: singleton nodesets with unique os_index, local memory"); nn |= vp_w(n->nodeset); }
  VP_CHECK(nn == vp_w(root->nodeset), "the NUMA level covers the root nodeset");
  VP_CHECK(!(vp_w(t->allowed_cpuset) & ~vp_w(root->cpuset)) && !(vp_w(t->allowed_nodeset) & ~vp_w(root->nodeset)), "allowed sets included in the root sets");
  if (!tf) VP_CHECK(vp_w(t->allowed_cpuset) == vp_w(root->cpuset) && vp_w(t->allowed_nodeset) == vp_w(root->nodeset), "allowed sets equal the root sets without INCLUDE_DISALLOWED");
  for (unsigned d = 0; d < t->nb_levels; d++) VP_CHECK(t->type_filter[t->levels[d][0]->type] != HWLOC_TYPE_FILTER_KEEP_NONE, "no object of a filtered-out type is present");
}
#endif
