/* C16 — topology diffs: build/apply/reverse are inverse, failures roll back.
 * Real code: hwloc/diff.c (textually included after topology.c via vp_seed.h), on seed S1 built by the
 * real core. Tracked attributes: Package0 name, PU0 info ("k"), NUMA0 local_memory and the derived
 * total_memory of NUMA0/Package0/Machine, topology info ("t").
 */
#define SEED 1
#include "vp_seed.h"
#include "hwloc/diff.c"

#ifndef NE
#define NE 3
#endif
static const char *const pool[3] = { "a", "b", "c" };

struct snap { char name; char info; char tinfo; uint64_t lm, tm_numa, tm_pkg, tm_root; };
static void decorate(struct hwloc_topology *t, struct vp_seed *s)
{
  s->pkg[0]->name = strdup("a");
  hwloc__add_info(&s->pu[0]->infos, "k", "a");
  hwloc__add_info(&t->infos, "t", "a");
}
static void take(struct hwloc_topology *t, struct vp_seed *s, struct snap *p)
{
  p->name = s->pkg[0]->name ? s->pkg[0]->name[0] : 0;
  p->info = s->pu[0]->infos.count ? s->pu[0]->infos.array[0].value[0] : 0;
  p->tinfo = t->infos.count ? t->infos.array[t->infos.count - 1].value[0] : 0;
  p->lm = s->numa[0]->attr->numanode.local_memory;
  p->tm_numa = s->numa[0]->total_memory; p->tm_pkg = s->pkg[0]->total_memory; p->tm_root = t->levels[0][0]->total_memory;
}
static int same(const struct snap *a, const struct snap *b)
{ return a->name == b->name && a->info == b->info && a->tinfo == b->tinfo && a->lm == b->lm && a->tm_numa == b->tm_numa && a->tm_pkg == b->tm_pkg && a->tm_root == b->tm_root; }

/* ---- apply / reverse / rollback on a hand-built list ------------------------------------------------------- */
VP_HARNESS(h_apply)
{
  struct hwloc_topology *t = vp_seed_build(1, 0); struct vp_seed S = vp_seed;
  decorate(t, &S);
  struct snap pre, post, back; take(t, &S, &pre);
  static union hwloc_topology_diff_u d[NE];
  unsigned n = (unsigned) vp_in_range(1, NE);
  for (unsigned i = 0; i < NE; i++) {
    unsigned ty = (unsigned) vp_in_range(0, 2), tgt = (unsigned) vp_in_range(0, 4), at = (unsigned) vp_in_range(0, 3);
    unsigned so = (unsigned) vp_in_range(0, 2), sn = (unsigned) vp_in_range(0, 2), sk = (unsigned) vp_in_bool();
    d[i].obj_attr.type = ty == 0 ? HWLOC_TOPOLOGY_DIFF_OBJ_ATTR : ty == 1 ? HWLOC_TOPOLOGY_DIFF_TOO_COMPLEX : (hwloc_topology_diff_type_t) 99;
    d[i].obj_attr.next = (i + 1 < n) ? &d[i + 1] : NULL;
    /* targets: PU0, Package0, NUMA0, the topology itself (depth == nb_levels), nothing */
    d[i].obj_attr.obj_depth = tgt == 0 ? (int) S.pu[0]->depth : tgt == 1 ? (int) S.pkg[0]->depth : tgt == 2 ? HWLOC_TYPE_DEPTH_NUMANODE : tgt == 3 ? (int) t->nb_levels : 9;
    d[i].obj_attr.obj_index = tgt == 4 ? 7 : 0;
    if (at == 0) {
      d[i].obj_attr.diff.uint64.type = HWLOC_TOPOLOGY_DIFF_OBJ_ATTR_SIZE; d[i].obj_attr.diff.uint64.index = 0;
      d[i].obj_attr.diff.uint64.oldvalue = vp_in64(); d[i].obj_attr.diff.uint64.newvalue = vp_in64();
    } else {
      d[i].obj_attr.diff.string.type = at == 1 ? HWLOC_TOPOLOGY_DIFF_OBJ_ATTR_NAME : at == 2 ? HWLOC_TOPOLOGY_DIFF_OBJ_ATTR_INFO : (hwloc_topology_diff_obj_attr_type_t) 99;
      d[i].obj_attr.diff.string.name = (char *) (sk ? "k" : "t");
      d[i].obj_attr.diff.string.oldvalue = (char *) pool[so]; d[i].obj_attr.diff.string.newvalue = (char *) pool[sn];
    }
  }
  unsigned long flags = vp_in64();
  VP_ASSUME(flags <= 3);
  errno = 0;
  int r = hwloc_topology_diff_apply(t, &d[0], flags);
  take(t, &S, &post);
  if (flags & ~HWLOC_TOPOLOGY_DIFF_APPLY_REVERSE) { VP_CHECK(r == -1 && errno == EINVAL && same(&pre, &post), "apply: unknown flags -> EINVAL, topology untouched"); }
  else if (r != 0) {
    VP_CHECK(r <= -1 && r >= -(int) n, "apply: a failure returns -N for the N-th entry");
    VP_CHECK(same(&pre, &post), "apply: when the N-th entry cannot be applied the topology is exactly as before the call");
  } else {
    int r2 = hwloc_topology_diff_apply(t, &d[0], flags ^ HWLOC_TOPOLOGY_DIFF_APPLY_REVERSE);
    take(t, &S, &back);
    /* reversing a list is only an inverse when applied entry by entry backwards; the API applies it
     * forwards, which is an inverse for lists whose entries touch distinct attributes: assert that case */
    int distinct = 1;
    for (unsigned i = 0; i < NE; i++) for (unsigned j = 0; j < i; j++) if (i < n && d[i].obj_attr.obj_depth == d[j].obj_attr.obj_depth && d[i].obj_attr.diff.generic.type == d[j].obj_attr.diff.generic.type) distinct = 0;
    if (distinct) VP_CHECK(r2 == 0 && same(&pre, &back), "apply then apply with APPLY_REVERSE restores the topology");
  }
  VP_WITNESS_IF(r == -3 && n == 3 && post.info == 'a' && d[0].obj_attr.diff.string.newvalue == pool[1] && d[1].obj_attr.diff.string.newvalue == pool[2] && d[0].obj_attr.obj_depth == (int) S.pu[0]->depth && d[1].obj_attr.obj_depth == (int) S.pu[0]->depth, "two chained edits of one info rolled back after a failing third entry");
  VP_WITNESS_IF(r == 0 && n == 2 && post.lm != pre.lm && post.name == 'c', "a size and a name change applied");
}

/* ---- build -> apply on a pair (A, B = edited copy) --------------------------------------------------------------- */
VP_HARNESS(h_build)
{
  struct hwloc_topology *A = vp_seed_build(1, 0); struct vp_seed SA = vp_seed;
  decorate(A, &SA);
  struct hwloc_topology *B = vp_seed_build(1, 0); struct vp_seed SB = vp_seed;
  decorate(B, &SB);
  /* representable edits */
  unsigned e_name = (unsigned) vp_in_range(0, 2), e_info = (unsigned) vp_in_range(0, 2), e_tinfo = (unsigned) vp_in_range(0, 2);
  uint64_t delta = vp_in64();
  if (e_name) SB.pkg[0]->name[0] = pool[e_name][0];
  if (e_info) SB.pu[0]->infos.array[0].value[0] = pool[e_info][0];
  if (e_tinfo) B->infos.array[B->infos.count - 1].value[0] = pool[e_tinfo][0];
  if (delta) { SB.numa[0]->attr->numanode.local_memory += delta; SB.numa[0]->total_memory += delta; SB.pkg[0]->total_memory += delta; B->levels[0][0]->total_memory += delta; }
  /* non-representable edits (at most one kind per query): 1 extra info, 2 name unset on B, 3 name unset on A, 4 cpuset changed, 5 os_index changed */
  unsigned nonrep = (unsigned) vp_in_range(0, 5);
  if (nonrep == 1) hwloc__add_info(&SB.pu[1]->infos, "x", "a");
  if (nonrep == 2) { SB.pkg[0]->name = NULL; e_name = 0; }
  if (nonrep == 3) { SA.pkg[1]->name = NULL; SB.pkg[1]->name = strdup("a"); }
  if (nonrep == 4) hwloc_bitmap_set(SB.pkg[1]->complete_cpuset, 9);
  if (nonrep == 5) SB.pkg[1]->os_index = 7;
  int edited = e_name || e_info || e_tinfo || delta;
  hwloc_topology_diff_t diff = (void *) 1;
  int r = hwloc_topology_diff_build(A, B, 0, &diff);
  int has_complex = 0, wellformed = 1; unsigned cnt = 0;
  for (hwloc_topology_diff_t x = diff; x && cnt < 8; x = x->generic.next, cnt++) {
    if (x->generic.type == HWLOC_TOPOLOGY_DIFF_TOO_COMPLEX) has_complex = 1;
    else if (x->generic.type == HWLOC_TOPOLOGY_DIFF_OBJ_ATTR) {
      if (x->obj_attr.diff.generic.type != HWLOC_TOPOLOGY_DIFF_OBJ_ATTR_SIZE && (!x->obj_attr.diff.string.oldvalue || !x->obj_attr.diff.string.newvalue)) wellformed = 0;
      if (x->obj_attr.diff.generic.type == HWLOC_TOPOLOGY_DIFF_OBJ_ATTR_INFO && !x->obj_attr.diff.string.name) wellformed = 0;
    } else wellformed = 0;
  }
  VP_CHECK(wellformed, "build: every entry of a built diff is well-formed (known type, non-NULL strings)");
  VP_CHECK(r == (nonrep ? 1 : 0), "build: returns 1 exactly when the topologies differ in something a diff cannot express");
  VP_CHECK((r == 1) == has_complex, "build: a TOO_COMPLEX entry exactly when it returns 1");
  if (!nonrep) {
    VP_CHECK((diff == NULL) == !edited, "build: NULL diff iff nothing differs");
    int ra = hwloc_topology_diff_apply(A, diff, 0);
    VP_CHECK(ra == 0, "apply of a built diff succeeds");
    struct snap a, b; take(A, &SA, &a); take(B, &SB, &b);
    VP_CHECK(same(&a, &b), "apply makes A indistinguishable from B on every attribute a diff may carry (incl. total_memory)");
    hwloc_topology_diff_t diff2 = (void *) 1;
    VP_CHECK(hwloc_topology_diff_build(A, B, 0, &diff2) == 0 && diff2 == NULL, "after apply, diff_build(A, B) is empty");
    int rr = hwloc_topology_diff_apply(A, diff, HWLOC_TOPOLOGY_DIFF_APPLY_REVERSE);
    struct snap a2; take(A, &SA, &a2);
    VP_CHECK(rr == 0 && a2.name == 'a' && a2.info == 'a' && a2.tinfo == 'a' && a2.lm == b.lm - delta && a2.tm_root == b.tm_root - delta, "APPLY_REVERSE restores A");
  }
  VP_WITNESS_IF(r == 0 && cnt == 4, "four representable edits in one diff");
  VP_WITNESS_IF(r == 1 && nonrep == 2, "name unset on one side");
  VP_WITNESS_IF(r == 1 && nonrep == 4, "a set changed");
}
