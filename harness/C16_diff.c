/* C16 — topology diffs: build/apply/reverse are inverse, failures roll back.
 * Real code: hwloc/diff.c (textually included after topology.c via vp_seed.h), on seed S1 built by the
 * real core. Tracked attributes: Package0 name, PU0 info ("k"), NUMA0 local_memory and the derived
 * total_memory of NUMA0/Package0/Machine, topology info ("t").
 */
#include "private/autogen/config.h"
#include "hwloc.h"
#include "private/private.h"
#include "private/misc.h"
#include <string.h>
#include "vp_mini.h"
#include "hwloc/diff.c"
#ifdef VP_CBMC
void hwloc_internal_distances_refresh(hwloc_topology_t t) { (void) t; }
void hwloc_internal_memattrs_refresh(hwloc_topology_t t) { (void) t; }
int hwloc_hide_errors(void) { return 2; }
char *getenv(const char *n) { (void) n; return 0; }
#endif
/* the hand-linked topology: same role as the seeds, no discovery code executed */
struct vp_seed { hwloc_obj_t pu[4], numa[2], pkg[2]; };
static struct vp_seed vp_seed;
static struct vp_mini vp_second;     /* B is a second, separately stored copy */
static struct hwloc_topology *vp_seed_build(int id, unsigned long flags)
{
  (void) id; (void) flags;
  struct hwloc_topology *t = vp_mini_build();
  for (unsigned i = 0; i < 4; i++) vp_seed.pu[i] = vp_mini.pu[i];
  for (unsigned i = 0; i < 2; i++) { vp_seed.numa[i] = vp_mini.numa[i]; vp_seed.pkg[i] = vp_mini.pkg[i]; }
  return t;
}
#define vp_w vp_mw

#ifndef NE
#define NE 3
#endif
static const char *const pool[3] = { "a", "b", "c" };
#ifndef SCRIPT
#define SCRIPT 0
#endif
/* {target, attribute} per entry; targets: 0 PU0, 1 Package0, 2 NUMA0, 3 the topology, 4 nothing; attributes: 0 size 1 name 2 info 3 unknown */
static const unsigned char script[][3][2] = {
  { {0,2}, {0,2}, {0,2} },     /* 0: three edits of the same info */
  { {2,0}, {1,1}, {3,2} },     /* 1: size, name, topology info */
  { {1,1}, {1,1}, {2,0} },     /* 2: two edits of the same name, then a size */
  { {2,0}, {2,0}, {4,2} },     /* 3: two edits of the same size, then a missing object */
  { {3,2}, {0,0}, {1,3} },     /* 4: topology info, size on a non-NUMA object, unknown attribute type */
  { {0,2}, {3,0}, {3,1} },     /* 5: info, then size/name addressed to the topology itself */
};

struct snap { char name; char info; char tinfo; uint64_t lm, tm_numa, tm_pkg, tm_root; };
/* one info pair in a typed array (the library's own growth path goes through realloc, whose model yields an untyped
 * byte array: pointers stored there defeat symex's points-to analysis and every later write fans out) */
static void info1(struct hwloc_infos_s *infos, const char *n, const char *v)
{
  struct hwloc_info_s *a = malloc(8 * sizeof(struct hwloc_info_s)); VP_NONNULL(a);
  a[0].name = strdup(n); a[0].value = strdup(v); VP_NONNULL(a[0].name); VP_NONNULL(a[0].value);
  infos->array = a; infos->count = 1; infos->allocated = 8;
}
static void decorate(struct hwloc_topology *t, struct vp_seed *s)
{
  s->pkg[0]->name = strdup("a");
  info1(&s->pu[0]->infos, "k", "a");
  info1(&t->infos, "t", "a");
}
static void take(struct hwloc_topology *t, struct vp_seed *s, struct snap *p)
{
  p->name = s->pkg[0]->name ? s->pkg[0]->name[0] : 0;
  p->info = s->pu[0]->infos.count ? s->pu[0]->infos.array[0].value[0] : 0;
  p->tinfo = t->infos.count ? t->infos.array[t->infos.count - 1].value[0] : 0;
  p->lm = s->numa[0]->attr->numanode.local_memory;
  p->tm_numa = s->numa[0]->total_memory; p->tm_pkg = s->pkg[0]->total_memory; p->tm_root = t->levels[0][0]->total_memory;
}
static int same(const struct snap *a, const struct snap *b)
{ return a->name == b->name && a->info == b->info && a->tinfo == b->tinfo && a->lm == b->lm && a->tm_numa == b->tm_numa && a->tm_pkg == b->tm_pkg && a->tm_root == b->tm_root; }

/* ---- apply / reverse / rollback on a hand-built list ------------------------------------------------------- */
VP_HARNESS(h_apply)
{
  struct hwloc_topology *t = vp_seed_build(1, 0); struct vp_seed S = vp_seed;
  decorate(t, &S);
  struct snap pre, post, back; take(t, &S, &pre);
  /* each entry is its own typed allocation of the obj_attr variant (what diff_build and the XML loader allocate too) */
  struct hwloc_topology_diff_obj_attr_s *e[NE];
  for (unsigned i = 0; i < NE; i++) { e[i] = malloc(sizeof(struct hwloc_topology_diff_obj_attr_s)); VP_NONNULL(e[i]); }
  unsigned n = NE;      /* the list length is a compile-time constant: the rollback loop walks the list with no NULL test, so a symbolic length makes symex follow NULL->next into an arbitrary object */
  for (unsigned i = 0; i < NE; i++) {
    /* which object and which attribute each entry addresses is a compile-time script (a symbolic target makes every
     * later pointer in the list a many-way choice: no verdict); everything else about the entries is symbolic */
    unsigned ty = i + 1 == NE ? (unsigned) vp_in_range(0, 2) : 0, tgt = script[SCRIPT][i][0], at = script[SCRIPT][i][1];
    unsigned so = (unsigned) vp_in_range(0, 2), sn = (unsigned) vp_in_range(0, 2), sk = (unsigned) vp_in_bool();
    e[i]->type = ty == 0 ? HWLOC_TOPOLOGY_DIFF_OBJ_ATTR : ty == 1 ? HWLOC_TOPOLOGY_DIFF_TOO_COMPLEX : (hwloc_topology_diff_type_t) 99;
    e[i]->next = (i + 1 < NE && i + 1 < n) ? (hwloc_topology_diff_t) e[i + 1] : NULL;   /* the constant bound lets symex end the list */
    /* targets: PU0, Package0, NUMA0, the topology itself (depth == nb_levels), nothing */
    e[i]->obj_depth = tgt == 0 ? (int) S.pu[0]->depth : tgt == 1 ? (int) S.pkg[0]->depth : tgt == 2 ? HWLOC_TYPE_DEPTH_NUMANODE : tgt == 3 ? (int) t->nb_levels : 9;
    e[i]->obj_index = tgt == 4 ? 7 : 0;
    if (at == 0) {
      e[i]->diff.generic.type = HWLOC_TOPOLOGY_DIFF_OBJ_ATTR_SIZE; e[i]->diff.uint64.index = 0;
      e[i]->diff.uint64.oldvalue = vp_in64(); e[i]->diff.uint64.newvalue = vp_in64();
    } else {
      e[i]->diff.generic.type = at == 1 ? HWLOC_TOPOLOGY_DIFF_OBJ_ATTR_NAME : at == 2 ? HWLOC_TOPOLOGY_DIFF_OBJ_ATTR_INFO : (hwloc_topology_diff_obj_attr_type_t) 99;
      e[i]->diff.string.name = (char *) (sk ? "k" : "t");
      e[i]->diff.string.oldvalue = (char *) pool[so]; e[i]->diff.string.newvalue = (char *) pool[sn];
    }
  }
  unsigned long flags = vp_in64();
  VP_ASSUME(flags <= 3);
  errno = 0;
  int r = hwloc_topology_diff_apply(t, (hwloc_topology_diff_t) e[0], flags);
  take(t, &S, &post);
  if (flags & ~HWLOC_TOPOLOGY_DIFF_APPLY_REVERSE) { VP_CHECK(r == -1 && errno == EINVAL && same(&pre, &post), "apply: unknown flags -> EINVAL, topology untouched"); }
  else if (r != 0) {
    VP_CHECK(r <= -1 && r >= -(int) n, "apply: a failure returns -N for the N-th entry");
    VP_CHECK(same(&pre, &post), "apply: when the N-th entry cannot be applied the topology is exactly as before the call");
  } else {
    int r2 = hwloc_topology_diff_apply(t, (hwloc_topology_diff_t) e[0], flags ^ HWLOC_TOPOLOGY_DIFF_APPLY_REVERSE);
    take(t, &S, &back);
    /* reversing a list is only an inverse when applied entry by entry backwards; the API applies it
     * forwards, which is an inverse for lists whose entries touch distinct attributes: assert that case */
    int distinct = 1;
    for (unsigned i = 0; i < NE; i++) for (unsigned j = 0; j < i; j++) if (i < n && e[i]->obj_depth == e[j]->obj_depth && e[i]->diff.generic.type == e[j]->diff.generic.type) distinct = 0;
    if (distinct) VP_CHECK(r2 == 0 && same(&pre, &back), "apply then apply with APPLY_REVERSE restores the topology");
  }
#if SCRIPT == 0
  VP_WITNESS_IF(r == -3 && post.info == 'a' && e[0]->diff.string.newvalue == pool[1] && e[1]->diff.string.newvalue == pool[2], "two chained edits of one info rolled back after a failing third entry");
#elif SCRIPT == 1
  VP_WITNESS_IF(r == 0 && post.lm != pre.lm && post.name == 'c' && post.tinfo == 'b', "a size, a name and a topology info change applied");
#elif SCRIPT == 2
  VP_WITNESS_IF(r == 0 && post.name == 'c', "two chained renames and a size change applied");
  VP_WITNESS_IF(r == -3 && pre.name == post.name, "two chained renames rolled back");
#elif SCRIPT == 3
  VP_WITNESS_IF(r == -3 && e[0]->diff.uint64.newvalue != pre.lm, "two chained size changes rolled back after an entry addressing a missing object");
#else
  VP_WITNESS_IF(r == -2, "the second entry rejected (size on a non-NUMA object / on the topology)");
#endif
}

#ifndef EDITS
#define EDITS 15
#endif
#ifndef NONREP
#define NONREP 0
#endif
/* ---- build -> apply on a pair (A, B = edited copy) --------------------------------------------------------------- */
VP_HARNESS(h_build)
{
  /* two independent hand-linked topologies: the builder works in one static area, so it is instantiated twice */
  struct hwloc_topology *A = vp_mini_build_at(&vp_mini); struct vp_seed SA; for (unsigned i = 0; i < 4; i++) SA.pu[i] = vp_mini.pu[i]; for (unsigned i = 0; i < 2; i++) { SA.numa[i] = vp_mini.numa[i]; SA.pkg[i] = vp_mini.pkg[i]; }
  decorate(A, &SA);
  struct hwloc_topology *B = vp_mini_build_at(&vp_second); struct vp_seed SB; for (unsigned i = 0; i < 4; i++) SB.pu[i] = vp_second.pu[i]; for (unsigned i = 0; i < 2; i++) { SB.numa[i] = vp_second.numa[i]; SB.pkg[i] = vp_second.pkg[i]; }
  decorate(B, &SB);
  /* representable edits */
  /* which of the four attributes differ is a compile-time mask (it fixes the shape of the built list); the new values are symbolic */
  unsigned e_name = (EDITS & 1) ? (unsigned) vp_in_range(1, 2) : 0, e_info = (EDITS & 2) ? (unsigned) vp_in_range(1, 2) : 0, e_tinfo = (EDITS & 4) ? (unsigned) vp_in_range(1, 2) : 0;
  uint64_t delta = (EDITS & 8) ? vp_in64() : 0;
  VP_ASSUME(!(EDITS & 8) || delta != 0);
  if (e_name) SB.pkg[0]->name[0] = pool[e_name][0];
  if (e_info) SB.pu[0]->infos.array[0].value[0] = pool[e_info][0];
  if (e_tinfo) B->infos.array[B->infos.count - 1].value[0] = pool[e_tinfo][0];
  if (delta) { SB.numa[0]->attr->numanode.local_memory += delta; SB.numa[0]->total_memory += delta; SB.pkg[0]->total_memory += delta; B->levels[0][0]->total_memory += delta; }
  /* non-representable edits (at most one kind per query): 1 extra info, 2 name unset on B, 3 name unset on A, 4 cpuset changed, 5 os_index changed */
  unsigned nonrep = NONREP;
  if (nonrep == 1) info1(&SB.pu[1]->infos, "x", "a");
  if (nonrep == 2) { SB.pkg[0]->name = NULL; e_name = 0; }
  if (nonrep == 3) { SA.pkg[1]->name = NULL; SB.pkg[1]->name = strdup("a"); }
  if (nonrep == 4) hwloc_bitmap_set(SB.pkg[1]->complete_cpuset, 9);
  if (nonrep == 5) SB.pkg[1]->os_index = 7;
  int edited = e_name || e_info || e_tinfo || delta;
  hwloc_topology_diff_t diff = (void *) 1;
  int r = hwloc_topology_diff_build(A, B, 0, &diff);
  int has_complex = 0, wellformed = 1; unsigned cnt = 0;
  for (hwloc_topology_diff_t x = diff; x && cnt < 8; x = x->generic.next, cnt++) {
    if (x->generic.type == HWLOC_TOPOLOGY_DIFF_TOO_COMPLEX) has_complex = 1;
    else if (x->generic.type == HWLOC_TOPOLOGY_DIFF_OBJ_ATTR) {
      if (x->obj_attr.diff.generic.type != HWLOC_TOPOLOGY_DIFF_OBJ_ATTR_SIZE && (!x->obj_attr.diff.string.oldvalue || !x->obj_attr.diff.string.newvalue)) wellformed = 0;
      if (x->obj_attr.diff.generic.type == HWLOC_TOPOLOGY_DIFF_OBJ_ATTR_INFO && !x->obj_attr.diff.string.name) wellformed = 0;
    } else wellformed = 0;
  }
  VP_CHECK(wellformed, "build: every entry of a built diff is well-formed (known type, non-NULL strings)");
  VP_CHECK(r == (nonrep ? 1 : 0), "build: returns 1 exactly when the topologies differ in something a diff cannot express");
  VP_CHECK((r == 1) == has_complex, "build: a TOO_COMPLEX entry exactly when it returns 1");
  if (!nonrep) {
    VP_CHECK((diff == NULL) == !edited, "build: NULL diff iff nothing differs");
    int ra = hwloc_topology_diff_apply(A, diff, 0);
    VP_CHECK(ra == 0, "apply of a built diff succeeds");
    struct snap a, b; take(A, &SA, &a); take(B, &SB, &b);
    VP_CHECK(same(&a, &b), "apply makes A indistinguishable from B on every attribute a diff may carry (incl. total_memory)");
    hwloc_topology_diff_t diff2 = (void *) 1;
    VP_CHECK(hwloc_topology_diff_build(A, B, 0, &diff2) == 0 && diff2 == NULL, "after apply, diff_build(A, B) is empty");
    int rr = hwloc_topology_diff_apply(A, diff, HWLOC_TOPOLOGY_DIFF_APPLY_REVERSE);
    struct snap a2; take(A, &SA, &a2);
    VP_CHECK(rr == 0 && a2.name == 'a' && a2.info == 'a' && a2.tinfo == 'a' && a2.lm == b.lm - delta && a2.tm_root == b.tm_root - delta, "APPLY_REVERSE restores A");
  }
#if NONREP == 0
  VP_WITNESS_IF(r == 0 && cnt == __builtin_popcount(EDITS), "one entry per edited attribute");
#else
  VP_WITNESS_IF(r == 1, "a non-representable difference reported");
#endif
}

/* ---- infos with the SAME name on one object: an info entry only carries (name, old value, new value) and is applied to the first match ---- */
#ifndef NSLICE
#define NSLICE 1
#endif
#ifndef SLICE
#define SLICE 0
#endif
#ifndef DUPV
#define DUPV 2          /* how many of the pool's strings each of the four values may take */
#endif
#ifndef DUPWHERE
#define DUPWHERE 0      /* 0: two infos named "d" on PU1; 1: on the topology itself */
#endif
static void info2(struct hwloc_infos_s *infos, const char *n, char v0, char v1)
{
  struct hwloc_info_s *a = malloc(8 * sizeof(struct hwloc_info_s)); VP_NONNULL(a);
  for (unsigned i = 0; i < 2; i++) { a[i].name = strdup(n); a[i].value = strdup("a"); VP_NONNULL(a[i].name); VP_NONNULL(a[i].value); }
  a[0].value[0] = v0; a[1].value[0] = v1;
  infos->array = a; infos->count = 2; infos->allocated = 8;
}
static unsigned dup_runs, dup_first, dup_second, dup_complex;
/* one pair with CONCRETE values (the solver otherwise spends minutes on the string comparisons of 4 symbolic characters) */
static void dup_case(unsigned a0, unsigned a1, unsigned b0, unsigned b1)
{
  struct hwloc_topology *A = vp_mini_build_at(&vp_mini); struct vp_seed SA; for (unsigned i = 0; i < 4; i++) SA.pu[i] = vp_mini.pu[i]; for (unsigned i = 0; i < 2; i++) { SA.numa[i] = vp_mini.numa[i]; SA.pkg[i] = vp_mini.pkg[i]; }
  decorate(A, &SA);
  struct hwloc_topology *B = vp_mini_build_at(&vp_second); struct vp_seed SB; for (unsigned i = 0; i < 4; i++) SB.pu[i] = vp_second.pu[i]; for (unsigned i = 0; i < 2; i++) { SB.numa[i] = vp_second.numa[i]; SB.pkg[i] = vp_second.pkg[i]; }
  decorate(B, &SB);
  struct hwloc_infos_s *ia = DUPWHERE ? &A->infos : &SA.pu[1]->infos, *ib = DUPWHERE ? &B->infos : &SB.pu[1]->infos;
  info2(ia, "d", pool[a0][0], pool[a1][0]);
  info2(ib, "d", pool[b0][0], pool[b1][0]);
  hwloc_topology_diff_t diff = (void *) 1;
  int r = hwloc_topology_diff_build(A, B, 0, &diff);
  dup_runs++;
  int has_complex = 0; unsigned cnt = 0;
  for (hwloc_topology_diff_t x = diff; x && cnt < 8; x = x->generic.next, cnt++) if (x->generic.type == HWLOC_TOPOLOGY_DIFF_TOO_COMPLEX) has_complex = 1;
  VP_CHECK(r == 0 || r == 1, "build(dup): returns 0 or 1");
  VP_CHECK((r == 1) == has_complex, "build(dup): a TOO_COMPLEX entry exactly when it returns 1");
  if (r == 1) { dup_complex++; return; }
  VP_CHECK((diff == NULL) == (a0 == b0 && a1 == b1), "build(dup): NULL diff iff nothing differs");
  int ra = hwloc_topology_diff_apply(A, diff, 0);
  VP_CHECK(ra == 0, "build(dup): apply of a built diff succeeds");
  VP_CHECK(ia->count == 2 && ia->array[0].value[0] == pool[b0][0] && ia->array[1].value[0] == pool[b1][0], "build(dup): apply makes each of the same-named infos of A equal to the one of B at the same place");
  hwloc_topology_diff_t diff2 = (void *) 1;
  VP_CHECK(hwloc_topology_diff_build(A, B, 0, &diff2) == 0 && diff2 == NULL, "build(dup): after apply, diff_build(A, B) is empty");
  int rr = hwloc_topology_diff_apply(A, diff, HWLOC_TOPOLOGY_DIFF_APPLY_REVERSE);
  VP_CHECK(rr == 0 && ia->array[0].value[0] == pool[a0][0] && ia->array[1].value[0] == pool[a1][0], "build(dup): APPLY_REVERSE restores A");
  if (a0 != b0 && a1 == b1) dup_first++;
  if (a0 == b0 && a1 != b1) dup_second++;
}
VP_HARNESS(h_build_dup)
{
  unsigned sel = (unsigned) vp_in_range(0, DUPV * DUPV * DUPV * DUPV - 1), k = 0;
  for (unsigned a0 = 0; a0 < DUPV; a0++) for (unsigned a1 = 0; a1 < DUPV; a1++) for (unsigned b0 = 0; b0 < DUPV; b0++) for (unsigned b1 = 0; b1 < DUPV; b1++, k++)
    if ((k % NSLICE) == SLICE && sel == k) dup_case(a0, a1, b0, b1);
#if NSLICE == 1
  VP_WITNESS_IF(dup_first >= 1, "the first of two same-named infos changed, applied and reversed");
  VP_WITNESS_IF(dup_complex >= 1, "a change that (name, old value, new value) cannot designate is reported as too complex");
#else
  VP_WITNESS_IF(dup_runs >= 1 && dup_first + dup_second + dup_complex >= 1, "a pair of this slice with a changed info decided");
#endif
}

/* native self-test of the hand-linked topology: the real checker must accept it */
VP_HARNESS(h_mini_ok)
{
  struct hwloc_topology *t = vp_mini_build();
  VP_CHECK(t->nb_levels == 3 && t->levels[2][3]->os_index == 5, "mini topology built");
#ifndef VP_CBMC
  hwloc_topology_check(t);
#endif
  VP_WITNESS("mini topology");
}

/* ---- build: distance matrices are compared in full -------------------------------------------------------------------------- */
static struct hwloc_internal_distances_s *mk_dist(struct vp_mini *m, const uint64_t *v, unsigned long kind)
{
  struct hwloc_internal_distances_s *d = malloc(sizeof *d); VP_NONNULL(d); static const struct hwloc_internal_distances_s dz; *d = dz;
  d->nbobjs = 2; d->unique_type = HWLOC_OBJ_PU; d->kind = kind; d->iflags = HWLOC_INTERNAL_DIST_FLAG_OBJS_VALID;
  d->objs = malloc(2 * sizeof(hwloc_obj_t)); d->indexes = malloc(2 * sizeof(uint64_t)); d->values = malloc(4 * sizeof(uint64_t));
  VP_NONNULL(d->objs); VP_NONNULL(d->indexes); VP_NONNULL(d->values);
  d->objs[0] = m->pu[0]; d->objs[1] = m->pu[1]; d->indexes[0] = 0; d->indexes[1] = 1;
  for (unsigned i = 0; i < 4; i++) d->values[i] = v[i];
  m->topo->first_dist = m->topo->last_dist = d;
  return d;
}
VP_HARNESS(h_build_dist)
{
  struct hwloc_topology *A = vp_mini_build_at(&vp_mini), *B = vp_mini_build_at(&vp_second);
  uint64_t va[4], vb[4]; for (unsigned i = 0; i < 4; i++) { va[i] = vp_in64(); vb[i] = vp_in64(); }
  unsigned long ka = vp_in64(), kb = vp_in64();
  mk_dist(&vp_mini, va, ka); mk_dist(&vp_second, vb, kb);
  hwloc_topology_diff_t diff = (void *) 1;
  int r = hwloc_topology_diff_build(A, B, 0, &diff);
  int differ = ka != kb; for (unsigned i = 0; i < 4; i++) if (va[i] != vb[i]) differ = 1;
  VP_CHECK(r == (differ ? 1 : 0), "build: topologies whose distance matrices differ in ANY value (or kind) are not reported as identical");
  if (differ) VP_CHECK(diff && diff->generic.type == HWLOC_TOPOLOGY_DIFF_TOO_COMPLEX && diff->generic.next == NULL, "build: a distances difference is a single TOO_COMPLEX entry on the root");
  else VP_CHECK(diff == NULL, "build: equal distances add nothing to the diff");
  VP_WITNESS_IF(r == 1 && va[0] == vb[0] && va[1] == vb[1] && va[2] == vb[2] && ka == kb, "matrices that differ only in the last value");
  VP_WITNESS_IF(r == 0, "equal matrices");
}
