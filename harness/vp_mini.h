/* vp_mini.h — a hand-linked 9-object topology (no discovery code is executed: symex cost ~0).
 *
 *   Machine#0 (cpuset 0x27, nodeset 0x3)
 *     Package#0 (0x03, node 0x1)  +NUMA#0      PU#0 PU#1
 *     Package#1 (0x24, node 0x2)  +NUMA#1      PU#2 PU#5
 *
 * Every link, array, rank, depth and set is written explicitly; the driver's native self-test
 * (harness h_mini_ok, run under ASan) passes it through the real hwloc_topology_check().
 * Harnesses that need the real construction pipeline use vp_seed.h instead.
 * The including file must provide struct hwloc_topology (private/private.h) and the bitmap API.
 */
#ifndef VP_MINI_H
#define VP_MINI_H
#include "vp.h"

/* every object, attribute union and array is its own allocation: a write through an object pointer then only
 * concerns that object (one big struct holding everything made each such write a whole-aggregate update in symex) */
struct vp_mini {
  struct hwloc_topology *topo;
  hwloc_obj_t machine, pkg[2], pu[4], numa[2];
  hwloc_obj_t *lv0, *lv1, *lv2, *lvn;
  hwloc_obj_t **levels; unsigned *nbobjs;
};
static struct vp_mini vp_mini;
/* typed allocations (malloc(sizeof(T)) + zero by assignment): calloc's model yields an untyped byte array, which loses
 * field sensitivity and constant propagation */
#define VP_NEW(T, p) do { (p) = malloc(sizeof(T)); VP_NONNULL(p); static const T vp_zero_; *(p) = vp_zero_; } while (0)
#define VP_NEWV(T, p, n) do { (p) = malloc((n) * sizeof(T)); VP_NONNULL(p); for (unsigned i_ = 0; i_ < (n); i_++) (p)[i_] = (T) 0; } while (0)
static hwloc_obj_t vp_mini_obj(struct hwloc_topology *t, hwloc_obj_type_t type, unsigned os, int depth)
{ hwloc_obj_t o; VP_NEW(struct hwloc_obj, o); o->type = type; VP_NEW(union hwloc_obj_attr_u, o->attr); o->os_index = os; o->gp_index = t->next_gp_index++; o->depth = depth; o->symmetric_subtree = 1; return o; }

static hwloc_bitmap_t vp_mbm(unsigned long m) { hwloc_bitmap_t b = hwloc_bitmap_alloc(); VP_NONNULL(b); hwloc_bitmap_from_ulong(b, m); return b; }
static unsigned long vp_mw(hwloc_const_bitmap_t b) { return b ? hwloc_bitmap_to_ulong(b) : 0UL; }
static void vp_mini_sets(hwloc_obj_t o, unsigned long c, unsigned long n) { o->cpuset = vp_mbm(c); o->complete_cpuset = vp_mbm(c); o->nodeset = vp_mbm(n); o->complete_nodeset = vp_mbm(n); }

static struct hwloc_topology *vp_mini_build_at(struct vp_mini *m)
{
  static const unsigned puos[4] = { 0, 1, 2, 5 };
  struct hwloc_topology *t; VP_NEW(struct hwloc_topology, t); m->topo = t;
  t->topology_abi = HWLOC_TOPOLOGY_ABI;
  t->state = HWLOC_TOPOLOGY_STATE_IS_LOADED | HWLOC_TOPOLOGY_STATE_IS_THISSYSTEM;
  VP_NEW(struct hwloc_topology_discovery_support, t->support.discovery); VP_NEW(struct hwloc_topology_cpubind_support, t->support.cpubind); VP_NEW(struct hwloc_topology_membind_support, t->support.membind); VP_NEW(struct hwloc_topology_misc_support, t->support.misc);
  for (unsigned ty = 0; ty < HWLOC_OBJ_TYPE_MAX; ty++) { t->type_filter[ty] = HWLOC_TYPE_FILTER_KEEP_ALL; t->type_depth[ty] = HWLOC_TYPE_DEPTH_UNKNOWN; }
  t->type_filter[HWLOC_OBJ_GROUP] = HWLOC_TYPE_FILTER_KEEP_STRUCTURE;
  t->type_filter[HWLOC_OBJ_BRIDGE] = t->type_filter[HWLOC_OBJ_PCI_DEVICE] = t->type_filter[HWLOC_OBJ_OS_DEVICE] = t->type_filter[HWLOC_OBJ_MISC] = HWLOC_TYPE_FILTER_KEEP_NONE;
  t->type_filter[HWLOC_OBJ_L1ICACHE] = t->type_filter[HWLOC_OBJ_L2ICACHE] = t->type_filter[HWLOC_OBJ_L3ICACHE] = t->type_filter[HWLOC_OBJ_MEMCACHE] = HWLOC_TYPE_FILTER_KEEP_NONE;
  t->type_depth[HWLOC_OBJ_MACHINE] = 0; t->type_depth[HWLOC_OBJ_PACKAGE] = 1; t->type_depth[HWLOC_OBJ_PU] = 2;
  t->type_depth[HWLOC_OBJ_NUMANODE] = HWLOC_TYPE_DEPTH_NUMANODE; t->type_depth[HWLOC_OBJ_MISC] = HWLOC_TYPE_DEPTH_MISC; t->type_depth[HWLOC_OBJ_BRIDGE] = HWLOC_TYPE_DEPTH_BRIDGE;
  t->type_depth[HWLOC_OBJ_PCI_DEVICE] = HWLOC_TYPE_DEPTH_PCI_DEVICE; t->type_depth[HWLOC_OBJ_OS_DEVICE] = HWLOC_TYPE_DEPTH_OS_DEVICE; t->type_depth[HWLOC_OBJ_MEMCACHE] = HWLOC_TYPE_DEPTH_MEMCACHE;
  VP_NEWV(hwloc_obj_t *, m->levels, 16); VP_NEWV(unsigned, m->nbobjs, 16);
  VP_NEWV(hwloc_obj_t, m->lv0, 1); VP_NEWV(hwloc_obj_t, m->lv1, 2); VP_NEWV(hwloc_obj_t, m->lv2, 4); VP_NEWV(hwloc_obj_t, m->lvn, 2);
  t->nb_levels = 3; t->nb_levels_allocated = 16; t->levels = m->levels; t->level_nbobjects = m->nbobjs;
  m->levels[0] = m->lv0; m->levels[1] = m->lv1; m->levels[2] = m->lv2; m->nbobjs[0] = 1; m->nbobjs[1] = 2; m->nbobjs[2] = 4;
  t->next_gp_index = 1;
  /* machine */
  hwloc_obj_t M = m->machine = vp_mini_obj(t, HWLOC_OBJ_MACHINE, 0, 0);
  vp_mini_sets(M, 0x27, 0x3); M->arity = 2; VP_NEWV(hwloc_obj_t, M->children, 2); m->lv0[0] = M;
  for (unsigned p = 0; p < 2; p++) {
    hwloc_obj_t P = m->pkg[p] = vp_mini_obj(t, HWLOC_OBJ_PACKAGE, p, 1); P->logical_index = p; P->sibling_rank = p;
    vp_mini_sets(P, p ? 0x24 : 0x03, p ? 0x2 : 0x1); P->parent = M; P->arity = 2; VP_NEWV(hwloc_obj_t, P->children, 2); m->lv1[p] = P; M->children[p] = P;
    hwloc_obj_t N = m->numa[p] = vp_mini_obj(t, HWLOC_OBJ_NUMANODE, p, HWLOC_TYPE_DEPTH_NUMANODE); N->logical_index = p;
    vp_mini_sets(N, p ? 0x24 : 0x03, p ? 0x2 : 0x1); N->parent = P; N->attr->numanode.local_memory = 1024UL * (p + 1); N->total_memory = N->attr->numanode.local_memory;
    P->memory_arity = 1; P->memory_first_child = N; P->total_memory = N->total_memory; m->lvn[p] = N;
    for (unsigned k = 0; k < 2; k++) {
      unsigned i = 2 * p + k; hwloc_obj_t U = m->pu[i] = vp_mini_obj(t, HWLOC_OBJ_PU, puos[i], 2); U->logical_index = i; U->sibling_rank = k;
      vp_mini_sets(U, 1UL << puos[i], p ? 0x2 : 0x1); U->parent = P; m->lv2[i] = U; P->children[k] = U;
    }
    P->first_child = m->pu[2 * p]; P->last_child = m->pu[2 * p + 1]; m->pu[2 * p]->next_sibling = m->pu[2 * p + 1]; m->pu[2 * p + 1]->prev_sibling = m->pu[2 * p];
  }
  M->first_child = m->pkg[0]; M->last_child = m->pkg[1]; m->pkg[0]->next_sibling = m->pkg[1]; m->pkg[1]->prev_sibling = m->pkg[0];
  m->pkg[0]->next_cousin = m->pkg[1]; m->pkg[1]->prev_cousin = m->pkg[0];
  for (unsigned i = 0; i < 3; i++) { m->pu[i]->next_cousin = m->pu[i + 1]; m->pu[i + 1]->prev_cousin = m->pu[i]; }
  m->numa[0]->next_cousin = m->numa[1]; m->numa[1]->prev_cousin = m->numa[0];
  M->total_memory = m->pkg[0]->total_memory + m->pkg[1]->total_memory;
  t->slevels[HWLOC_SLEVEL_NUMANODE].objs = m->lvn; t->slevels[HWLOC_SLEVEL_NUMANODE].nbobjs = 2; t->slevels[HWLOC_SLEVEL_NUMANODE].first = m->numa[0]; t->slevels[HWLOC_SLEVEL_NUMANODE].last = m->numa[1];
  t->allowed_cpuset = vp_mbm(0x27); t->allowed_nodeset = vp_mbm(0x3);
  return t;
}
static struct hwloc_topology *vp_mini_build(void) { return vp_mini_build_at(&vp_mini); }
#endif
