/* vp_seed.h — seed topologies built by the REAL core code (DESIGN §4).
 * Includes hwloc/topology.c textually (so that static functions are reachable) and builds small
 * topologies through a fake backend whose discover() callback inserts objects with
 * hwloc_alloc_setup_object + hwloc__insert_object_by_cpuset / hwloc_insert_object_by_parent; the real
 * hwloc_discover() does propagation, connection, level building, filtering and total-memory.
 * The SHAPE of a seed is a stated bound; what harnesses apply to it is symbolic.
 *
 *   S1: Machine{ Package0{PU0 PU1 +NUMA0}, Package1{PU2 PU5 +NUMA1} }           (PU os_index 0,1,2,5)
 *   S2: asymmetric: Package0{ Core0{PU0 PU1} Core1{PU2} +NUMA0, Bridge>PCI>OSDev } Package1{PU5 +Misc}
 *       + CPU-less NUMA2 attached to the Machine
 *   S3: Machine{ PU0 +NUMA0 }
 *   S4: S1 loaded with INCLUDE_DISALLOWED where PU1 and NUMA1 are disallowed
 *   S5: S1 with a memory-side cache between each package and its NUMA node
 *   S8: S1 with a second NUMA node (os_index 2) attached to Package0: heterogeneous memory, a node does not own its parent's nodeset
 *   S9: flat: Machine{ PU0 PU1 PU2 PU5 +NUMA0 }: every subset of the PUs is a legal new Group
 *   S10: S1's packages and PUs with a single NUMA node attached to the machine (the node intersects every package, is inside none)
 *   S11: S1 with Misc objects below Package1, below NUMA#1 and below PU#5 (a removed memory object hands its Misc children to a parent that has its own)
 *   S12: interleaved numbering with a disallowed first PU: Package0{PU0 PU2} Package1{PU1 PU3}, PU0 disallowed, one NUMA node: children are
 *        ordered by complete_cpuset, which differs from the cpuset order
 *   S13: Machine{ Group{Core{PU0} Core{PU1} +NUMA0 +Misc} Group{Core{PU2} Core{PU5} +NUMA1} } (+Misc below Core0): a restrict that leaves one Core per
 *        Group makes the Group level redundant: it is merged away and its memory and Misc children move to the Cores
 *   S14: S1 with an L2 (filtered KEEP_STRUCTURE) below each Package with the same cpuset, and Misc objects attached (MISC phase of a second
 *        backend, before the final reconnect) below the L2s and below Package1: the L2 level is merged into the Packages (the CHILD is the
 *        one removed), its Misc children join those of the Package
 *   S6: asymmetric, L2 filtered KEEP_STRUCTURE: Package0{L2{PU0}} Package1{L2{Core{PU1}}} Package2{Core{PU2}} +NUMA0 on the machine:
 *       the L2 and Core levels have the same width and only arity-1 parents but are NOT pairwise parent/child: nothing may be merged
 *   S7: L2 filtered KEEP_STRUCTURE above a Core with the same cpuset, twice: L2{Core{PU0 PU1} +NUMA0} L2{Core{PU2 PU5} +NUMA1}:
 *       the L2 level brings no structure and is merged away, its memory children move to the Cores
 */
#ifndef VP_SEED_H
#define VP_SEED_H
#include "vp.h"
#include "hwloc/topology.c"

#ifdef VP_CBMC
/* environment: no environment variables, no PCI locality machinery, no component registry */
#ifndef VP_SEED_KEEP_GETENV
char *getenv(const char *n) { (void) n; return 0; }
#endif
void hwloc_pci_discovery_prepare(struct hwloc_topology *t) { (void) t; }
void hwloc_pci_discovery_exit(struct hwloc_topology *t) { (void) t; }
void hwloc_pci_discovery_init(struct hwloc_topology *t) { (void) t; }
char *hwloc_progname(struct hwloc_topology *t) { (void) t; return 0; }
#ifndef VP_SEED_REAL_DISTANCES
void hwloc_internal_distances_init(hwloc_topology_t t) { t->first_dist = t->last_dist = NULL; t->next_dist_id = 0; }
static unsigned vp_stub_dist_invalidated;      /* how often the core asked for the cached object pointers of the distances to be dropped */
void hwloc_internal_distances_invalidate_cached_objs(hwloc_topology_t t) { (void) t; vp_stub_dist_invalidated++; }
void hwloc_internal_distances_refresh(hwloc_topology_t t) { (void) t; }
void hwloc_internal_distances_destroy(hwloc_topology_t t) { (void) t; }
#endif
#ifndef VP_SEED_REAL_MEMATTRS
void hwloc_internal_memattrs_init(hwloc_topology_t t) { t->nr_memattrs = 0; t->memattrs = NULL; }
void hwloc_internal_memattrs_need_refresh(hwloc_topology_t t) { (void) t; }
void hwloc_internal_memattrs_refresh(hwloc_topology_t t) { (void) t; }
void hwloc_internal_memattrs_destroy(hwloc_topology_t t) { (void) t; }
#endif
#ifndef VP_SEED_REAL_CPUKINDS
void hwloc_internal_cpukinds_init(hwloc_topology_t t) { t->cpukinds = NULL; t->nr_cpukinds = 0; t->nr_cpukinds_allocated = 0; }
void hwloc_internal_cpukinds_restrict(hwloc_topology_t t) { (void) t; }
int hwloc_internal_cpukinds_rank(hwloc_topology_t t) { (void) t; return 0; }
void hwloc_internal_cpukinds_destroy(hwloc_topology_t t) { (void) t; }
#endif
#endif /* VP_CBMC */

static hwloc_bitmap_t vp_bm(unsigned long m) { hwloc_bitmap_t b = hwloc_bitmap_alloc(); VP_NONNULL(b); hwloc_bitmap_from_ulong(b, m); return b; }
static unsigned long vp_w(hwloc_const_bitmap_t b) { return b ? hwloc_bitmap_to_ulong(b) : 0UL; }

#ifndef VP_SEED_MAXOBJ
#define VP_SEED_MAXOBJ 16
#endif
struct vp_seed {
  struct hwloc_topology *topology;
  unsigned nobj;
  hwloc_obj_t obj[VP_SEED_MAXOBJ];     /* every object, creation order */
  hwloc_obj_t pu[4], numa[3], pkg[2], core[2], memcache[2], misc, bridge, pcidev, osdev;
  unsigned long cpus, nodes;           /* root cpuset / nodeset words */
};
static struct vp_seed vp_seed;
static int vp_seed_id, vp_seed_err, vp_seed_prepare_only;
static unsigned long vp_seed_flags;

static hwloc_obj_t vp_ins(struct hwloc_topology *t, hwloc_obj_type_t ty, unsigned idx, unsigned long cpus, unsigned long nodes)
{
  hwloc_obj_t o = hwloc_alloc_setup_object(t, ty, idx), r;
  o->cpuset = vp_bm(cpus);
  if (ty == HWLOC_OBJ_NUMANODE) { o->nodeset = vp_bm(nodes); o->attr->numanode.local_memory = 1024UL * (idx + 1); }
  if (ty == HWLOC_OBJ_MEMCACHE) { o->nodeset = vp_bm(nodes); o->attr->cache.depth = 4; o->attr->cache.type = HWLOC_OBJ_CACHE_UNIFIED; o->attr->cache.size = 4096; o->attr->cache.linesize = 64; }
  r = hwloc__insert_object_by_cpuset(t, NULL, o, NULL);
  VP_ASSUME(r == o);
  vp_seed.obj[vp_seed.nobj++] = o;
  return o;
}
static hwloc_obj_t vp_ins_child(struct hwloc_topology *t, hwloc_obj_t parent, hwloc_obj_type_t ty, unsigned idx)
{
  hwloc_obj_t o = hwloc_alloc_setup_object(t, ty, idx);
  hwloc_insert_object_by_parent(t, parent, o);
  vp_seed.obj[vp_seed.nobj++] = o;
  return o;
}

static int vp_seed_discover(struct hwloc_backend *b, struct hwloc_disc_status *d)
{
  struct hwloc_topology *t = b->topology; struct vp_seed *s = &vp_seed;
  (void) d;
#ifdef VP_SEED_DISCOVER_HOOK
  if (vp_seed_id >= 100) return VP_SEED_DISCOVER_HOOK(b, d);      /* fixtures of the including harness (>= 200: the backend sets the root sets itself) */
#endif
  if (vp_seed_id == 3) {
    s->pu[0] = vp_ins(t, HWLOC_OBJ_PU, 0, 0x1, 0);
    s->numa[0] = vp_ins(t, HWLOC_OBJ_NUMANODE, 0, 0x1, 0x1);
    return 0;
  }
  if (vp_seed_id == 5) {
    /* S5: S1 with a memory-side cache in front of each NUMA node (Package -> MemCache -> NUMA) */
    s->pu[0] = vp_ins(t, HWLOC_OBJ_PU, 0, 0x01, 0); s->pu[1] = vp_ins(t, HWLOC_OBJ_PU, 1, 0x02, 0);
    s->pu[2] = vp_ins(t, HWLOC_OBJ_PU, 2, 0x04, 0); s->pu[3] = vp_ins(t, HWLOC_OBJ_PU, 5, 0x20, 0);
    s->pkg[0] = vp_ins(t, HWLOC_OBJ_PACKAGE, 0, 0x03, 0); s->pkg[1] = vp_ins(t, HWLOC_OBJ_PACKAGE, 1, 0x24, 0);
    s->numa[0] = vp_ins(t, HWLOC_OBJ_NUMANODE, 0, 0x03, 0x1); s->numa[1] = vp_ins(t, HWLOC_OBJ_NUMANODE, 1, 0x24, 0x2);
    s->memcache[0] = vp_ins(t, HWLOC_OBJ_MEMCACHE, HWLOC_UNKNOWN_INDEX, 0x03, 0x1); s->memcache[1] = vp_ins(t, HWLOC_OBJ_MEMCACHE, HWLOC_UNKNOWN_INDEX, 0x24, 0x2);
    return 0;
  }
  if (vp_seed_id == 9) {
    s->pu[0] = vp_ins(t, HWLOC_OBJ_PU, 0, 0x01, 0); s->pu[1] = vp_ins(t, HWLOC_OBJ_PU, 1, 0x02, 0);
    s->pu[2] = vp_ins(t, HWLOC_OBJ_PU, 2, 0x04, 0); s->pu[3] = vp_ins(t, HWLOC_OBJ_PU, 5, 0x20, 0);
    s->numa[0] = vp_ins(t, HWLOC_OBJ_NUMANODE, 0, 0x27, 0x1);
    return 0;
  }
  if (vp_seed_id == 6) {
    s->pu[0] = vp_ins(t, HWLOC_OBJ_PU, 0, 0x1, 0); s->pu[1] = vp_ins(t, HWLOC_OBJ_PU, 1, 0x2, 0); s->pu[2] = vp_ins(t, HWLOC_OBJ_PU, 2, 0x4, 0);
    s->pkg[0] = vp_ins(t, HWLOC_OBJ_PACKAGE, 0, 0x1, 0); s->pkg[1] = vp_ins(t, HWLOC_OBJ_PACKAGE, 1, 0x2, 0); vp_ins(t, HWLOC_OBJ_PACKAGE, 2, 0x4, 0);
    for (unsigned k = 0; k < 2; k++) { hwloc_obj_t c = hwloc_alloc_setup_object(t, HWLOC_OBJ_L2CACHE, HWLOC_UNKNOWN_INDEX); c->cpuset = vp_bm(1UL << k);
      c->attr->cache.depth = 2; c->attr->cache.type = HWLOC_OBJ_CACHE_UNIFIED; c->attr->cache.size = 1024; c->attr->cache.linesize = 64;
      hwloc_obj_t r = hwloc__insert_object_by_cpuset(t, NULL, c, NULL); VP_ASSUME(r == c); s->obj[s->nobj++] = c; }
    s->core[0] = vp_ins(t, HWLOC_OBJ_CORE, 1, 0x2, 0); s->core[1] = vp_ins(t, HWLOC_OBJ_CORE, 2, 0x4, 0);
    s->numa[0] = vp_ins(t, HWLOC_OBJ_NUMANODE, 0, 0x7, 0x1);
    return 0;
  }
  if (vp_seed_id == 7) {
    s->pu[0] = vp_ins(t, HWLOC_OBJ_PU, 0, 0x01, 0); s->pu[1] = vp_ins(t, HWLOC_OBJ_PU, 1, 0x02, 0);
    s->pu[2] = vp_ins(t, HWLOC_OBJ_PU, 2, 0x04, 0); s->pu[3] = vp_ins(t, HWLOC_OBJ_PU, 5, 0x20, 0);
    s->core[0] = vp_ins(t, HWLOC_OBJ_CORE, 0, 0x03, 0); s->core[1] = vp_ins(t, HWLOC_OBJ_CORE, 1, 0x24, 0);
    for (unsigned k = 0; k < 2; k++) { hwloc_obj_t c = hwloc_alloc_setup_object(t, HWLOC_OBJ_L2CACHE, HWLOC_UNKNOWN_INDEX); c->cpuset = vp_bm(k ? 0x24 : 0x03);
      c->attr->cache.depth = 2; c->attr->cache.type = HWLOC_OBJ_CACHE_UNIFIED; c->attr->cache.size = 1024; c->attr->cache.linesize = 64;
      hwloc_obj_t r = hwloc__insert_object_by_cpuset(t, NULL, c, NULL); VP_ASSUME(r == c); s->obj[s->nobj++] = c; }
    s->numa[0] = vp_ins(t, HWLOC_OBJ_NUMANODE, 0, 0x03, 0x1); s->numa[1] = vp_ins(t, HWLOC_OBJ_NUMANODE, 1, 0x24, 0x2);
    return 0;
  }
  if (vp_seed_id == 14) {
    s->pu[0] = vp_ins(t, HWLOC_OBJ_PU, 0, 0x01, 0); s->pu[1] = vp_ins(t, HWLOC_OBJ_PU, 1, 0x02, 0);
    s->pu[2] = vp_ins(t, HWLOC_OBJ_PU, 2, 0x04, 0); s->pu[3] = vp_ins(t, HWLOC_OBJ_PU, 5, 0x20, 0);
    s->pkg[0] = vp_ins(t, HWLOC_OBJ_PACKAGE, 0, 0x03, 0); s->pkg[1] = vp_ins(t, HWLOC_OBJ_PACKAGE, 1, 0x24, 0);
    for (unsigned k = 0; k < 2; k++) { hwloc_obj_t c = hwloc_alloc_setup_object(t, HWLOC_OBJ_L2CACHE, HWLOC_UNKNOWN_INDEX); c->cpuset = vp_bm(k ? 0x24 : 0x03);
      c->attr->cache.depth = 2; c->attr->cache.type = HWLOC_OBJ_CACHE_UNIFIED; c->attr->cache.size = 1024; c->attr->cache.linesize = 64;
      hwloc_obj_t r = hwloc__insert_object_by_cpuset(t, NULL, c, NULL); VP_ASSUME(r == c); s->obj[s->nobj++] = c; s->core[k] = c; }
    s->numa[0] = vp_ins(t, HWLOC_OBJ_NUMANODE, 0, 0x03, 0x1); s->numa[1] = vp_ins(t, HWLOC_OBJ_NUMANODE, 1, 0x24, 0x2);
    return 0;
  }
  if (vp_seed_id == 10) {
    s->pu[0] = vp_ins(t, HWLOC_OBJ_PU, 0, 0x01, 0); s->pu[1] = vp_ins(t, HWLOC_OBJ_PU, 1, 0x02, 0);
    s->pu[2] = vp_ins(t, HWLOC_OBJ_PU, 2, 0x04, 0); s->pu[3] = vp_ins(t, HWLOC_OBJ_PU, 5, 0x20, 0);
    s->pkg[0] = vp_ins(t, HWLOC_OBJ_PACKAGE, 0, 0x03, 0); s->pkg[1] = vp_ins(t, HWLOC_OBJ_PACKAGE, 1, 0x24, 0);
    s->numa[0] = vp_ins(t, HWLOC_OBJ_NUMANODE, 0, 0x27, 0x1);
    return 0;
  }
  if (vp_seed_id == 12) {
    s->pu[0] = vp_ins(t, HWLOC_OBJ_PU, 0, 0x1, 0); s->pu[1] = vp_ins(t, HWLOC_OBJ_PU, 1, 0x2, 0); s->pu[2] = vp_ins(t, HWLOC_OBJ_PU, 2, 0x4, 0); s->pu[3] = vp_ins(t, HWLOC_OBJ_PU, 3, 0x8, 0);
    s->pkg[0] = vp_ins(t, HWLOC_OBJ_PACKAGE, 0, 0x5, 0); s->pkg[1] = vp_ins(t, HWLOC_OBJ_PACKAGE, 1, 0xa, 0);
    s->numa[0] = vp_ins(t, HWLOC_OBJ_NUMANODE, 0, 0xf, 0x1);
    hwloc_bitmap_clr(t->allowed_cpuset, 0);
    return 0;
  }
  if (vp_seed_id == 13) {
    s->pu[0] = vp_ins(t, HWLOC_OBJ_PU, 0, 0x01, 0); s->pu[1] = vp_ins(t, HWLOC_OBJ_PU, 1, 0x02, 0); s->pu[2] = vp_ins(t, HWLOC_OBJ_PU, 2, 0x04, 0); s->pu[3] = vp_ins(t, HWLOC_OBJ_PU, 5, 0x20, 0);
    s->core[0] = vp_ins(t, HWLOC_OBJ_CORE, 0, 0x01, 0); s->core[1] = vp_ins(t, HWLOC_OBJ_CORE, 1, 0x02, 0); vp_ins(t, HWLOC_OBJ_CORE, 2, 0x04, 0); vp_ins(t, HWLOC_OBJ_CORE, 3, 0x20, 0);
    for (unsigned k = 0; k < 2; k++) { hwloc_obj_t g = hwloc_alloc_setup_object(t, HWLOC_OBJ_GROUP, HWLOC_UNKNOWN_INDEX); g->cpuset = vp_bm(k ? 0x24 : 0x03); g->attr->group.kind = HWLOC_GROUP_KIND_SYNTHETIC; g->attr->group.subkind = k;
      hwloc_obj_t r = hwloc__insert_object_by_cpuset(t, NULL, g, NULL); VP_ASSUME(r == g); s->obj[s->nobj++] = g; s->pkg[k] = g; }
    s->numa[0] = vp_ins(t, HWLOC_OBJ_NUMANODE, 0, 0x03, 0x1); s->numa[1] = vp_ins(t, HWLOC_OBJ_NUMANODE, 1, 0x24, 0x2);
    return 0;
  }
  if (vp_seed_id == 1 || vp_seed_id == 4 || vp_seed_id == 8 || vp_seed_id == 11) {
    s->pu[0] = vp_ins(t, HWLOC_OBJ_PU, 0, 0x01, 0); s->pu[1] = vp_ins(t, HWLOC_OBJ_PU, 1, 0x02, 0);
    s->pu[2] = vp_ins(t, HWLOC_OBJ_PU, 2, 0x04, 0); s->pu[3] = vp_ins(t, HWLOC_OBJ_PU, 5, 0x20, 0);
    s->pkg[0] = vp_ins(t, HWLOC_OBJ_PACKAGE, 0, 0x03, 0); s->pkg[1] = vp_ins(t, HWLOC_OBJ_PACKAGE, 1, 0x24, 0);
    s->numa[0] = vp_ins(t, HWLOC_OBJ_NUMANODE, 0, 0x03, 0x1); s->numa[1] = vp_ins(t, HWLOC_OBJ_NUMANODE, 1, 0x24, 0x2);
    if (vp_seed_id == 8) s->numa[2] = vp_ins(t, HWLOC_OBJ_NUMANODE, 2, 0x03, 0x4);
    if (vp_seed_id == 4) { hwloc_bitmap_clr(t->allowed_cpuset, 1); hwloc_bitmap_clr(t->allowed_nodeset, 1); }
    return 0;
  }
  /* S2 */
  s->pu[0] = vp_ins(t, HWLOC_OBJ_PU, 0, 0x01, 0); s->pu[1] = vp_ins(t, HWLOC_OBJ_PU, 1, 0x02, 0);
  s->pu[2] = vp_ins(t, HWLOC_OBJ_PU, 2, 0x04, 0); s->pu[3] = vp_ins(t, HWLOC_OBJ_PU, 5, 0x20, 0);
  s->core[0] = vp_ins(t, HWLOC_OBJ_CORE, 0, 0x03, 0); s->core[1] = vp_ins(t, HWLOC_OBJ_CORE, 1, 0x04, 0);
  s->pkg[0] = vp_ins(t, HWLOC_OBJ_PACKAGE, 0, 0x07, 0); s->pkg[1] = vp_ins(t, HWLOC_OBJ_PACKAGE, 1, 0x20, 0);
  s->numa[0] = vp_ins(t, HWLOC_OBJ_NUMANODE, 0, 0x07, 0x1);
  s->numa[2] = vp_ins(t, HWLOC_OBJ_NUMANODE, 2, 0x0, 0x4);    /* CPU-less: the core attaches it below the Machine */
  return 0;
}

/* I/O and Misc objects are attached after the normal tree is connected (as the IO/MISC phases do) */
static int vp_seed_discover_io(struct hwloc_backend *b, struct hwloc_disc_status *d)
{
  struct hwloc_topology *t = b->topology; struct vp_seed *s = &vp_seed;
  (void) d;
#ifdef VP_SEED_IO_HOOK
  if (vp_seed_id >= 100) return VP_SEED_IO_HOOK(b, d);
#endif
  if (vp_seed_id == 11) { vp_ins_child(t, s->pkg[1], HWLOC_OBJ_MISC, HWLOC_UNKNOWN_INDEX); vp_ins_child(t, s->numa[1], HWLOC_OBJ_MISC, HWLOC_UNKNOWN_INDEX); s->misc = vp_ins_child(t, s->pu[3], HWLOC_OBJ_MISC, HWLOC_UNKNOWN_INDEX); return 0; }
  if (vp_seed_id == 14) { vp_ins_child(t, s->core[0], HWLOC_OBJ_MISC, HWLOC_UNKNOWN_INDEX); vp_ins_child(t, s->pkg[1], HWLOC_OBJ_MISC, HWLOC_UNKNOWN_INDEX);
    vp_ins_child(t, s->core[1], HWLOC_OBJ_MISC, HWLOC_UNKNOWN_INDEX); s->misc = vp_ins_child(t, s->core[1], HWLOC_OBJ_MISC, HWLOC_UNKNOWN_INDEX); return 0; }
  if (vp_seed_id == 13) { vp_ins_child(t, s->pkg[0], HWLOC_OBJ_MISC, HWLOC_UNKNOWN_INDEX); s->misc = vp_ins_child(t, s->core[0], HWLOC_OBJ_MISC, HWLOC_UNKNOWN_INDEX); return 0; }
  if (vp_seed_id != 2) return 0;
  s->bridge = vp_ins_child(t, s->pkg[0], HWLOC_OBJ_BRIDGE, HWLOC_UNKNOWN_INDEX);
  s->bridge->attr->bridge.upstream_type = HWLOC_OBJ_BRIDGE_HOST; s->bridge->attr->bridge.downstream_type = HWLOC_OBJ_BRIDGE_PCI;
  s->pcidev = vp_ins_child(t, s->bridge, HWLOC_OBJ_PCI_DEVICE, HWLOC_UNKNOWN_INDEX);
  s->osdev = vp_ins_child(t, s->pcidev, HWLOC_OBJ_OS_DEVICE, HWLOC_UNKNOWN_INDEX);
  s->osdev->attr->osdev.types = HWLOC_OBJ_OSDEV_STORAGE;
  s->misc = vp_ins_child(t, s->pu[3], HWLOC_OBJ_MISC, HWLOC_UNKNOWN_INDEX);
  return 0;
}

#ifdef VP_SEED_BACKEND_EXTRA
/* a backend with private data: HWLOC_BACKEND_PRIVATE_DATA() is the memory right behind struct hwloc_backend */
static struct { struct hwloc_backend be; VP_SEED_BACKEND_EXTRA extra; } vp_be_s;
#define vp_be vp_be_s.be
#else
static struct hwloc_backend vp_be;
#endif
static struct hwloc_disc_component vp_comp;
static struct hwloc_backend vp_be_misc;      /* S14: a second backend with a MISC phase (runs inside hwloc_discover, before the KEEPSTRUCTURE reconnect) */

/* build seed `id` with topology flags `flags`; every type filter is KEEP_ALL unless VP_SEED_FILTER_HOOK tweaks it */
static struct hwloc_topology *vp_seed_build(int id, unsigned long flags)
{
  /* typed allocations zeroed by assignment: calloc's model yields an untyped byte array, which costs symex its
   * field sensitivity (topology->tma, ->levels ... would no longer be known values) */
#define VP_SNEW(T, p) do { (p) = malloc(sizeof(T)); VP_NONNULL(p); static const T vp_zero_; *(p) = vp_zero_; } while (0)
  struct hwloc_topology *t; VP_SNEW(struct hwloc_topology, t);
  memset(&vp_seed, 0, sizeof vp_seed);
  vp_seed_id = id; vp_seed_flags = flags;
  VP_SNEW(struct hwloc_topology_discovery_support, t->support.discovery);
  VP_SNEW(struct hwloc_topology_cpubind_support, t->support.cpubind);
  VP_SNEW(struct hwloc_topology_membind_support, t->support.membind);
  VP_SNEW(struct hwloc_topology_misc_support, t->support.misc);
  t->topology_abi = HWLOC_TOPOLOGY_ABI;
  t->nb_levels_allocated = 16;
  t->levels = malloc(16 * sizeof(*t->levels));
  t->level_nbobjects = malloc(16 * sizeof(*t->level_nbobjects));
  VP_NONNULL(t->levels); VP_NONNULL(t->level_nbobjects);
  for (unsigned i_ = 0; i_ < 16; i_++) { t->levels[i_] = NULL; t->level_nbobjects[i_] = 0; }
  hwloc__topology_filter_init(t);
  /* default filters, plus I/O and Misc kept so that S2 can carry them */
  t->type_filter[HWLOC_OBJ_BRIDGE] = t->type_filter[HWLOC_OBJ_PCI_DEVICE] = t->type_filter[HWLOC_OBJ_OS_DEVICE] = t->type_filter[HWLOC_OBJ_MISC] = HWLOC_TYPE_FILTER_KEEP_ALL;
  if (id == 5) t->type_filter[HWLOC_OBJ_MEMCACHE] = HWLOC_TYPE_FILTER_KEEP_ALL;
  if (id == 6 || id == 7 || id == 14) t->type_filter[HWLOC_OBJ_L2CACHE] = HWLOC_TYPE_FILTER_KEEP_STRUCTURE;
#ifdef VP_SEED_FILTER_HOOK
  VP_SEED_FILTER_HOOK(t);
#endif
  hwloc_internal_distances_init(t);
  hwloc_internal_memattrs_init(t);
#ifdef VP_SEED_MEMATTRS_PREPARE
  hwloc_internal_memattrs_prepare(t);       /* the built-in attributes, as hwloc_topology_load() does unless NO_MEMATTRS is set */
#endif
  hwloc_internal_cpukinds_init(t);
  hwloc_topology_setup_defaults(t);
  t->state = HWLOC_TOPOLOGY_STATE_IS_LOADING;
  t->flags = flags;
  if (id < 200) hwloc_alloc_root_sets(t->levels[0][0]);
  vp_seed.obj[vp_seed.nobj++] = t->levels[0][0];
  vp_comp.name = id >= 200 ? "xml" : "vpseed";      /* the core treats the XML backend specially (no hwlocVersion/ProcessName infos, no memory-tier guess) */ vp_be.component = &vp_comp; vp_be.topology = t;
  vp_be.phases = HWLOC_DISC_PHASE_GLOBAL; vp_be.discover = vp_seed_discover;
  t->backends = &vp_be; t->backend_phases = HWLOC_DISC_PHASE_GLOBAL; vp_be.next = NULL;
  if (id == 14) { vp_be_misc.component = &vp_comp; vp_be_misc.topology = t; vp_be_misc.phases = HWLOC_DISC_PHASE_MISC; vp_be_misc.discover = vp_seed_discover_io; vp_be_misc.next = NULL;
    vp_be.next = &vp_be_misc; t->backend_phases |= HWLOC_DISC_PHASE_MISC; }
  if (vp_seed_prepare_only) { t->state = HWLOC_TOPOLOGY_STATE_IS_INIT; vp_seed.topology = t; return t; }      /* what hwloc_topology_init + set_xml... leave: the caller runs the real hwloc_topology_load */
  struct hwloc_disc_status ds; memset(&ds, 0, sizeof ds);
  int err = hwloc_discover(t, &ds);
  vp_seed_err = err;
  if (id >= 200 && err < 0) { vp_seed.topology = t; return t; }      /* a backend that may refuse its input: the caller looks at vp_seed_err */
  VP_ASSUME(err == 0);
  if (id == 2 || id == 11 || id == 13 || (id >= 100 && id < 200)) {
    /* IO/Misc attachment + reconnect, exactly what the later discovery phases do */
    vp_seed_discover_io(&vp_be, &ds);
    err = hwloc__reconnect(t, 0);
    VP_ASSUME(err == 0);
  }
  t->state = HWLOC_TOPOLOGY_STATE_IS_LOADED;
  t->backends = NULL; t->backend_phases = 0;
  vp_seed.topology = t;
  vp_seed.cpus = vp_w(t->levels[0][0]->cpuset);
  vp_seed.nodes = vp_w(t->levels[0][0]->nodeset);
  return t;
}
#endif
