/* C19 (write/adopt units) — hwloc/shmem.c itself, with the duplication it delegates to replaced by a contract model.
 * Real code: hwloc/shmem.c (textually included): get_length, write, adopt, disadopt, the two tma allocators;
 * hwloc_topology_allow / hwloc_topology_destroy (topology.c, linked) on the adopted copy.
 * hwloc__topology_dup is a MODEL here: it performs NREQ allocator requests of symbolic sizes through the tma it is given
 * (the first one for the topology structure, as the real one does) — what the real dup requests and writes is the
 * subject of dup_blocks (every block exactly as large as requested) and of the C12 harnesses. What is decided here is
 * the composition around it: the length announced by get_length covers header + every block the write pass hands out,
 * for ANY request sequence; the header; which topology gets refreshed; unmapping; adoption.
 */
#include "private/autogen/config.h"
#include "hwloc.h"
#include "private/private.h"
#include "private/misc.h"
#include <string.h>
#include <assert.h>
#include <errno.h>
#include "vp_mini.h"
#include <sys/mman.h>
#include <unistd.h>
#define vp_w vp_mw

#ifndef PAGESZ
#define PAGESZ 8
#endif
#ifndef NREQ
#define NREQ 4
#endif
/* ---- OS model ------------------------------------------------------------------------------------------------ */
static char *vp_region; static int vp_mmap_mode; static int vp_mmaps, vp_munmaps; static void *vp_unmapped; static size_t vp_unmapped_len; static char vp_other[64];
/* the first bytes of the file, kept as the typed header (a pointer that travels through a byte array as an integer comes
 * back as an unknown for symex; as a typed field it stays the same expression) */
struct vp_hdr { uint32_t header_version; uint32_t header_length; uint64_t mmap_address; uint64_t mmap_length; };
static struct vp_hdr vp_file; static int vp_components;
static int vp_clobbered; static int vp_lseek_fail, vp_write_short, vp_trunc_fail; static off_t vp_lseek_off, vp_trunc_len;
#ifdef VP_CBMC
#define OSFN(n) n
/* MAP_FAILED is (void *) -1: symex cannot decide "address of an object == integer cast to a pointer", so every mmap result
 * would stay "possibly failed" and everything after it conditional. The model's failure value is the address of a
 * dedicated object instead: comparisons with real objects are then decided syntactically. */
static char vp_map_failed;
#undef MAP_FAILED
#define MAP_FAILED ((void *) &vp_map_failed)
#else
#define OSFN(n) vp_os_##n
#define sysconf vp_os_sysconf
#define lseek vp_os_lseek
#define write vp_os_write
#define read vp_os_read
#define ftruncate vp_os_ftruncate
#define mmap vp_os_mmap
#define munmap vp_os_munmap
#endif
long OSFN(sysconf)(int name) { (void) name; return PAGESZ; }
off_t OSFN(lseek)(int fd, off_t off, int wh) { (void) fd; (void) wh; vp_lseek_off = off; return vp_lseek_fail ? -1 : off; }
ssize_t OSFN(write)(int fd, const void *buf, size_t n) { (void) fd; if (n == sizeof vp_file) vp_file = *(const struct vp_hdr *) buf; return vp_write_short ? 7 : (ssize_t) n; }
ssize_t OSFN(read)(int fd, void *buf, size_t n) { (void) fd; if (n == sizeof vp_file) *(struct vp_hdr *) buf = vp_file; return (ssize_t) n; }
int OSFN(ftruncate)(int fd, off_t len) { (void) fd; vp_trunc_len = len; return vp_trunc_fail ? -1 : 0; }
void *OSFN(mmap)(void *addr, size_t len, int prot, int fl, int fd, off_t off)
{ (void) prot; (void) fd; (void) off; (void) len; vp_mmaps++;
  /* MAP_FIXED: the kernel maps at the requested address whatever was there (and destroys it): "placed elsewhere" cannot happen */
  if ((fl & MAP_FIXED) && vp_mmap_mode == 1) { vp_clobbered++; return addr; }
  return vp_mmap_mode == 0 ? (void *) vp_region : vp_mmap_mode == 1 ? (void *) vp_other : MAP_FAILED; }
int OSFN(munmap)(void *addr, size_t len) { vp_munmaps++; vp_unmapped = addr; vp_unmapped_len = len; return 0; }

/* ---- library environment: recorders ---------------------------------------------------------------------------- */
static struct hwloc_topology *vp_dist_refreshed[4], *vp_mem_refreshed[4]; static unsigned vp_ndist, vp_nmem; static int vp_destroyed;
void hwloc_components_init(void) { vp_components++; }
void hwloc_components_fini(void) { vp_components--; }
void hwloc_set_binding_hooks(struct hwloc_topology *t) { (void) t; }
void hwloc_internal_distances_refresh(struct hwloc_topology *t) { if (vp_ndist < 4) vp_dist_refreshed[vp_ndist] = t; vp_ndist++; }
void hwloc_internal_memattrs_refresh(struct hwloc_topology *t) { if (vp_nmem < 4) vp_mem_refreshed[vp_nmem] = t; vp_nmem++; }
#ifdef VP_CBMC
int hwloc_hide_errors(void) { return 2; }
char *getenv(const char *n) { (void) n; return 0; }
void hwloc_backends_disable_all(struct hwloc_topology *t) { (void) t; }
void hwloc_topology_components_fini(struct hwloc_topology *t) { (void) t; }
void hwloc_internal_distances_destroy(struct hwloc_topology *t) { (void) t; }
void hwloc_internal_memattrs_destroy(struct hwloc_topology *t) { (void) t; }
void hwloc_internal_cpukinds_destroy(struct hwloc_topology *t) { (void) t; }
int hwloc_internal_cpukinds_rank(struct hwloc_topology *t) { (void) t; return 0; }      /* reached when the writer goes through hwloc_topology_refresh() */
void hwloc_pci_discovery_exit(struct hwloc_topology *t) { (void) t; }
#endif

/* ---- the dup contract model ------------------------------------------------------------------------------------ */
static size_t vp_req[NREQ]; static unsigned vp_nreq; static void *vp_blk[NREQ]; static int vp_dup_fail; static struct hwloc_topology *vp_dup_result; static unsigned vp_dups;
static unsigned long vp_src_flags;      /* topology flags of the original: the real dup copies them (NO_DISTANCES / NO_MEMATTRS do not prevent users from adding such data later) */
static int vp_dup_model(hwloc_topology_t *newp, hwloc_topology_t old, struct hwloc_tma *tma)
{
  (void) old; vp_dups++;
  if (vp_dup_fail) return -1;
  for (unsigned i = 0; i < NREQ; i++) if (i < vp_nreq) { vp_blk[i] = tma->malloc(tma, vp_req[i]); if (!vp_blk[i]) return -1; }
  struct hwloc_topology *n = vp_blk[0];
  n->flags = vp_src_flags;
  hwloc_components_init();        /* the real dup initialises the copy, which takes a reference on the component registry */
  vp_dup_result = n;
  *newp = n;
  return 0;
}
/* in the length pass the real destroy frees what dup allocated: the model's blocks are plain mallocs there */
static void vp_destroy_model(hwloc_topology_t t) { (void) t; vp_destroyed++; hwloc_components_fini(); for (unsigned i = 0; i < NREQ; i++) if (i < vp_nreq) free(vp_blk[i]); }
#define hwloc__topology_dup vp_dup_model
#define hwloc_topology_destroy vp_destroy_model
#ifdef VP_CBMC
/* memcpy(new, old, sizeof(*old)) between two topology structures is executed as a structure assignment (same
 * semantics): a 936-byte word-by-word copy into a typed structure leaves symex with a 117-deep update chain per field
 * and no known pointer afterwards */
static void *vp_copy_topology(void *d, const void *s_, size_t n) { (void) n; *(struct hwloc_topology *) d = *(const struct hwloc_topology *) s_; return d; }
#define memcpy(d, s_, n) ((n) == sizeof(struct hwloc_topology) ? vp_copy_topology((d), (s_), (n)) : (memcpy)((d), (s_), (n)))
#endif
#include "hwloc/shmem.c"
#ifdef VP_CBMC
#undef memcpy
#endif
#undef hwloc__topology_dup
#undef hwloc_topology_destroy

/* ---- get_length + write around ANY request sequence ------------------------------------------------------------------ */
VP_HARNESS(h_write)
{
  static struct hwloc_topology src;         /* only its address and flags matter to shmem.c; dup is the model */
  { unsigned long f = vp_in_range(0, 3); vp_src_flags = (f & 1 ? HWLOC_TOPOLOGY_FLAG_NO_DISTANCES : 0) | (f & 2 ? HWLOC_TOPOLOGY_FLAG_NO_MEMATTRS : 0); src.flags = vp_src_flags; }
  vp_nreq = (unsigned) vp_in_range(1, NREQ);
  vp_req[0] = sizeof(struct hwloc_topology);
  for (unsigned i = 1; i < NREQ; i++) { vp_req[i] = (size_t) vp_in64(); VP_ASSUME(vp_req[i] <= 4096); }
  unsigned long flags = vp_in64(); VP_ASSUME(flags <= 1);
  size_t len = 0;
  errno = 0;
  int r = hwloc_shmem_topology_get_length(&src, &len, flags);
  if (flags) { VP_CHECK(r == -1 && errno == EINVAL && vp_dups == 0, "get_length: non-zero flags -> EINVAL"); return; }
  VP_CHECK(r == 0 && vp_destroyed == 1, "get_length succeeds and releases its scratch copy");
  size_t need = 24; for (unsigned i = 0; i < NREQ; i++) if (i < vp_nreq) need += (vp_req[i] + 7) & ~(size_t) 7;
  VP_CHECK(len >= need && len % PAGESZ == 0 && len < need + PAGESZ, "get_length = header + every request rounded to 8, rounded up to a page");
  /* the mapping: exactly len bytes */
  vp_region = malloc(len); VP_NONNULL(vp_region);
  vp_mmap_mode = (int) vp_in_range(0, 2); vp_lseek_fail = vp_in_bool(); vp_write_short = vp_in_bool(); vp_trunc_fail = vp_in_bool();
  unsigned long wflags = vp_in64(); VP_ASSUME(wflags <= 1);
  uint64_t fileoffset = (uint64_t) vp_in_range(0, 4) * 4096;
  vp_ndist = vp_nmem = 0; vp_dups = 0; vp_munmaps = 0;
  int comp_before = vp_components;
  errno = 0;
  r = hwloc_shmem_topology_write(&src, 3, fileoffset, vp_region, len, wflags);
  if (wflags) { VP_CHECK(r == -1 && errno == EINVAL && vp_mmaps == 0, "write: non-zero flags -> EINVAL before touching the file"); return; }
  if (vp_lseek_fail || vp_write_short || vp_trunc_fail || vp_mmap_mode == 2) { VP_CHECK(r == -1 && vp_dups == 0, "write: a failing lseek/write/ftruncate/mmap is reported, nothing is duplicated"); return; }
  if (vp_mmap_mode == 1) { VP_CHECK(r == -1 && errno == EBUSY && vp_munmaps == 1 && vp_unmapped == (void *) vp_other && vp_dups == 0, "write: the kernel placed the mapping elsewhere -> EBUSY, stray mapping released"); return; }
  VP_CHECK(r == 0, "write succeeds");
  struct vp_hdr h = vp_file;
  VP_CHECK(h.header_version == HWLOC_SHMEM_HEADER_VERSION && h.header_length == 24 && h.mmap_address == (uintptr_t) vp_region && h.mmap_length == len, "write: the file header records version, header length, address and length");
  VP_CHECK((uint64_t) vp_lseek_off == fileoffset && (uint64_t) vp_trunc_len == fileoffset + len, "write: header at the file offset, file sized to offset + length");
  /* every block handed out lies inside [region+24, region+len) and blocks do not overlap */
  VP_CHECK((char *) vp_blk[0] == vp_region + 24, "write: the topology structure is the first block, right after the header");
  for (unsigned i = 0; i < NREQ; i++) if (i < vp_nreq) {
    VP_CHECK((char *) vp_blk[i] >= vp_region + 24 && (char *) vp_blk[i] + vp_req[i] <= vp_region + len, "write: every block of the stored copy lies inside the mapping of the announced length");
    if (i + 1 < vp_nreq) VP_CHECK((char *) vp_blk[i] + vp_req[i] <= (char *) vp_blk[i + 1], "write: blocks do not overlap");
  }
  /* the stored copy must be usable without writing: its distances and memory attributes are refreshed by the writer */
  VP_CHECK(vp_ndist >= 1 && vp_dist_refreshed[vp_ndist - 1] == vp_dup_result, "write: distances of the STORED copy are refreshed after duplication");
  VP_CHECK(vp_nmem >= 1 && vp_mem_refreshed[vp_nmem - 1] == vp_dup_result, "write: memory attributes of the STORED copy are refreshed after duplication (adopters cannot refresh a read-only mapping)");
  VP_CHECK(vp_munmaps == 1 && vp_unmapped == (void *) vp_region && vp_unmapped_len == len, "write: the writer's mapping is released once");
  VP_CHECK(vp_clobbered == 0, "write never maps over an address range that is already in use (no MAP_FIXED)");
  VP_CHECK(vp_components == comp_before, "write: component reference count balanced");
  VP_WITNESS_IF(vp_nreq == NREQ && vp_req[1] == 13 && fileoffset == 8192, "a successful write of NREQ blocks with an odd request size at a non-zero file offset");
}

/* ---- adopt: validation, private copies, allow(), destroy ------------------------------------------------------------- */
struct vp_stored { char hdr[24]; struct hwloc_topology topo; };
#ifndef VALID
#define VALID 0       /* 1: a concrete matching header and a cooperative kernel (the success path: the adopted pointer must be a
                         known value for symex, not "new or untouched"); 0: everything about the call symbolic, failures only */
#endif
VP_HARNESS(h_adopt)
{
  struct hwloc_topology *t = vp_mini_build();
  t->flags |= HWLOC_TOPOLOGY_FLAG_INCLUDE_DISALLOWED;
  unsigned long alc = vp_in64(), aln = vp_in64(); VP_ASSUME(alc && !(alc & ~0x27UL) && aln && !(aln & ~0x3UL));
  hwloc_bitmap_from_ulong(t->allowed_cpuset, alc); hwloc_bitmap_from_ulong(t->allowed_nodeset, aln);
  struct vp_stored *st = malloc(sizeof *st); VP_NONNULL(st);
  st->topo = *t;                                     /* the stored copy (its objects live wherever dup put them) */
  vp_region = (char *) st;
  struct vp_hdr h;
#if VALID
  size_t len = (sizeof *st + PAGESZ - 1) & ~(size_t) (PAGESZ - 1); unsigned long flags = 0; unsigned abi = HWLOC_TOPOLOGY_ABI;
  h.header_version = HWLOC_SHMEM_HEADER_VERSION; h.header_length = 24; h.mmap_address = (uintptr_t) st; h.mmap_length = len; vp_mmap_mode = 0;
#else
  /* the address field either matches the mapping or is arbitrary: chosen by a boolean so that a counterexample can be
   * replayed natively (a raw symbolic value that must equal a pointer has no native counterpart) */
  h.header_version = vp_in_uint(); h.header_length = vp_in_uint(); { int am = vp_in_bool(); uint64_t other = vp_in64(); h.mmap_address = am ? (uint64_t) (uintptr_t) st : other; } h.mmap_length = vp_in64();
  unsigned long flags = vp_in64(); VP_ASSUME(flags <= 1);
  size_t len = (size_t) vp_in64();
  vp_mmap_mode = (int) vp_in_range(0, 2);
  unsigned abi = vp_in_uint();
#endif
  vp_file = h;
  st->topo.topology_abi = abi;
  hwloc_topology_t a = (void *) 1;
  vp_mmaps = vp_munmaps = 0; vp_components = 0;
  errno = 0;
  int r = hwloc_shmem_topology_adopt(&a, 3, 0, st, len, flags);
#if !VALID
  int hdr_ok = h.header_version == HWLOC_SHMEM_HEADER_VERSION && h.header_length == 24 && h.mmap_address == (uintptr_t) st && h.mmap_length == len;
  if (flags || !hdr_ok) VP_CHECK(r == -1 && errno == EINVAL && vp_mmaps == 0 && a == (void *) 1, "adopt: non-zero flags or a header that does not match address/length -> EINVAL before mapping anything");
  else if (vp_mmap_mode == 2) VP_CHECK(r == -1 && vp_munmaps == 0 && a == (void *) 1, "adopt: mmap failure is reported");
  else if (vp_mmap_mode == 1) VP_CHECK(r == -1 && errno == EBUSY && vp_munmaps == 1 && vp_unmapped == (void *) vp_other && a == (void *) 1, "adopt: an unavailable address range -> EBUSY and the stray mapping is released");
  else if (abi != HWLOC_TOPOLOGY_ABI) VP_CHECK(r == -1 && errno == EINVAL && vp_munmaps == 1 && vp_components == 0 && a == (void *) 1, "adopt: incompatible ABI -> EINVAL, mapping released");
  else VP_CHECK(r == 0 && a != NULL && a != (void *) 1 && a != &st->topo && vp_components == 1, "adopt succeeds with a private topology structure");
  VP_CHECK(vp_clobbered == 0, "adopt never maps over an address range that is already in use (no MAP_FIXED)");
  VP_WITNESS_IF(r == 0, "a matching header adopted");
  VP_WITNESS_IF(r == -1 && errno == EBUSY, "address range unavailable");
  VP_WITNESS_IF(r == -1 && hdr_ok && !flags && vp_mmap_mode == 0, "ABI mismatch");
#else
  VP_CHECK(r == 0 && a != NULL && a != (void *) 1 && a != &st->topo, "adopt succeeds with a private topology structure");
  VP_CHECK(a->adopted_shmem_addr == (void *) st && a->adopted_shmem_length == len && a->tma == NULL && a->userdata_export_cb == NULL && a->userdata_import_cb == NULL, "adopt: mapping remembered, writer-side pointers cleared");
  VP_CHECK(a->support.cpubind != st->topo.support.cpubind && a->support.discovery != st->topo.support.discovery && a->support.membind != st->topo.support.membind && a->support.misc != st->topo.support.misc, "adopt: support arrays are private copies");
  VP_CHECK(a->levels == st->topo.levels && a->levels[0][0] == t->levels[0][0], "adopt: objects are shared with the mapping");
  /* allow() is documented to work on an adopted topology loaded with INCLUDE_DISALLOWED; the mapping is read-only */
  hwloc_bitmap_t stored_c = st->topo.allowed_cpuset, stored_n = st->topo.allowed_nodeset;
  VP_CHECK(vp_w(stored_c) == alc && vp_w(stored_n) == aln, "the stored copy carries the restricted allowed sets");
  r = hwloc_topology_allow(a, NULL, NULL, HWLOC_ALLOW_FLAG_ALL);
  VP_CHECK(r == 0 && vp_w(a->allowed_cpuset) == 0x27 && vp_w(a->allowed_nodeset) == 0x3, "allow(ALL) works on the adopted topology");
  VP_CHECK(vp_w(stored_c) == alc && vp_w(stored_n) == aln && st->topo.allowed_cpuset == stored_c && st->topo.allowed_nodeset == stored_n, "allow() on an adopted topology does not write into the (read-only, shared) mapping");
  vp_munmaps = 0;
  hwloc_topology_destroy(a);
  VP_CHECK(vp_munmaps == 1 && vp_unmapped == (void *) st && vp_unmapped_len == len && vp_components == 0, "destroy of an adopted topology unmaps its mapping exactly once and releases the components");
  VP_CHECK(vp_w(stored_c) == alc && vp_w(t->levels[0][0]->cpuset) == 0x27 && st->topo.levels == t->levels, "destroy of an adopted topology leaves the mapping's content alone");
  VP_WITNESS_IF(alc == 0x25, "adopt, allow and destroy run with PU#1 disallowed in the stored copy");
#endif
}
