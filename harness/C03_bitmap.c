/* C03 — bitmap operations implement exact finite/cofinite set semantics.
 * Real code: every function of hwloc/bitmap.c except the string conversions (those are C04).
 * A symbolic bitmap is ANY representation allowed by the invariant of struct hwloc_bitmap_s:
 * 1 <= ulongs_count <= NW, ulongs_allocated = 8 (what hwloc_bitmap_alloc() gives), arbitrary words
 * (including arbitrary junk in the allocated-but-unused words), infinite in {0,1}.
 * Abstraction: alpha(b)[i] = i < count ? ulongs[i] : (infinite ? ~0 : 0) for i in [0,W) plus the tail flag.
 * Every oracle below is written on alpha only.
 */
#include "vp.h"
#include "hwloc/bitmap.c"

#ifndef NW
#define NW 2
#endif
#define ALLOC 8             /* HWLOC_BITMAP_PREALLOC_ULONGS */
#define W (ALLOC + 1)       /* abstraction window: every word an in-bound operation can make explicit, +1 */
#define MAXIDX (ALLOC * 64) /* indexes below this never need realloc (growth is its own harness) */

struct alpha { unsigned long w[W]; int inf; };

static struct hwloc_bitmap_s *mk(void)
{
  struct hwloc_bitmap_s *s = malloc(sizeof(*s));
  VP_NONNULL(s);
  s->ulongs = malloc(ALLOC * sizeof(unsigned long));
  VP_NONNULL(s->ulongs);
  s->ulongs_count = (unsigned) vp_in_range(1, NW);
  s->ulongs_allocated = ALLOC;
  for (unsigned i = 0; i < ALLOC; i++) s->ulongs[i] = vp_in64(); /* words >= count are arbitrary junk */
  s->infinite = vp_in_bool();
  return s;
}

static void abs_of(const struct hwloc_bitmap_s *s, struct alpha *a)
{
  for (unsigned i = 0; i < W; i++)
    a->w[i] = i < s->ulongs_count ? s->ulongs[i] : (s->infinite ? ~0UL : 0UL);
  a->inf = s->infinite;
}

static void check_repr(const struct hwloc_bitmap_s *s)
{
  VP_CHECK(s->ulongs_count >= 1, "representation: count >= 1");
  VP_CHECK(s->ulongs_count <= s->ulongs_allocated, "representation: count <= allocated");
  VP_CHECK(s->infinite == 0 || s->infinite == 1, "representation: infinite is 0/1");
}

static int a_isset(const struct alpha *a, unsigned long i)
{ return i < 64UL * W ? (int)((a->w[i / 64] >> (i % 64)) & 1) : a->inf; }

static int a_equal(const struct alpha *a, const struct alpha *b)
{ for (unsigned i = 0; i < W; i++) if (a->w[i] != b->w[i]) return 0; return a->inf == b->inf; }
static int a_included(const struct alpha *a, const struct alpha *b)
{ for (unsigned i = 0; i < W; i++) if (a->w[i] & ~b->w[i]) return 0; return !(a->inf && !b->inf); }
static int a_intersects(const struct alpha *a, const struct alpha *b)
{ for (unsigned i = 0; i < W; i++) if (a->w[i] & b->w[i]) return 1; return a->inf && b->inf; }
static int a_empty(const struct alpha *a)
{ for (unsigned i = 0; i < W; i++) if (a->w[i]) return 0; return !a->inf; }
static int a_full(const struct alpha *a)
{ for (unsigned i = 0; i < W; i++) if (~a->w[i]) return 0; return a->inf; }

/* no index below r is in (cmpl ? complement of a : a) */
static int a_none_below(const struct alpha *a, unsigned long r, int cmpl)
{
  for (unsigned i = 0; i < W; i++) {
    unsigned long w = cmpl ? ~a->w[i] : a->w[i];
    if (i < r / 64) { if (w) return 0; }
    else if (i == r / 64) { if (r % 64 && (w & (~0UL >> (64 - r % 64)))) return 0; }
  }
  return 1;
}
/* no index in (p, r) exclusive is in the (complemented) set; p may be -1 */
static int a_none_between(const struct alpha *a, long p, unsigned long r, int cmpl)
{
  for (unsigned i = 0; i < W; i++) {
    unsigned long w = cmpl ? ~a->w[i] : a->w[i];
    unsigned long lo = 64UL * i, m = ~0UL;
    /* keep bits with index > p */
    if (p >= 0) { if ((unsigned long) p >= lo + 63) m = 0; else if ((unsigned long) p >= lo) m &= ~0UL << ((unsigned long) p - lo + 1); }
    /* keep bits with index < r */
    if (r <= lo) m = 0; else if (r < lo + 64) m &= ~0UL >> (64 - (r - lo));
    if (w & m) return 0;
  }
  return 1;
}
/* no index above r is in the (complemented) set (tail included) */
static int a_none_above(const struct alpha *a, unsigned long r, int cmpl)
{
  if (cmpl ? !a->inf : a->inf) return 0;
  for (unsigned i = 0; i < W; i++) {
    unsigned long w = cmpl ? ~a->w[i] : a->w[i];
    if (i > r / 64) { if (w) return 0; }
    else if (i == r / 64) { if (r % 64 != 63 && (w & (~0UL << (r % 64 + 1)))) return 0; }
  }
  return 1;
}
static int popc(unsigned long x)
{
  x = x - ((x >> 1) & 0x5555555555555555UL);
  x = (x & 0x3333333333333333UL) + ((x >> 2) & 0x3333333333333333UL);
  x = (x + (x >> 4)) & 0x0f0f0f0f0f0f0f0fUL;
  return (int)((x * 0x0101010101010101UL) >> 56);
}
/* mask of the indexes of word i that lie inside [begin, end] (end == -1: to infinity; (unsigned) end < begin: empty) */
static unsigned long range_mask(unsigned i, unsigned begin, int end)
{
  unsigned uend = (unsigned) end; unsigned long lo = 64UL * i, first, last;
  if (uend < begin) return 0;
  if (begin > lo + 63) return 0;
  first = begin > lo ? begin - lo : 0;
  if (end == -1 || uend >= lo + 63) last = 63;
  else if (uend >= lo) last = uend - lo;
  else return 0;
  if (first > last) return 0;
  return (~0UL << first) & (~0UL >> (63 - last));
}
static int sgn(int x) { return x < 0 ? -1 : x > 0; }

/* -------------------------------------------------------------------------------------------- */
/* binary combinators: OP 0 or, 1 and, 2 andnot, 3 xor. ALIAS symbolic: 0 fresh, 1 res=a, 2 res=b, 3 a=b, 4 res=a=b */
#ifndef OP
#define OP 0
#endif
VP_HARNESS(h_binop)
{
  struct hwloc_bitmap_s *a = mk(), *b = mk(), *r;
  unsigned alias = (unsigned) vp_in_range(0, 4);
  if (alias >= 3) b = a;
  struct alpha A, B, R, A2, B2;
  abs_of(a, &A); abs_of(b, &B);
  if (alias == 1 || alias == 4) r = a; else if (alias == 2) r = b; else r = mk();
  VP_SYMBOLIC_PHASE(1);
  int err =
#if OP == 0
    hwloc_bitmap_or(r, a, b);
#elif OP == 1
    hwloc_bitmap_and(r, a, b);
#elif OP == 2
    hwloc_bitmap_andnot(r, a, b);
#else
    hwloc_bitmap_xor(r, a, b);
#endif
  VP_CHECK(err == 0, "binop returns 0 (no allocation failure inside the bound)");
  check_repr(r);
  abs_of(r, &R);
  for (unsigned i = 0; i < W; i++) {
#if OP == 0
    unsigned long e = A.w[i] | B.w[i];
#elif OP == 1
    unsigned long e = A.w[i] & B.w[i];
#elif OP == 2
    unsigned long e = A.w[i] & ~B.w[i];
#else
    unsigned long e = A.w[i] ^ B.w[i];
#endif
    VP_CHECK(R.w[i] == e, "binop: every word of the result is the word-wise operation");
  }
#if OP == 0
  VP_CHECK(R.inf == (A.inf | B.inf), "binop tail");
#elif OP == 1
  VP_CHECK(R.inf == (A.inf & B.inf), "binop tail");
#elif OP == 2
  VP_CHECK(R.inf == (A.inf & !B.inf), "binop tail");
#else
  VP_CHECK(R.inf == (A.inf ^ B.inf), "binop tail");
#endif
  /* operands that are not the destination keep their value */
  if (r != a) { abs_of(a, &A2); VP_CHECK(a_equal(&A, &A2), "binop: operand 1 unchanged"); }
  if (r != b) { abs_of(b, &B2); VP_CHECK(a_equal(&B, &B2), "binop: operand 2 unchanged"); }
  VP_WITNESS_IF(alias == 2 && a->ulongs_count != b->ulongs_count && A.inf != B.inf && R.w[0] != 0, "aliased destination, different counts and tails");
}

/* -------------------------------------------------------------------------------------------- */
/* unary / constructors. UOP: 0 not 1 copy 2 dup 3 zero 4 fill 5 only 6 allbut 7 from_ulong 8 from_ith_ulong
 * 9 from_ulongs 10 set_ith_ulong 11 to_ulong/to_ith_ulong/to_ulongs 12 singlify 13 alloc/alloc_full */
#ifndef UOP
#define UOP 0
#endif
VP_HARNESS(h_unop)
{
  struct hwloc_bitmap_s *a = mk(), *r;
  struct alpha A, R, A2;
  abs_of(a, &A);
  /* in-place use is documented for hwloc_bitmap_not only ("res can be the same as bitmap") */
  int alias = UOP == 0 ? vp_in_bool() : 0;
  r = alias ? a : mk();
  VP_SYMBOLIC_PHASE(1);
#if UOP == 0
  VP_CHECK(hwloc_bitmap_not(r, a) == 0, "not returns 0");
  check_repr(r); abs_of(r, &R);
  for (unsigned i = 0; i < W; i++) VP_CHECK(R.w[i] == ~A.w[i], "not: complement of every word");
  VP_CHECK(R.inf == !A.inf, "not: tail complemented");
  VP_WITNESS_IF(alias && A.inf && a->ulongs_count == NW, "not in place on an infinite set");
#elif UOP == 1
  VP_CHECK(hwloc_bitmap_copy(r, a) == 0, "copy returns 0");
  check_repr(r); abs_of(r, &R);
  VP_CHECK(a_equal(&R, &A), "copy: equal set");
  abs_of(a, &A2); VP_CHECK(a_equal(&A, &A2), "copy: source unchanged");
  VP_WITNESS_IF(!alias && A.inf && A.w[0] == 5, "copy of an infinite set");
#elif UOP == 2
  r = hwloc_bitmap_dup(a);
  VP_CHECK(r != NULL && r != a && r->ulongs != a->ulongs, "dup: fresh storage");
  check_repr(r); abs_of(r, &R);
  VP_CHECK(a_equal(&R, &A), "dup: equal set");
  r->ulongs[0] ^= 1UL; abs_of(a, &A2);
  VP_CHECK(a_equal(&A, &A2), "dup: original independent of the copy");
  VP_WITNESS_IF(A.inf && a->ulongs_count == NW, "dup of an infinite set");
#elif UOP == 3
  hwloc_bitmap_zero(r); check_repr(r); abs_of(r, &R);
  VP_CHECK(a_empty(&R), "zero: empty set");
  VP_WITNESS_IF(A.inf, "zero of an infinite set");
#elif UOP == 4
  hwloc_bitmap_fill(r); check_repr(r); abs_of(r, &R);
  VP_CHECK(a_full(&R), "fill: full set");
  VP_WITNESS_IF(!A.inf, "fill of a finite set");
#elif UOP == 5 || UOP == 6
  unsigned cpu = vp_in_uint(); VP_ASSUME(cpu < MAXIDX);
  int err = UOP == 5 ? hwloc_bitmap_only(r, cpu) : hwloc_bitmap_allbut(r, cpu);
  VP_CHECK(err == 0, "only/allbut returns 0");
  check_repr(r); abs_of(r, &R);
  for (unsigned i = 0; i < W; i++) {
    unsigned long e = i == cpu / 64 ? 1UL << (cpu % 64) : 0UL;
    VP_CHECK(R.w[i] == (UOP == 5 ? e : ~e), "only/allbut: exact words");
  }
  VP_CHECK(R.inf == (UOP == 6), "only/allbut: tail");
  VP_WITNESS_IF(cpu == 511 && A.inf, "only/allbut at the preallocation boundary");
#elif UOP == 7
  unsigned long m = vp_in64();
  VP_CHECK(hwloc_bitmap_from_ulong(r, m) == 0, "from_ulong returns 0");
  check_repr(r); abs_of(r, &R);
  VP_CHECK(R.w[0] == m && !R.inf, "from_ulong: first word");
  for (unsigned i = 1; i < W; i++) VP_CHECK(R.w[i] == 0, "from_ulong: nothing else");
  VP_WITNESS_IF(A.inf && a->ulongs_count == NW, "from_ulong over an infinite set");
#elif UOP == 8
  unsigned long m = vp_in64(); unsigned k = (unsigned) vp_in_range(0, ALLOC - 1);
  VP_CHECK(hwloc_bitmap_from_ith_ulong(r, k, m) == 0, "from_ith_ulong returns 0");
  check_repr(r); abs_of(r, &R);
  for (unsigned i = 0; i < W; i++) VP_CHECK(R.w[i] == (i == k ? m : 0UL), "from_ith_ulong: exact words");
  VP_CHECK(!R.inf, "from_ith_ulong: finite");
  VP_WITNESS_IF(k == ALLOC - 1 && A.inf, "from_ith_ulong at the last preallocated word");
#elif UOP == 9
  unsigned long masks[4]; unsigned nr = (unsigned) vp_in_range(0, 4);      /* 0 words: the empty set */
  for (unsigned i = 0; i < 4; i++) masks[i] = vp_in64();
  VP_CHECK(hwloc_bitmap_from_ulongs(r, nr, masks) == 0, "from_ulongs returns 0");
  check_repr(r); abs_of(r, &R);
  for (unsigned i = 0; i < W; i++) VP_CHECK(R.w[i] == (i < nr ? masks[i] : 0UL), "from_ulongs: exact words");
  VP_CHECK(!R.inf, "from_ulongs: finite");
  VP_WITNESS_IF(nr == 4 && A.inf, "from_ulongs with 4 words");
#elif UOP == 10
  unsigned long m = vp_in64(); unsigned k = (unsigned) vp_in_range(0, ALLOC - 1), oldcount = a->ulongs_count;
  VP_CHECK(hwloc_bitmap_set_ith_ulong(a, k, m) == 0, "set_ith_ulong returns 0");
  check_repr(a); abs_of(a, &R);
  for (unsigned i = 0; i < W; i++) VP_CHECK(R.w[i] == (i == k ? m : A.w[i]), "set_ith_ulong: only word k changes");
  VP_CHECK(R.inf == A.inf, "set_ith_ulong: tail unchanged");
  VP_WITNESS_IF(k > oldcount && A.inf, "set_ith_ulong beyond the explicit words of an infinite set");
#elif UOP == 11
  unsigned k = vp_in_uint();
  VP_CHECK(hwloc_bitmap_to_ulong(a) == A.w[0], "to_ulong");
  unsigned long e = k < W ? A.w[k] : (A.inf ? ~0UL : 0UL);
  VP_CHECK(hwloc_bitmap_to_ith_ulong(a, k) == e, "to_ith_ulong for any index");
  unsigned long masks[5]; unsigned nr = (unsigned) vp_in_range(0, 5);
  for (unsigned i = 0; i < 5; i++) masks[i] = 0x5a5a5a5aUL;
  VP_CHECK(hwloc_bitmap_to_ulongs(a, nr, masks) == 0, "to_ulongs returns 0");
  for (unsigned i = 0; i < 5; i++) VP_CHECK(masks[i] == (i < nr ? A.w[i] : 0x5a5a5a5aUL), "to_ulongs: exactly nr words written");
  abs_of(a, &A2); VP_CHECK(a_equal(&A, &A2), "to_*: argument unchanged");
  VP_WITNESS_IF(k > NW && A.inf && nr == 5, "to_ith_ulong in the tail");
#elif UOP == 12
  VP_CHECK(hwloc_bitmap_singlify(a) == 0, "singlify returns 0");
  check_repr(a); abs_of(a, &R);
  if (a_empty(&A)) VP_CHECK(a_empty(&R), "singlify: empty stays empty");
  else {
    int cnt = 0; for (unsigned i = 0; i < W; i++) cnt += popc(R.w[i]);
    VP_CHECK(cnt == 1 && !R.inf, "singlify: exactly one index");
    VP_CHECK(a_included(&R, &A), "singlify: the index belongs to the set");
    /* it is the first one */
    for (unsigned i = 0; i < W; i++) if (R.w[i]) {
      unsigned long below = R.w[i] - 1;
      VP_CHECK((A.w[i] & below) == 0, "singlify: lowest index of its word");
      for (unsigned j = 0; j < i; j++) VP_CHECK(A.w[j] == 0, "singlify: no lower word has a bit");
    }
  }
  VP_WITNESS_IF(A.inf && A.w[0] == 0 && A.w[1] == 0, "singlify of a set that only has its infinite tail");
#elif UOP == 13
  struct hwloc_bitmap_s *z = hwloc_bitmap_alloc(), *f = hwloc_bitmap_alloc_full();
  VP_CHECK(z && f, "alloc");
  check_repr(z); check_repr(f);
  abs_of(z, &R); VP_CHECK(a_empty(&R), "alloc: empty");
  abs_of(f, &R); VP_CHECK(a_full(&R), "alloc_full: full");
  hwloc_bitmap_free(z); hwloc_bitmap_free(f); hwloc_bitmap_free(NULL);
  VP_WITNESS("alloc/alloc_full/free");
#endif
  if (r != a) { abs_of(a, &A2);
#if UOP != 10 && UOP != 12
    VP_CHECK(a_equal(&A, &A2), "source operand unchanged");
#endif
  }
}

/* -------------------------------------------------------------------------------------------- */
/* single-index and range modifiers. ROP: 0 set 1 clr 2 set_range 3 clr_range 4 isset */
#ifndef ROP
#define ROP 0
#endif
VP_HARNESS(h_range)
{
  struct hwloc_bitmap_s *a = mk();
  struct alpha A, R;
  abs_of(a, &A);
  unsigned begin = vp_in_uint();
  int end = vp_in_int();
  VP_SYMBOLIC_PHASE(1);
#if ROP == 0 || ROP == 1
  /* an index that needs growth beyond the preallocation is the growth harness' business; an index in
   * the part that the tail already decides needs no growth and is allowed to be anything */
  int noop = ROP == 0 ? (A.inf && begin >= 64 * a->ulongs_count) : (!A.inf && begin >= 64 * a->ulongs_count);
  VP_ASSUME(noop || begin < MAXIDX);
  int err = ROP == 0 ? hwloc_bitmap_set(a, begin) : hwloc_bitmap_clr(a, begin);
  VP_CHECK(err == 0, "set/clr returns 0");
  check_repr(a); abs_of(a, &R);
  for (unsigned i = 0; i < W; i++) {
    unsigned long bit = (begin / 64 == i) ? 1UL << (begin % 64) : 0UL;
    VP_CHECK(R.w[i] == (ROP == 0 ? (A.w[i] | bit) : (A.w[i] & ~bit)), "set/clr: exactly that index changes");
  }
  VP_CHECK(R.inf == A.inf, "set/clr: tail unchanged");
  VP_WITNESS_IF(begin == 64 * NW && begin / 64 >= a->ulongs_count, "set/clr just beyond the explicit words");
#elif ROP == 2 || ROP == 3
  /* the range [begin,end] (end == -1: to infinity; end < begin as unsigned: empty) */
  unsigned uend = (unsigned) end;
  int tailsame = ROP == 2 ? A.inf : !A.inf;  /* the tail already has the value being written */
  if (uend >= begin) {
    if (end == -1) VP_ASSUME(begin < MAXIDX || (tailsame && begin >= 64 * a->ulongs_count));
    else VP_ASSUME(uend < MAXIDX || tailsame);
    if (end != -1 && tailsame) VP_ASSUME(begin < MAXIDX || begin >= 64 * a->ulongs_count);
  }
  int err = ROP == 2 ? hwloc_bitmap_set_range(a, begin, end) : hwloc_bitmap_clr_range(a, begin, end);
  VP_CHECK(err == 0, "set_range/clr_range returns 0");
  check_repr(a); abs_of(a, &R);
  for (unsigned i = 0; i < W; i++) {
    unsigned long m = range_mask(i, begin, end);
    VP_CHECK(R.w[i] == (ROP == 2 ? (A.w[i] | m) : (A.w[i] & ~m)), "set_range/clr_range: exactly the range changes");
  }
  if (uend >= begin && end == -1) VP_CHECK(R.inf == (ROP == 2), "infinite range sets the tail");
  else VP_CHECK(R.inf == A.inf, "finite or empty range keeps the tail");
  VP_WITNESS_IF(end == -1 && begin == 65 && !tailsame, "infinite range from inside the second word");
  VP_WITNESS_IF(end != -1 && begin == 63 && uend == 128 && !tailsame && A.w[1] == 4, "finite range over three words growing the set");
#else
  VP_CHECK(hwloc_bitmap_isset(a, begin) == a_isset(&A, begin), "isset for any index");
  abs_of(a, &R); VP_CHECK(a_equal(&A, &R), "isset: argument unchanged");
  VP_WITNESS_IF(begin > 64 * W && A.inf, "isset in the tail");
  (void) end;
#endif
}

/* -------------------------------------------------------------------------------------------- */
/* unary queries. QOP: 0 iszero/isfull 1 first 2 last 3 next 4 first_unset 5 last_unset 6 next_unset 7 weight 8 nr_ulongs */
#ifndef QOP
#define QOP 0
#endif
VP_HARNESS(h_query1)
{
  struct hwloc_bitmap_s *a = mk();
  struct alpha A, A2;
  abs_of(a, &A);
  VP_SYMBOLIC_PHASE(1);
#if QOP == 0
  VP_CHECK(hwloc_bitmap_iszero(a) == a_empty(&A), "iszero");
  VP_CHECK(hwloc_bitmap_isfull(a) == a_full(&A), "isfull");
  VP_WITNESS_IF(a_full(&A) && a->ulongs_count == NW, "a full set");
#elif QOP == 1 || QOP == 4
  int cm = QOP == 4;
  int r = cm ? hwloc_bitmap_first_unset(a) : hwloc_bitmap_first(a);
  if (cm ? a_full(&A) : a_empty(&A)) VP_CHECK(r == -1, "first(_unset): -1 when there is no such index");
  else {
    VP_CHECK(r >= 0, "first(_unset): non-negative when an index exists");
    VP_CHECK(a_isset(&A, (unsigned long) r) == !cm, "first(_unset): the index is (un)set");
    VP_CHECK(a_none_below(&A, (unsigned long) r, cm), "first(_unset): no lower index is (un)set");
  }
  VP_WITNESS_IF(r == 64 * NW, "first(_unset) lies in the tail");
#elif QOP == 2 || QOP == 5
  int cm = QOP == 5;
  int r = cm ? hwloc_bitmap_last_unset(a) : hwloc_bitmap_last(a);
  if ((cm ? !A.inf : A.inf) || (cm ? a_full(&A) : a_empty(&A))) VP_CHECK(r == -1, "last(_unset): -1 when infinite or no such index");
  else {
    VP_CHECK(r >= 0, "last(_unset): non-negative otherwise");
    VP_CHECK(a_isset(&A, (unsigned long) r) == !cm, "last(_unset): the index is (un)set");
    VP_CHECK(a_none_above(&A, (unsigned long) r, cm), "last(_unset): no higher index is (un)set");
  }
  VP_WITNESS_IF(r == 64 * NW - 1, "last(_unset) is the top explicit index");
#elif QOP == 3 || QOP == 6
  int cm = QOP == 6;
  int prev = vp_in_int();
  VP_ASSUME(prev >= -1 && prev < 0x7ffffffe);
  int r = cm ? hwloc_bitmap_next_unset(a, prev) : hwloc_bitmap_next(a, prev);
  /* is there any (un)set index above prev ? */
  int any = (cm ? !A.inf : A.inf) || !a_none_above(&A, prev < 0 ? 0 : (unsigned long) prev, cm)
            || (prev < 0 && a_isset(&A, 0) == !cm);
  if (prev >= 0 && (unsigned long) prev >= 64UL * W) any = cm ? !A.inf : A.inf;
  if (!any) VP_CHECK(r == -1, "next(_unset): -1 when nothing above prev");
  else {
    VP_CHECK(r > prev, "next(_unset): strictly above prev");
    VP_CHECK(a_isset(&A, (unsigned long) r) == !cm, "next(_unset): the index is (un)set");
    VP_CHECK(a_none_between(&A, prev, (unsigned long) r, cm), "next(_unset): nothing (un)set in between");
  }
  VP_WITNESS_IF(prev == 62 && r == 64, "next(_unset) crosses a word boundary");
  VP_WITNESS_IF(prev > 64 * W && r == prev + 1, "next(_unset) inside the tail");
#elif QOP == 7
  int r = hwloc_bitmap_weight(a);
  if (A.inf) VP_CHECK(r == -1, "weight: -1 when infinite");
  else { int e = 0; for (unsigned i = 0; i < W; i++) e += popc(A.w[i]); VP_CHECK(r == e, "weight: number of indexes"); }
  VP_WITNESS_IF(r == 64 * NW, "weight of all explicit bits");
#elif QOP == 8
  int r = hwloc_bitmap_nr_ulongs(a);
  if (A.inf) VP_CHECK(r == -1, "nr_ulongs: -1 when infinite");
  else {
    int e = 0; for (unsigned i = 0; i < W; i++) if (A.w[i]) e = (int) i + 1;
    VP_CHECK(r == e, "nr_ulongs: words up to the last set index (0 for the empty set)");
  }
  VP_WITNESS_IF(r == 0 && a->ulongs_count == NW, "nr_ulongs of an empty multi-word set");
#endif
  abs_of(a, &A2); VP_CHECK(a_equal(&A, &A2), "query leaves its argument unchanged");
}

/* -------------------------------------------------------------------------------------------- */
/* binary queries. Q2OP: 0 isequal 1 isincluded 2 intersects 3 compare 4 compare_first 5 compare_inclusion */
#ifndef Q2OP
#define Q2OP 0
#endif
VP_HARNESS(h_query2)
{
  struct hwloc_bitmap_s *a = mk(), *b = mk();
  if (vp_in_bool()) b = a;
  struct alpha A, B, A2, B2;
  abs_of(a, &A); abs_of(b, &B);
  VP_SYMBOLIC_PHASE(1);
#if Q2OP == 0
  VP_CHECK(hwloc_bitmap_isequal(a, b) == a_equal(&A, &B), "isequal");
  VP_WITNESS_IF(a != b && a->ulongs_count != b->ulongs_count && A.inf && a_equal(&A, &B), "equal sets with different representations");
#elif Q2OP == 1
  VP_CHECK(hwloc_bitmap_isincluded(a, b) == a_included(&A, &B), "isincluded");
  VP_WITNESS_IF(a != b && a->ulongs_count > b->ulongs_count && B.inf && !A.inf && a_included(&A, &B) && A.w[NW-1], "inclusion decided by the tail");
#elif Q2OP == 2
  VP_CHECK(hwloc_bitmap_intersects(a, b) == a_intersects(&A, &B), "intersects");
  VP_WITNESS_IF(a != b && a->ulongs_count < b->ulongs_count && A.inf && !B.inf && a_intersects(&A, &B) && !(A.w[0] & B.w[0]), "intersection only through the tail");
#elif Q2OP == 3
  int r = hwloc_bitmap_compare(a, b), e = 0;
  if (A.inf != B.inf) e = A.inf - B.inf;
  else for (int i = W - 1; i >= 0; i--) if (A.w[i] != B.w[i]) { e = A.w[i] < B.w[i] ? -1 : 1; break; }
  VP_CHECK(sgn(r) == e, "compare: sign of the lexicographic comparison from the highest index");
  VP_WITNESS_IF(a != b && a->ulongs_count != b->ulongs_count && A.inf && B.inf && e == -1, "compare of two infinite sets with different counts");
#elif Q2OP == 4
  int r = hwloc_bitmap_compare_first(a, b), e;
  int ea = a_empty(&A), eb = a_empty(&B);
  if (ea && eb) e = 0; else if (ea) e = 1; else if (eb) e = -1;
  else {
    /* compare the lowest indexes: the lowest index of the symmetric difference decides, unless both firsts coincide */
    e = 0;
    for (unsigned i = 0; i < W && !e; i++) {
      unsigned long wa = A.w[i], wb = B.w[i];
      if (wa || wb) {
        unsigned long la = wa & (0UL - wa), lb = wb & (0UL - wb); /* lowest set bit, 0 if none */
        if (la == lb) break;            /* same first index */
        if (!la) e = 1; else if (!lb) e = -1; else e = la < lb ? -1 : 1;
      }
    }
    /* no bit in the window: both firsts are in the tail region beyond W words, impossible here since W > NW */
  }
  VP_CHECK(sgn(r) == e, "compare_first: sign by lowest index, empty set is higher than anything");
  VP_WITNESS_IF(a != b && ea && B.inf && B.w[0] == 0 && a->ulongs_count == b->ulongs_count, "empty set against a set that only has its tail");
#else
  int r = hwloc_bitmap_compare_inclusion(a, b), e;
  if (a_equal(&A, &B)) e = HWLOC_BITMAP_EQUAL;
  else if (a_included(&A, &B)) e = HWLOC_BITMAP_INCLUDED;
  else if (a_included(&B, &A)) e = HWLOC_BITMAP_CONTAINS;
  else if (a_intersects(&A, &B)) e = HWLOC_BITMAP_INTERSECTS;
  else e = HWLOC_BITMAP_DIFFERENT;
  VP_CHECK(r == e, "compare_inclusion");
  VP_WITNESS_IF(a != b && e == HWLOC_BITMAP_INTERSECTS && A.inf && B.inf && !(A.w[0] & B.w[0]) && a->ulongs_count != b->ulongs_count, "sets intersecting only through their tails");
#endif
  abs_of(a, &A2); abs_of(b, &B2);
  VP_CHECK(a_equal(&A, &A2) && a_equal(&B, &B2), "query leaves its arguments unchanged");
}

/* -------------------------------------------------------------------------------------------- */
/* growth: the same operations when the destination has a SMALL constant allocation, through the real
 * hwloc_bitmap_enlarge_by_ulongs and a concrete-size realloc (1U << flsl(n-1) sizing). GOP: 0 set 1 or 2 set_range 3 only */
#ifndef GOP
#define GOP 0
#endif
#ifndef GALLOC
#define GALLOC 1
#endif
static struct hwloc_bitmap_s *mk_small(void)
{
  struct hwloc_bitmap_s *s = malloc(sizeof(*s));
  VP_NONNULL(s);
  s->ulongs = malloc(GALLOC * sizeof(unsigned long));
  VP_NONNULL(s->ulongs);
  s->ulongs_count = (unsigned) vp_in_range(1, GALLOC);
  s->ulongs_allocated = GALLOC;
  for (unsigned i = 0; i < GALLOC; i++) s->ulongs[i] = vp_in64();
  s->infinite = vp_in_bool();
  return s;
}
VP_HARNESS(h_growth)
{
  struct hwloc_bitmap_s *a = mk_small();
  struct alpha A, R;
  abs_of(a, &A);
  /* realloc stays enabled (concrete sizes): vp_symbolic_phase is left at 0 */
#if GOP == 0
  unsigned w = (unsigned) vp_in_range(0, ALLOC - 1), bit = (unsigned) vp_in_range(0, 63), cpu = 64 * w + bit;
  VP_CHECK(hwloc_bitmap_set(a, cpu) == 0, "set with growth returns 0");
  check_repr(a); abs_of(a, &R);
  for (unsigned i = 0; i < W; i++) VP_CHECK(R.w[i] == (A.w[i] | (i == w ? 1UL << bit : 0UL)), "set with growth: exact effect");
  VP_CHECK(R.inf == A.inf, "set with growth: tail");
  VP_CHECK(a->ulongs_allocated >= a->ulongs_count && (a->ulongs_allocated & (a->ulongs_allocated - 1)) == 0, "allocation is a power of two covering count");
  VP_WITNESS_IF(w == 5 && a->ulongs_allocated == 8, "grown from 1-2 to 8 words");
#elif GOP == 1
  struct hwloc_bitmap_s *b = mk(); struct alpha B; abs_of(b, &B);
  VP_CHECK(hwloc_bitmap_or(a, a, b) == 0, "or with growth returns 0");
  check_repr(a); abs_of(a, &R);
  for (unsigned i = 0; i < W; i++) VP_CHECK(R.w[i] == (A.w[i] | B.w[i]), "or with growth: exact effect");
  VP_CHECK(R.inf == (A.inf | B.inf), "or with growth: tail");
  VP_WITNESS_IF(b->ulongs_count == NW && a->ulongs_allocated > GALLOC, "destination grew");
#elif GOP == 2
  unsigned begin = (unsigned) vp_in_range(0, 64 * 4 - 1), end = (unsigned) vp_in_range(0, 64 * 4 - 1);
  VP_ASSUME(begin <= end);
  VP_CHECK(hwloc_bitmap_set_range(a, begin, (int) end) == 0, "set_range with growth returns 0");
  check_repr(a); abs_of(a, &R);
  for (unsigned i = 0; i < W; i++) VP_CHECK(R.w[i] == (A.w[i] | range_mask(i, begin, (int) end)), "set_range with growth: exact effect");
  VP_CHECK(R.inf == A.inf, "set_range with growth: tail");
  VP_WITNESS_IF(end / 64 == 3 && a->ulongs_allocated == 4 && !A.inf, "grown to 4 words");
#else
  unsigned cpu = (unsigned) vp_in_range(0, 64 * ALLOC - 1);
  VP_CHECK(hwloc_bitmap_only(a, cpu) == 0, "only with growth returns 0");
  check_repr(a); abs_of(a, &R);
  for (unsigned i = 0; i < W; i++) VP_CHECK(R.w[i] == (i == cpu / 64 ? 1UL << (cpu % 64) : 0UL), "only with growth: exact words");
  VP_CHECK(!R.inf, "only with growth: finite");
  VP_WITNESS_IF(cpu / 64 == 7, "only in the eighth word");
#endif
}
